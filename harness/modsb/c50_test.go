package modsb

import (
	"bytes"
	"encoding/json"
	"fmt"
	"os"
	"path/filepath"
	"sort"
	"strings"
	"testing"
	"time"

	"pgregory.net/rapid"

	"verif/harness/internal/ev"
	"verif/harness/internal/sys"
)

// C50: static file serving stays inside the document root.
//
// Rig: in-process BFE with mod_static; per case a generated directory tree is
// written under <work>/c50/root (sentinel files with a recognisable marker are
// written next to it, outside the root), the rule file (root, default file) is
// loaded through the module's reload handler, and raw HTTP/1.1 requests whose
// targets come from a traversal grammar are sent by a raw TCP client.
//
// Oracle (c50Resolve, written from RFC 3986 5.2.4 + the property statement, no
// file-system access): request-target -> strip query -> percent-decode once ->
// split on '/' -> drop "" and "." -> ".." pops (never above the root) -> look
// the segment list up in the in-memory description of the generated tree.

const (
	c50Sentinel = "SENTINEL-OUTSIDE-ROOT"
)

// ---- tree model -----------------------------------------------------------

type c50Tree struct {
	Files map[string][]byte // relative path (slash separated, no leading slash) -> content
	Dirs  map[string]bool   // relative dir paths ("" = root itself)
}

func (t *c50Tree) addFile(rel string, content []byte) bool {
	parts := strings.Split(rel, "/")
	for i := 1; i < len(parts); i++ {
		if _, isFile := t.Files[strings.Join(parts[:i], "/")]; isFile {
			return false
		}
	}
	if t.Dirs[rel] {
		return false
	}
	if _, dup := t.Files[rel]; dup {
		return false
	}
	for i := 1; i < len(parts); i++ {
		t.Dirs[strings.Join(parts[:i], "/")] = true
	}
	t.Files[rel] = content
	return true
}

// sub returns the tree seen from directory dir.
func (t *c50Tree) sub(dir string) *c50Tree {
	if dir == "" {
		return t
	}
	s := &c50Tree{Files: map[string][]byte{}, Dirs: map[string]bool{"": true}}
	for p, c := range t.Files {
		if strings.HasPrefix(p, dir+"/") {
			s.Files[p[len(dir)+1:]] = c
		}
	}
	for p := range t.Dirs {
		if strings.HasPrefix(p, dir+"/") {
			s.Dirs[p[len(dir)+1:]] = true
		}
	}
	return s
}

func (t *c50Tree) sig() string {
	var ks []string
	for p, c := range t.Files {
		ks = append(ks, fmt.Sprintf("%s=%d", p, len(c)))
	}
	sort.Strings(ks)
	return strings.Join(ks, ";")
}

// ---- path model -----------------------------------------------------------

type c50Kind int

const (
	kInvalid c50Kind = iota // request-target is not a valid origin/absolute form or has a bad escape
	kFile
	kDir
	kMissing
)

type c50Res struct {
	Kind       c50Kind
	Rel        string   // cleaned relative path
	Segs       []string // cleaned segments
	Escapes    bool     // lexically, ".." climbs above the root at some point
	TrailSlash bool
	BadName    string // "" / "nul" / "long"
	Decoded    string // decoded path before cleaning
}

func unhex(c byte) int {
	switch {
	case c >= '0' && c <= '9':
		return int(c - '0')
	case c >= 'a' && c <= 'f':
		return int(c-'a') + 10
	case c >= 'A' && c <= 'F':
		return int(c-'A') + 10
	}
	return -1
}

// c50Resolve interprets a request-target against a tree.
func c50Resolve(target string, t *c50Tree) c50Res {
	r := c50Res{}
	p := target
	if strings.HasPrefix(p, "http://") {
		p = p[len("http://"):]
		i := strings.IndexByte(p, '/')
		if i < 0 {
			p = "/"
		} else {
			p = p[i:]
		}
	}
	if !strings.HasPrefix(p, "/") {
		return r
	}
	if i := strings.IndexByte(p, '?'); i >= 0 {
		p = p[:i]
	}
	var dec []byte
	for i := 0; i < len(p); i++ {
		if p[i] == '%' {
			if i+2 >= len(p) {
				return r
			}
			h, l := unhex(p[i+1]), unhex(p[i+2])
			if h < 0 || l < 0 {
				return r
			}
			dec = append(dec, byte(h<<4|l))
			i += 2
			continue
		}
		dec = append(dec, p[i])
	}
	r.Decoded = string(dec)
	r.TrailSlash = len(dec) > 1 && dec[len(dec)-1] == '/'
	for _, s := range strings.Split(string(dec), "/") {
		switch s {
		case "", ".":
		case "..":
			if len(r.Segs) == 0 {
				r.Escapes = true
			} else {
				r.Segs = r.Segs[:len(r.Segs)-1]
			}
		default:
			r.Segs = append(r.Segs, s)
		}
	}
	r.Rel = strings.Join(r.Segs, "/")
	for _, s := range r.Segs {
		if strings.IndexByte(s, 0) >= 0 {
			r.BadName = "nul"
		} else if len(s) > 255 && r.BadName == "" {
			r.BadName = "long"
		}
	}
	switch {
	case r.BadName != "":
		r.Kind = kMissing
	case len(r.Segs) == 0 || t.Dirs[r.Rel]:
		r.Kind = kDir
	default:
		if _, ok := t.Files[r.Rel]; ok {
			r.Kind = kFile
		} else {
			r.Kind = kMissing
		}
	}
	return r
}

// acceptsToken: does the Accept-Encoding header mention the coding at all (any q)?
func aeMentions(ae, coding string) bool {
	for _, el := range strings.Split(ae, ",") {
		el = strings.TrimSpace(el)
		if i := strings.IndexByte(el, ';'); i >= 0 {
			el = strings.TrimSpace(el[:i])
		}
		if strings.EqualFold(el, coding) {
			return true
		}
	}
	return false
}

// ---- generators -----------------------------------------------------------

var c50Long200 = strings.Repeat("L", 200)

var c50DirNames = []string{"d", "sub", "e f", "...", "..x", ".h", "%2e%2e", "b\\c", "secret.txt", "a.txt"}
var c50FileNames = []string{"a.txt", "b.txt", "index.html", "c.js", "a", "x..", "...", "..y", ".ht", "%2e%2e", "a%2fb", "d\\a.txt", "\\", "ü.txt", "n~1",
	"secret.txt", "a.txt.gz", "a.txt.br", "b.txt.gz", "index.html.gz", "index.html.br", "a.gz", "sub", "d", c50Long200, "e f.txt"}

func c50GenTree(rt *rapid.T) *c50Tree {
	t := &c50Tree{Files: map[string][]byte{}, Dirs: map[string]bool{"": true}}
	n := rapid.IntRange(2, 12).Draw(rt, "nfiles")
	id := 0
	for i := 0; i < n; i++ {
		depth := rapid.SampledFrom([]int{0, 0, 0, 1, 1, 2, 3}).Draw(rt, "depth")
		var parts []string
		for d := 0; d < depth; d++ {
			parts = append(parts, rapid.SampledFrom(c50DirNames).Draw(rt, "dir"))
		}
		parts = append(parts, rapid.SampledFrom(c50FileNames).Draw(rt, "file"))
		rel := strings.Join(parts, "/")
		var content []byte
		switch rapid.IntRange(0, 11).Draw(rt, "content-kind") {
		case 0:
			content = []byte{} // empty file
		case 1:
			content = bytes.Repeat([]byte(fmt.Sprintf("F%d<%s>", id, rel)), 1+70000/(len(rel)+5)) // > 64 KB
		default:
			content = append([]byte(fmt.Sprintf("F%d<%s>:", id, rel)), rapid.SliceOfN(rapid.Byte(), 0, 40).Draw(rt, "bytes")...)
		}
		if t.addFile(rel, content) {
			id++
			// pre-compressed sibling (what EnableCompress looks for)
			if sib := rapid.SampledFrom([]string{"", "", "", "", ".gz", ".br"}).Draw(rt, "sibling"); sib != "" {
				if t.addFile(rel+sib, []byte(fmt.Sprintf("F%d<%s>", id, rel+sib))) {
					id++
				}
			}
		}
	}
	return t
}

// writeTree materialises the tree under root (root is emptied first).
func c50WriteTree(root string, t *c50Tree) error {
	if err := os.RemoveAll(root); err != nil {
		return err
	}
	if err := os.MkdirAll(root, 0o755); err != nil {
		return err
	}
	for rel, c := range t.Files {
		if err := mustWrite(filepath.Join(root, filepath.FromSlash(rel)), c); err != nil {
			return err
		}
	}
	return nil
}

// names that exist OUTSIDE the root (next to it); all carry the sentinel marker.
var c50Outside = []string{"secret.txt", "a.txt.gz", "a.txt.br", "b.txt.gz", "index.html.gz", "a.gz", "c.js.br", "rootx/secret.txt", "rootx/a.txt", "d/a.txt.gz", "sub/b.txt.gz"}

func c50EncodeSeg(rt *rapid.T, s string, label string) string {
	mode := rapid.IntRange(0, 5).Draw(rt, label+"-enc")
	var b strings.Builder
	for i := 0; i < len(s); i++ {
		c := s[i]
		must := c <= 0x20 || c >= 0x7f || strings.IndexByte("%?#\"<>`{}|^[]", c) >= 0
		enc := must
		switch mode {
		case 1: // encode dots
			enc = enc || c == '.'
		case 2: // encode everything
			enc = true
		case 3: // encode first byte
			enc = enc || i == 0
		case 4: // encode backslash
			enc = enc || c == '\\'
		}
		if enc {
			if mode == 5 || i%2 == 0 {
				fmt.Fprintf(&b, "%%%02X", c)
			} else {
				fmt.Fprintf(&b, "%%%02x", c)
			}
		} else {
			b.WriteByte(c)
		}
	}
	return b.String()
}

// c50GenTarget builds a request-target from the traversal grammar.
func c50GenTarget(rt *rapid.T, t *c50Tree, rootDepthNames []string, host string) (target string, feats []string) {
	var files, dirs []string
	for p := range t.Files {
		files = append(files, p)
	}
	for p := range t.Dirs {
		if p != "" {
			dirs = append(dirs, p)
		}
	}
	sort.Strings(files)
	sort.Strings(dirs)
	// 1. destination
	var segs []string
	kind := rapid.IntRange(0, 9).Draw(rt, "dest")
	switch {
	case kind <= 3 && len(files) > 0:
		segs = strings.Split(rapid.SampledFrom(files).Draw(rt, "dest-file"), "/")
		feats = append(feats, "dest-file")
		if rapid.IntRange(0, 3).Draw(rt, "climb-first") == 0 {
			// climb above the root first; a cleaned path comes back to the same file
			up := rapid.IntRange(1, 3).Draw(rt, "climb")
			for i := 0; i < up; i++ {
				segs = append([]string{".."}, segs...)
			}
			feats = append(feats, "dest-file-via-climb")
		}
	case kind == 4 && len(dirs) > 0:
		segs = strings.Split(rapid.SampledFrom(dirs).Draw(rt, "dest-dir"), "/")
		feats = append(feats, "dest-dir")
	case kind <= 6:
		// a sentinel outside the root, reached by climbing
		up := rapid.IntRange(1, 4).Draw(rt, "up")
		for i := 0; i < up; i++ {
			segs = append(segs, "..")
		}
		if rapid.Bool().Draw(rt, "via-rootname") && len(rootDepthNames) > 0 {
			// e.g. /../../c50/secret.txt
			k := rapid.IntRange(0, len(rootDepthNames)-1).Draw(rt, "rootname-k")
			segs = append(segs, rootDepthNames[k:]...)
			segs = append(segs, "..")
		}
		segs = append(segs, strings.Split(rapid.SampledFrom(c50Outside).Draw(rt, "outside"), "/")...)
		feats = append(feats, "dest-outside")
	case kind == 7:
		// absolute file-system path of a sentinel
		segs = append(segs, "")
		segs = append(segs, rootDepthNames...)
		segs = append(segs, "..", "secret.txt")
		feats = append(feats, "dest-abs-fs-path")
	default:
		n := rapid.IntRange(0, 4).Draw(rt, "nrand")
		for i := 0; i < n; i++ {
			segs = append(segs, rapid.SampledFrom(append(append([]string{"..", ".", "", "zz", strings.Repeat("x", 300), "a\x00", "\x00", "a.txt\x00.gz"}, c50FileNames...), c50DirNames...)).Draw(rt, "rand-seg"))
		}
		feats = append(feats, "dest-random")
	}
	// 2. obfuscation: insert neutral detours
	nd := rapid.IntRange(0, 3).Draw(rt, "ndetour")
	for i := 0; i < nd; i++ {
		pos := rapid.IntRange(0, len(segs)).Draw(rt, "detour-pos")
		var ins []string
		switch rapid.IntRange(0, 5).Draw(rt, "detour-kind") {
		case 0:
			ins = []string{"."}
		case 1:
			ins = []string{""}
		case 2:
			ins = []string{"nonexistent", ".."}
		case 3:
			if len(dirs) > 0 {
				ins = []string{strings.Split(rapid.SampledFrom(dirs).Draw(rt, "detour-dir"), "/")[0], ".."}
			} else {
				ins = []string{"q", ".."}
			}
		case 4:
			ins = []string{".."}
		case 5:
			if len(files) > 0 {
				ins = []string{strings.Split(rapid.SampledFrom(files).Draw(rt, "detour-file"), "/")[0], ".."}
			} else {
				ins = []string{"."}
			}
		}
		ns := append([]string{}, segs[:pos]...)
		ns = append(ns, ins...)
		segs = append(ns, segs[pos:]...)
	}
	// 3. spelling
	var b strings.Builder
	for i, s := range segs {
		sep := "/"
		switch rapid.IntRange(0, 19).Draw(rt, "sep") {
		case 0:
			sep = "%2f"
		case 1:
			sep = "%2F"
		case 2:
			sep = "//"
		case 3:
			if i > 0 {
				sep = "\\"
			}
		case 4:
			if i > 0 {
				sep = "%5c"
			}
		}
		if i == 0 {
			if sep != "//" {
				sep = "/"
			}
		}
		b.WriteString(sep)
		b.WriteString(c50EncodeSeg(rt, s, "seg"))
	}
	if len(segs) == 0 {
		b.WriteString("/")
	}
	switch rapid.IntRange(0, 15).Draw(rt, "tail") {
	case 0:
		b.WriteString("/")
	case 1:
		b.WriteString("%00")
	case 2:
		b.WriteString("/.")
	case 3:
		b.WriteString("?x=/../../secret.txt")
	case 4:
		b.WriteString("%00.txt")
	}
	target = b.String()
	if rapid.IntRange(0, 14).Draw(rt, "absform") == 0 {
		target = "http://" + host + target
		feats = append(feats, "absolute-form")
	}
	return target, feats
}

func c50Features(target string, r c50Res) []string {
	var f []string
	lt := strings.ToLower(target)
	add := func(c bool, s string) {
		if c {
			f = append(f, s)
		}
	}
	add(strings.Contains(r.Decoded, "/../") || strings.HasSuffix(r.Decoded, "/.."), "dotdot")
	add(strings.Contains(r.Decoded, "/./") || strings.HasSuffix(r.Decoded, "/."), "dot")
	add(strings.Contains(lt, "%2e"), "enc-dot")
	add(strings.Contains(lt, "%2f"), "enc-slash")
	add(strings.Contains(lt, "%5c") || strings.Contains(lt, "\\"), "backslash")
	add(strings.Contains(lt, "%00"), "nul")
	add(strings.Contains(r.Decoded, "//"), "dslash")
	add(r.TrailSlash, "trailing-slash")
	add(r.Escapes, "escapes-root")
	add(r.BadName == "long", "long-name")
	return f
}

// ---- the check --------------------------------------------------------------

type c50World struct {
	rig      *sys.Rig
	base     string
	root     string
	compress bool
	n        int
}

func c50Start(t *testing.T) *c50World {
	b, err := echoBackend()
	if err != nil {
		t.Fatal(err)
	}
	w := &c50World{}
	w.base = filepath.Join(workDir(), "c50")
	w.root = filepath.Join(w.base, "root")
	os.RemoveAll(w.base)
	if err := os.MkdirAll(w.root, 0o755); err != nil {
		t.Fatal(err)
	}
	for _, o := range c50Outside {
		if err := mustWrite(filepath.Join(w.base, o), []byte(c50Sentinel+"<"+o+">")); err != nil {
			t.Fatal(err)
		}
	}
	// EnableCompress is a start-time option: most seeds run with it on (requests without
	// Accept-Encoding then behave as if it were off), every fourth seed with it off.
	w.compress = ev.Seed()%4 != 0
	rule := fmt.Sprintf(`{"Version":"0","Config":{"ps":[{"Cond":"default_t()","Action":{"Cmd":"BROWSE","Params":[%q,""]}}]}}`, w.root)
	data := &sys.DataConf{
		Version:  "v0",
		Hosts:    map[string][]string{"ts": {"s0.example.org", "s1.example.org"}, "t": {"example.org"}},
		HostTags: map[string][]string{"ps": {"ts"}, "p": {"t"}},
		Rules:    map[string][]sys.Rule{"ps": {{Cond: "default_t()", Cluster: "c"}}, "p": {{Cond: "default_t()", Cluster: "c"}}},
		Clusters: []sys.Cluster{sys.OneBackendCluster("c", b.Port)},
	}
	rig, err := sys.Start(sys.Options{Modules: []string{"mod_static"},
		Files: map[string]string{
			"mod_static/mod_static.conf":  fmt.Sprintf("[basic]\nDataPath = mod_static/static_rule.data\nMimeTypePath = mod_static/mime_type.data\nEnableCompress = %v\n", w.compress),
			"mod_static/static_rule.data": rule,
		},
		Data: data})
	if err != nil {
		t.Fatalf("rig start: %v", err)
	}
	w.rig = rig
	return w
}

type c50Rule struct {
	Host    string
	RootRel string // "" or a directory of the tree (document root = root/RootRel)
	Default string // relative to the document root, "" = none
	Slash   bool   // root parameter written with a trailing slash
}

func (w *c50World) load(rules []c50Rule) (string, error) {
	w.n++
	type act struct {
		Cmd    string
		Params []string
	}
	type rl struct {
		Cond   string
		Action act
	}
	var rs []rl
	for _, r := range rules {
		root := w.root
		if r.RootRel != "" {
			root = filepath.Join(w.root, filepath.FromSlash(r.RootRel))
		}
		if r.Slash {
			root += "/"
		}
		rs = append(rs, rl{Cond: fmt.Sprintf("req_host_in(%q)", r.Host), Action: act{"BROWSE", []string{root, r.Default}}})
	}
	cfg := map[string]any{"Version": fmt.Sprint(w.n), "Config": map[string]any{"ps": rs}}
	bs, _ := json.Marshal(cfg)
	p := filepath.Join(w.rig.ConfRoot, "mod_static", fmt.Sprintf("gen_%d.data", w.n%4))
	if err := os.WriteFile(p, bs, 0o644); err != nil {
		return string(bs), err
	}
	return string(bs), w.rig.ReloadModule("mod_static", p)
}

func TestC50(t *testing.T) {
	rec := ev.New("C50", "per case: a generated directory tree (2-12 files, depth 0-3, names with dots/percent/backslash/space/UTF-8/200 chars, empty and >64KB files, pre-compressed .gz/.br siblings) under a document root with sentinel files next to it; two BROWSE rules (whole tree / a sub-directory as root, default file on/off) loaded through mod_static's reload handler; 1-6 raw requests whose targets come from a traversal grammar (.., ., //, %2e, %2f, backslash, %00, 300-char names, trailing slash, absolute FS path, absolute-form), methods GET/HEAD/POST/PUT/DELETE/OPTIONS/get/PATCH, Accept-Encoding variants; observed at a raw TCP client of an in-process BFE. non-trivial: target has a dot segment, an encoded dot/separator, a backslash, NUL or a >255-byte name; distinct by tree+rule+request")
	w := c50Start(t)
	rec.Set("enable_compress", w.compress)
	rootNames := strings.Split(strings.Trim(filepath.ToSlash(w.root), "/"), "/")
	c50Sweep(t, rec, w, rootNames)
	rapid.Check(t, func(rt *rapid.T) {
		tree := c50GenTree(rt)
		if err := c50WriteTree(w.root, tree); err != nil {
			rt.Fatalf("harness: write tree: %v", err)
		}
		var files, dirs []string
		for p := range tree.Files {
			files = append(files, p)
		}
		for p := range tree.Dirs {
			if p != "" {
				dirs = append(dirs, p)
			}
		}
		sort.Strings(files)
		sort.Strings(dirs)
		rules := []c50Rule{{Host: "s0.example.org", Slash: rapid.Bool().Draw(rt, "root-slash")}}
		if rapid.Bool().Draw(rt, "default0") && len(files) > 0 {
			rules[0].Default = rapid.SampledFrom(files).Draw(rt, "default0-file")
		}
		if len(dirs) > 0 {
			r1 := c50Rule{Host: "s1.example.org", RootRel: rapid.SampledFrom(dirs).Draw(rt, "subroot")}
			st := tree.sub(r1.RootRel)
			var sf []string
			for p := range st.Files {
				sf = append(sf, p)
			}
			sort.Strings(sf)
			if rapid.Bool().Draw(rt, "default1") && len(sf) > 0 {
				r1.Default = rapid.SampledFrom(sf).Draw(rt, "default1-file")
			}
			rules = append(rules, r1)
		}
		ruleJSON, err := w.load(rules)
		if err != nil {
			rt.Fatalf("harness: mod_static refused generated rule file %s: %v", ruleJSON, err)
		}
		nreq := rapid.IntRange(1, 6).Draw(rt, "nreq")
		for q := 0; q < nreq; q++ {
			rule := rules[rapid.IntRange(0, len(rules)-1).Draw(rt, "rule")]
			view := tree.sub(rule.RootRel)
			depthNames := rootNames
			if rule.RootRel != "" {
				depthNames = append(append([]string{}, rootNames...), strings.Split(rule.RootRel, "/")...)
			}
			target, feats := c50GenTarget(rt, view, depthNames, rule.Host)
			method := rapid.SampledFrom([]string{"GET", "GET", "GET", "GET", "GET", "HEAD", "HEAD", "POST", "PUT", "DELETE", "OPTIONS", "get", "PATCH", "Head"}).Draw(rt, "method")
			ae := rapid.SampledFrom([]string{"", "", "gzip", "br", "gzip, br", "br, gzip", "deflate, gzip;q=0.5", "identity", "GZIP", "gzip;q=0", "*"}).Draw(rt, "accept-encoding")
			c50One(rt, rec, w, tree, view, rule, ruleJSON, method, target, ae, feats)
		}
	})
}

// c50Sweep: deterministic part — a fixed tree and the classic traversal spellings
// against every method / Accept-Encoding / default-file combination.
func c50Sweep(t *testing.T, rec *ev.Rec, w *c50World, rootNames []string) {
	tree := &c50Tree{Files: map[string][]byte{}, Dirs: map[string]bool{"": true}}
	for _, f := range []struct{ p, c string }{
		{"a.txt", "F0<a.txt>"}, {"b.txt", "F1<b.txt>"}, {"b.txt.gz", "F2<b.txt.gz>"}, {"b.txt.br", "F3<b.txt.br>"},
		{"index.html", "F4<index.html>"}, {"index.html.gz", "F5<index.html.gz>"}, {"sub/c.js", "F6<sub/c.js>"}, {"sub/index.html", "F7<sub/index.html>"},
		{"empty", ""}, {"only.gz", "F8<only.gz>"}, {"sub/deep/x..", "F9<x..>"}, {"...", "F10<...>"}, {c50Long200, "F11<long>"},
		{"secret.txt", "F12<inside secret.txt>"}, {"%2e%2e", "F13<literal %2e%2e>"}, {"sub/b\\c", "F14<backslash>"},
	} {
		tree.addFile(f.p, []byte(f.c))
	}
	if err := c50WriteTree(w.root, tree); err != nil {
		t.Fatalf("harness: %v", err)
	}
	up := strings.Repeat("../", len(rootNames)+2)
	abs := "/" + strings.Join(rootNames[:len(rootNames)-1], "/")
	targets := []string{
		"/a.txt", "/b.txt", "/index.html", "/sub/c.js", "/empty", "/only", "/sub", "/sub/", "/", "/missing", "/sub/missing", "/a.txt/", "/a.txt/x",
		"/../secret.txt", "/../../secret.txt", "/" + up + "etc/passwd", "/sub/../../secret.txt", "/sub/../a.txt", "/./a.txt", "//a.txt", "/sub//c.js",
		"/%2e%2e/secret.txt", "/%2E%2E/%2e%2e/secret.txt", "/..%2fsecret.txt", "/..%2Fa.txt", "/sub%2f..%2f..%2fsecret.txt", "/%2e%2e%2fsecret.txt",
		"/..\\secret.txt", "/..%5csecret.txt", "/sub\\..\\..\\secret.txt", "/sub/b%5cc", "/sub/b\\c",
		"/.../", "/...", "/....//secret.txt", "/sub/deep/x..", "/sub/deep/x../", "/%252e%252e/secret.txt", "/%252e%252e",
		"/a.txt%00", "/%00", "/a.txt%00.gz", "/../secret.txt%00", "/sub/%00/../c.js",
		"/" + strings.Repeat("x", 300), "/sub/" + strings.Repeat("x", 256), "/" + strings.Repeat("x", 255), "/" + strings.Repeat("x", 300) + "/../a.txt", "/" + c50Long200,
		"/" + abs + "/secret.txt", "//" + abs + "/secret.txt", "/../rootx/secret.txt", "/../root/a.txt", "/../rootx/a.txt",
		"/../a.txt", "/../../a.txt", "/../b.txt", "/../index.html", "/../a", "/sub/../../a.txt", "/../sub/b.txt", "/../d/a.txt",
		"/a.txt?x=/../../secret.txt", "/a.txt?../secret.txt", "/%zz", "/%", "/%2", "a.txt", "../secret.txt", "/secret.txt",
	}
	n := 0
	for _, dflt := range []string{"", "index.html", "sub/index.html"} {
		for _, sub := range []string{"", "sub"} {
			if sub != "" && dflt == "sub/index.html" {
				continue
			}
			rules := []c50Rule{{Host: "s0.example.org", RootRel: sub, Default: dflt, Slash: n%2 == 1}}
			n++
			ruleJSON, err := w.load(rules)
			if err != nil {
				t.Fatalf("harness: mod_static refused rule file %s: %v", ruleJSON, err)
			}
			view := tree.sub(sub)
			for _, tg := range targets {
				for _, method := range []string{"GET", "HEAD", "POST", "OPTIONS"} {
					for _, ae := range []string{"", "gzip", "br", "gzip, br", "gzip;q=0"} {
						if method != "GET" && ae != "" && ae != "gzip" {
							continue
						}
						c50One(t, rec, w, tree, view, rules[0], ruleJSON, method, tg, ae, []string{"sweep"})
					}
				}
			}
		}
	}
}

func c50One(rt ev.TB, rec *ev.Rec, w *c50World, tree, view *c50Tree, rule c50Rule, ruleJSON, method, target, ae string, feats []string) {
	res := c50Resolve(target, view)
	var raw bytes.Buffer
	fmt.Fprintf(&raw, "%s %s HTTP/1.1\r\nHost: %s\r\nConnection: close\r\n", method, target, rule.Host)
	if ae != "" {
		fmt.Fprintf(&raw, "Accept-Encoding: %s\r\n", ae)
	}
	body := ""
	if method == "POST" || method == "PUT" {
		body = "abc"
		fmt.Fprintf(&raw, "Content-Length: %d\r\n", len(body))
	}
	raw.WriteString("\r\n" + body)

	cls := append([]string{"method-" + method, "kind-" + []string{"invalid", "file", "dir", "missing"}[res.Kind]}, feats...)
	tf := c50Features(target, res)
	cls = append(cls, tf...)
	if rule.Default != "" {
		cls = append(cls, "default-on")
	} else {
		cls = append(cls, "default-off")
	}
	if rule.RootRel != "" {
		cls = append(cls, "sub-root")
	}
	if ae != "" {
		cls = append(cls, "ae-present")
	}
	nt := false
	for _, f := range tf {
		switch f {
		case "dotdot", "dot", "enc-dot", "enc-slash", "backslash", "nul", "long-name":
			nt = true
		}
	}
	rec.Case(fmt.Sprintf("%s|%s|%s|%s|%s|%+v", tree.sig(), method, target, ae, rule.Host, rule), nt, cls...)
	sample := map[string]any{"method": method, "target": target, "accept_encoding": ae, "rule": rule, "files": len(tree.Files), "model_kind": cls[1], "model_rel": res.Rel}
	rec.Sample(sample)

	e := exchangeAll(w.rig.HTTPAddr, raw.Bytes(), method, 20*time.Second)
	wit := map[string]any{"method": method, "target": target, "accept_encoding": ae, "rule": rule, "rules_file": ruleJSON, "tree": treeDesc(tree),
		"model": map[string]any{"kind": cls[1], "rel": res.Rel, "escapes_root": res.Escapes, "bad_name": res.BadName}, "response_head": clip(e.Raw, 400), "enable_compress": w.compress}
	if e.Timeout || (e.Msg == nil && len(e.Raw) == 0) {
		// nothing came back within the budget (loaded machine) or the connection was reset
		// before the response could be read: inconclusive, never a violation
		rec.Excluded("no-response-inconclusive")
		return
	}
	if e.Msg == nil {
		rec.Fail(rt, "malformed-response", wit, "response is not a well-formed HTTP/1.1 message: %v", e.Err)
		return
	}
	m := e.Msg
	rest := e.Raw[m.ConsumedLen:]
	// universal: sentinel bytes never appear
	if bytes.Contains(e.Raw, []byte(c50Sentinel)) {
		rec.Fail(rt, "sentinel-leaked", wit, "%s %s: response contains the content of a file outside the document root", method, target)
		return
	}
	if string(m.Body) == backendMarker || bytes.Contains(m.Body, []byte(backendMarker)) {
		rec.Fail(rt, "not-handled-by-mod-static", wit, "%s %s was forwarded to the backend", method, target)
		return
	}
	if res.Kind == kInvalid {
		rec.Class("resp-invalid-target-" + fmt.Sprint(m.Status))
		if m.Status == 200 && len(m.Body) > 0 {
			c50CheckBodyIsSomeFile(rt, rec, wit, view, rule, m.Body, "invalid-target-served")
		}
		return
	}
	httpMethodOK := method == "GET" || method == "HEAD"
	if !httpMethodOK {
		if m.Status != 405 {
			rec.Fail(rt, "method-not-405", wit, "%s %s: status %d, want 405 (only GET and HEAD are served)", method, target, m.Status)
			return
		}
		if len(m.Body) != 0 || len(rest) != 0 {
			rec.Fail(rt, "method-405-with-body", wit, "%s %s: 405 carries %d body bytes", method, target, len(m.Body)+len(rest))
		}
		return
	}
	// allowed representations
	type repr struct {
		body []byte
		ce   string
		what string
	}
	var allowed []repr
	addReprs := func(rel string, what string, plainOK bool) {
		if c, ok := view.Files[rel]; ok && plainOK {
			allowed = append(allowed, repr{c, "", what})
		}
		if w.compress {
			for _, cd := range [][2]string{{"gzip", "gz"}, {"br", "br"}} {
				if aeMentions(ae, cd[0]) {
					if c, ok := view.Files[rel+"."+cd[1]]; ok {
						allowed = append(allowed, repr{c, cd[0], what + "-precompressed-" + cd[0]})
					}
				}
			}
		}
	}
	if res.BadName == "" && len(res.Segs) > 0 {
		addReprs(res.Rel, "file", res.Kind == kFile)
	}
	nPrimary := len(allowed)
	if rule.Default != "" {
		addReprs(rule.Default, "default", true)
	}
	ceGot := strings.ToLower(strings.TrimSpace(hdr1(m, "Content-Encoding")))
	cl := hdr(m, "Content-Length")
	notServed := func(got string) {
		key := "existing-file-not-served"
		if res.Escapes && w.compress && ae != "" {
			// discriminating feature: the un-cleaned path joined to the root names an
			// existing <name>.gz/.br OUTSIDE the root
			if c50OutsideSibling(w, rule, res.Decoded, ae) {
				key = "precompressed-stat-outside-root"
			}
		}
		rec.Fail(rt, key, wit, "%s %s denotes existing file %q under the root but the answer is %s", method, target, res.Rel, got)
	}
	if m.Status == 400 && !c50StrictTarget(target) {
		// the target contains bytes RFC 3986 does not allow unencoded: rejecting it is legitimate
		rec.Class("rejected-nonstrict-target")
		return
	}

	if m.Status == 200 {
		if len(cl) != 1 {
			rec.Fail(rt, "content-length-missing", wit, "%s %s: 200 with Content-Length fields %v", method, target, cl)
			return
		}
		if m.Chunked {
			rec.Fail(rt, "chunked-with-content-length", wit, "%s %s: 200 has both Transfer-Encoding: chunked and Content-Length", method, target)
			return
		}
		var hit *repr
		hitIdx := -1
		for i := range allowed {
			a := &allowed[i]
			if a.ce != ceGot {
				continue
			}
			if method == "HEAD" {
				if fmt.Sprint(len(a.body)) == cl[0] {
					hit, hitIdx = a, i
					break
				}
			} else if bytes.Equal(a.body, m.Body) {
				hit, hitIdx = a, i
				break
			}
		}
		if method == "HEAD" && (len(m.Body) != 0 || len(rest) != 0) {
			rec.Fail(rt, "head-with-body", wit, "HEAD %s: %d bytes follow the header section", target, len(rest))
			return
		}
		if method == "GET" && len(rest) != 0 {
			rec.Fail(rt, "bytes-after-body", wit, "GET %s: %d bytes follow the Content-Length delimited body", target, len(rest))
			return
		}
		if hit == nil {
			key := "wrong-body"
			switch {
			case len(allowed) == 0 && res.Kind == kMissing:
				key = "missing-served-200"
			case len(allowed) == 0 && res.Kind == kDir:
				key = "dir-served-200"
			case method == "HEAD":
				key = "head-content-length-mismatch"
			}
			if method == "GET" {
				if c50CheckBodyIsSomeFile(rt, rec, wit, view, rule, m.Body, key) {
					rec.Fail(rt, key, wit, "GET %s (model: %s %q): 200 body (%d bytes, Content-Encoding %q) is a file under the root but not the one the path denotes", target, cls[1], res.Rel, len(m.Body), ceGot)
				}
				return
			}
			rec.Fail(rt, key, wit, "HEAD %s (model: %s %q): Content-Length %s / Content-Encoding %q matches no allowed representation", target, cls[1], res.Rel, cl[0], ceGot)
			return
		}
		if method == "GET" && cl[0] != fmt.Sprint(len(hit.body)) {
			rec.Fail(rt, "content-length-mismatch", wit, "GET %s: Content-Length %s, file has %d bytes", target, cl[0], len(hit.body))
			return
		}
		if res.Kind == kFile && hitIdx >= nPrimary {
			// the default file was served although the path denotes an existing file
			if res.TrailSlash {
				return
			}
			notServed("the default file")
			return
		}
		rec.Class("served-" + hit.what)
		return
	}
	// non-200
	rec.Class(fmt.Sprintf("status-%d", m.Status))
	if method == "GET" && len(m.Body) > 0 {
		// an error response must not carry file content
		for _, c := range tree.Files {
			if len(c) > 8 && bytes.Contains(m.Body, c) {
				rec.Fail(rt, "error-with-file-content", wit, "GET %s: status %d carries file content", target, m.Status)
				return
			}
		}
	}
	switch res.Kind {
	case kFile:
		if res.TrailSlash && m.Status == 404 {
			return // "file/" may be treated as a directory reference
		}
		notServed(fmt.Sprintf("status %d", m.Status))
	case kMissing:
		if m.Status != 404 {
			key := "missing-not-404"
			if res.BadName == "nul" {
				key = "nul-name-not-404"
			} else if res.BadName == "long" {
				key = "long-name-not-404"
			}
			if nPrimary > 0 {
				key = "precompressed-only-not-served"
			}
			rec.Fail(rt, key, wit, "%s %s denotes no file (model rel %q) but the answer is %d, want 404", method, target, res.Rel, m.Status)
		}
	case kDir:
		// a directory is neither a file nor a missing file: any non-200 answer (or the default file) is accepted
	}
}

// c50StrictTarget: only pchar / "/" / "?" query characters of RFC 3986 appear unencoded.
func c50StrictTarget(t string) bool {
	for i := 0; i < len(t); i++ {
		c := t[i]
		if c >= 'a' && c <= 'z' || c >= 'A' && c <= 'Z' || c >= '0' && c <= '9' {
			continue
		}
		if strings.IndexByte("-._~!$&'()*+,;=:@/?%", c) >= 0 {
			continue
		}
		return false
	}
	return true
}

// c50OutsideSibling: lexically joining root + decoded path + ".gz"/".br" (without
// cleaning inside the root first) names one of the sentinel files.
func c50OutsideSibling(w *c50World, rule c50Rule, decoded, ae string) bool {
	root := w.root
	if rule.RootRel != "" {
		root = filepath.Join(root, filepath.FromSlash(rule.RootRel))
	}
	for _, cd := range [][2]string{{"gzip", "gz"}, {"br", "br"}} {
		if !aeMentions(ae, cd[0]) {
			continue
		}
		full := filepath.Join(root, decoded+"."+cd[1])
		if strings.HasPrefix(full, root+"/") {
			continue
		}
		for _, o := range c50Outside {
			if full == filepath.Join(w.base, o) {
				return true
			}
		}
		// for a sub-root rule the rest of the tree is outside as well
		if fi, err := os.Stat(full); err == nil && !fi.IsDir() {
			return true
		}
	}
	return false
}

// c50CheckBodyIsSomeFile: the hard core of the property — a 200 body must be the
// exact content of some file under the document root. Returns true if it is.
func c50CheckBodyIsSomeFile(rt ev.TB, rec *ev.Rec, wit map[string]any, view *c50Tree, rule c50Rule, body []byte, key string) bool {
	for _, c := range view.Files {
		if bytes.Equal(c, body) {
			return true
		}
	}
	rec.Fail(rt, key+"-not-a-root-file", wit, "200 body (%d bytes: %s) is not the exact content of any file under the document root", len(body), clip(body, 60))
	return false
}

func treeDesc(t *c50Tree) []string {
	var ks []string
	for p, c := range t.Files {
		ks = append(ks, fmt.Sprintf("%q (%d bytes)", p, len(c)))
	}
	sort.Strings(ks)
	return ks
}

package modsb

import (
	"bytes"
	"compress/gzip"
	"encoding/json"
	"fmt"
	"io"
	"net"
	"os"
	"path/filepath"
	"strconv"
	"strings"
	"sync"
	"testing"
	"time"

	"github.com/andybalholm/brotli"
	"pgregory.net/rapid"

	"verif/harness/internal/ev"
	"verif/harness/internal/ref"
	"verif/harness/internal/sys"
)

// C54: compressed responses decompress to the original body.
//
// Rig: in-process BFE with mod_compress; a harness backend answers each request
// from a generated script (status, framing, body, write chunking, upstream
// Content-Encoding); the rule file (GZIP/BROTLI, Quality, FlushSize, one or two
// rules) is loaded through the module's reload handler; a raw client sends the
// request with a generated Accept-Encoding and reads the connection to EOF.
//
// Oracle: strict HTTP/1.1 framing (ref.ParseResponse), RFC 7231 5.3.4 reading of
// Accept-Encoding (c54Accepts), std compress/gzip and andybalholm/brotli *readers*.

type c54Script struct {
	Status   int
	Body     []byte
	Framing  string // "cl", "chunked", "close"
	Splits   []int  // write boundaries inside the raw response bytes
	Pause    bool   // sleep 1ms between writes so that BFE sees separate reads
	UpCE     string // upstream Content-Encoding ("" = none)
	UpCT     string
	HeadOnly bool // request method is HEAD: no body bytes are written
	// HoldAfter > 0: after that many bytes of the raw response the backend waits for Hold
	// (or 3 s) before it writes the rest (used for clients that leave mid-body)
	HoldAfter int
	Hold      chan struct{}
}

type c54Backend struct {
	mu      sync.Mutex
	scripts map[string]*c54Script
	be      *sys.Backend
}

func (b *c54Backend) set(target string, s *c54Script) {
	b.mu.Lock()
	b.scripts[target] = s
	b.mu.Unlock()
}

func (b *c54Backend) get(target string) *c54Script {
	b.mu.Lock()
	defer b.mu.Unlock()
	return b.scripts[target]
}

func (b *c54Backend) del(target string) {
	b.mu.Lock()
	delete(b.scripts, target)
	b.mu.Unlock()
}

func c54Reason(st int) string {
	switch st {
	case 200:
		return "OK"
	case 204:
		return "No Content"
	case 304:
		return "Not Modified"
	case 404:
		return "Not Found"
	case 206:
		return "Partial Content"
	}
	return "Status"
}

func (s *c54Script) raw() []byte {
	var b bytes.Buffer
	fmt.Fprintf(&b, "HTTP/1.1 %d %s\r\n", s.Status, c54Reason(s.Status))
	if s.UpCT != "" {
		fmt.Fprintf(&b, "Content-Type: %s\r\n", s.UpCT)
	}
	if s.UpCE != "" {
		fmt.Fprintf(&b, "Content-Encoding: %s\r\n", s.UpCE)
	}
	noBody := s.Status == 204 || s.Status == 304
	switch {
	case noBody:
		if s.Status == 304 {
			fmt.Fprintf(&b, "Content-Length: %d\r\n", len(s.Body))
		}
		b.WriteString("\r\n")
		return b.Bytes()
	case s.Framing == "cl":
		fmt.Fprintf(&b, "Content-Length: %d\r\n\r\n", len(s.Body))
		if !s.HeadOnly {
			b.Write(s.Body)
		}
	case s.Framing == "chunked":
		b.WriteString("Transfer-Encoding: chunked\r\n\r\n")
		if !s.HeadOnly {
			// chunk boundaries follow the split list as well
			rest := s.Body
			for i, sp := range s.Splits {
				n := sp % 5000
				if i >= 6 || n == 0 || n > len(rest) {
					break
				}
				fmt.Fprintf(&b, "%x\r\n", n)
				b.Write(rest[:n])
				b.WriteString("\r\n")
				rest = rest[n:]
			}
			if len(rest) > 0 {
				fmt.Fprintf(&b, "%X\r\n", len(rest))
				b.Write(rest)
				b.WriteString("\r\n")
			}
			b.WriteString("0\r\n\r\n")
		}
	default: // close-delimited
		b.WriteString("Connection: close\r\n\r\n")
		if !s.HeadOnly {
			b.Write(s.Body)
		}
	}
	return b.Bytes()
}

func (b *c54Backend) handler(bc *sys.BackendConn) {
	off := 0
	for {
		m, err := bc.ReadRequest(off, 30*time.Second)
		if err != nil {
			return
		}
		off += m.ConsumedLen
		s := b.get(m.Target)
		if s == nil {
			fmt.Fprintf(bc.Conn, "HTTP/1.1 500 No Script\r\nContent-Length: 0\r\n\r\n")
			continue
		}
		raw := s.raw()
		prev := 0
		if s.HoldAfter > 0 && s.HoldAfter < len(raw) {
			bc.Conn.Write(raw[:s.HoldAfter])
			select {
			case <-s.Hold:
			case <-time.After(3 * time.Second):
			}
			bc.Conn.SetWriteDeadline(time.Now().Add(2 * time.Second))
			if _, err := bc.Conn.Write(raw[s.HoldAfter:]); err != nil {
				return
			}
			bc.Conn.SetWriteDeadline(time.Time{})
			continue
		}
		for _, sp := range s.Splits {
			p := sp % (len(raw) + 1)
			if p <= prev {
				continue
			}
			bc.Conn.Write(raw[prev:p])
			prev = p
			if s.Pause {
				time.Sleep(time.Millisecond)
			}
		}
		bc.Conn.Write(raw[prev:])
		if s.Framing == "close" && s.Status != 204 && s.Status != 304 {
			return
		}
	}
}

// ---- Accept-Encoding reference (RFC 7231 5.3.1 / 5.3.4) --------------------

// c54Accepts: 1 acceptable, 0 not acceptable, -1 no judgement (malformed / ambiguous header).
func c54Accepts(ae string, present bool, coding string) int {
	if !present {
		return -1 // "any content-coding is acceptable"; BFE is free either way
	}
	type ent struct {
		q  float64
		ok bool
	}
	seen := map[string]ent{}
	if strings.TrimSpace(ae) == "" {
		return 0 // empty field value: only identity
	}
	for _, el := range strings.Split(ae, ",") {
		el = strings.Trim(el, " \t")
		if el == "" {
			continue // empty list elements are tolerated (RFC 7230 7)
		}
		name, q := el, 1.0
		if i := strings.IndexByte(el, ';'); i >= 0 {
			name = strings.Trim(el[:i], " \t")
			w := strings.Trim(el[i+1:], " \t")
			if len(w) < 3 || (w[0] != 'q' && w[0] != 'Q') || w[1] != '=' {
				return -1
			}
			qs := w[2:]
			okq := false
			if qs[0] == '0' || qs[0] == '1' {
				okq = true
				if len(qs) > 1 {
					if qs[1] != '.' || len(qs) > 5 {
						okq = false
					}
					for _, c := range qs[2:] {
						if c < '0' || c > '9' || (qs[0] == '1' && c != '0') {
							okq = false
						}
					}
				}
			}
			if !okq {
				return -1
			}
			q, _ = strconv.ParseFloat(qs, 64)
		}
		if name == "" {
			return -1
		}
		for i := 0; i < len(name); i++ {
			if !(name[i] == '*' || name[i] == '-' || name[i] == '_' || name[i] >= '0' && name[i] <= '9' || name[i] >= 'a' && name[i] <= 'z' || name[i] >= 'A' && name[i] <= 'Z') {
				return -1
			}
		}
		k := strings.ToLower(name)
		if old, dup := seen[k]; dup && (old.q > 0) != (q > 0) {
			return -1
		}
		seen[k] = ent{q, true}
	}
	if e, ok := seen[coding]; ok {
		if e.q > 0 {
			return 1
		}
		return 0
	}
	if e, ok := seen["*"]; ok {
		if e.q > 0 {
			return 1
		}
		return 0
	}
	return 0
}

// ---- generators -----------------------------------------------------------

// c54Expand deterministically stretches seed to n pseudo-random bytes (xorshift seeded from drawn bytes).
func c54Expand(seed []byte, n int) []byte {
	var x uint64 = 0x9e3779b97f4a7c15
	for _, b := range seed {
		x = (x ^ uint64(b)) * 0x100000001b3
	}
	if x == 0 {
		x = 1
	}
	out := make([]byte, n)
	for i := range out {
		x ^= x << 13
		x ^= x >> 7
		x ^= x << 17
		out[i] = byte(x >> 24)
	}
	return out
}

func c54GenBody(rt *rapid.T) (body []byte, class string) {
	switch rapid.IntRange(0, 9).Draw(rt, "body-kind") {
	case 0:
		return []byte{}, "body-empty"
	case 1:
		return []byte{byte(rapid.IntRange(0, 255).Draw(rt, "one-byte"))}, "body-1B"
	case 2, 3:
		unit := rapid.SliceOfN(rapid.Byte(), 1, 30).Draw(rt, "unit")
		n := rapid.IntRange(1, 3000).Draw(rt, "repeat")
		return bytes.Repeat(unit, n), "body-compressible"
	case 4:
		n := rapid.IntRange(65537, 300000).Draw(rt, "big-len")
		seed := rapid.SliceOfN(rapid.Byte(), 1, 8).Draw(rt, "seed")
		if rapid.Bool().Draw(rt, "big-compressible") {
			return bytes.Repeat(append([]byte("lorem ipsum "), seed...), n/(12+len(seed))+1)[:n], "body-gt64K"
		}
		return c54Expand(seed, n), "body-gt64K"
	case 5, 6:
		// around the flush size / buffer boundaries
		n := rapid.SampledFrom([]int{63, 64, 65, 127, 128, 511, 512, 513, 1023, 1024, 1025, 4095, 4096, 4097, 8191, 8192, 8193, 32767, 32768, 32769}).Draw(rt, "edge-len")
		seed := rapid.SliceOfN(rapid.Byte(), 1, 8).Draw(rt, "seed")
		return c54Expand(seed, n), "body-edge-len"
	case 7:
		// text that already looks like a gzip stream
		var b bytes.Buffer
		zw := gzip.NewWriter(&b)
		zw.Write(bytes.Repeat([]byte("inner "), rapid.IntRange(0, 500).Draw(rt, "inner")))
		zw.Close()
		return b.Bytes(), "body-is-gzip-stream"
	default:
		n := rapid.IntRange(2, 20000).Draw(rt, "rand-len")
		seed := rapid.SliceOfN(rapid.Byte(), 1, 8).Draw(rt, "seed")
		return c54Expand(seed, n), "body-random"
	}
}

var c54AEs = []string{
	"gzip", "br", "gzip, br", "br, gzip", "gzip,br", "gzip, deflate, br", "deflate, gzip", "GZIP", "Br", "gzip, deflate",
	"gzip;q=0", "br;q=0", "gzip; q=0", "gzip ;q=0", "gzip ; q=0", "br ;q=0", "gzip\t;q=0", "br; q=0.0", "gzip;q=0.000",
	"gzip;q=1", "gzip;q=0.5, br;q=0.1", "gzip;q=0.001", "br;q=1.0", "gzip ;q=0.8", "br ; q=0.5",
	"identity", "identity;q=0", "*", "*;q=0", "*;q=0, gzip", "*;q=0, br;q=0.5", "gzip;q=0, *", "br;q=0, *;q=1",
	"deflate", "compress, deflate", "x-gzip", "gzipx", "xbr", "gzip-br", "brotli", "", " ",
	"*, gzip;q=0", "*, br;q=0", "gzip;q=0, *;q=0.5", "br, *;q=0.1, gzip;q=0", "gzip, *;q=0.1, br;q=0", "*;q=1, gzip;q=0, br;q=0", "identity, *, gzip;q=0.0", "* , br ;q=0",
	"gzip;q=0, br", "br;q=0, gzip", "gzip ;q=0, br ;q=0", "gzip, br;q=0", "br, gzip ;q=0",
}

type c54Rule struct {
	Cond      string
	Cmd       string
	Quality   int
	FlushSize int
	// optional-looking members left out of the rule file; such a file is only in the domain
	// if the module's loader accepts it
	OmitQuality   bool
	OmitFlushSize bool
}

func c54Omits(rules []c54Rule) bool {
	for _, r := range rules {
		if r.OmitQuality || r.OmitFlushSize {
			return true
		}
	}
	return false
}

var errC54Refused = fmt.Errorf("rule file with omitted members refused by the loader")

type c54World struct {
	rig *sys.Rig
	be  *c54Backend
	n   int
}

func c54Start(t *testing.T) *c54World {
	w := &c54World{be: &c54Backend{scripts: map[string]*c54Script{}}}
	b, err := sys.NewBackend("b0", w.be.handler)
	if err != nil {
		t.Fatal(err)
	}
	w.be.be = b
	data := &sys.DataConf{
		Version:  "v0",
		Hosts:    map[string][]string{"tc": {"c.example.org"}, "t": {"example.org"}},
		HostTags: map[string][]string{"pc": {"tc"}, "p": {"t"}},
		Rules:    map[string][]sys.Rule{"pc": {{Cond: "default_t()", Cluster: "c"}}, "p": {{Cond: "default_t()", Cluster: "c"}}},
		Clusters: []sys.Cluster{sys.OneBackendCluster("c", b.Port)},
	}
	rig, err := sys.Start(sys.Options{Modules: []string{"mod_compress"},
		Files: map[string]string{
			"mod_compress/compress_rule.data": `{"Version":"0","Config":{}}`,
		},
		Data: data})
	if err != nil {
		t.Fatalf("rig start: %v", err)
	}
	w.rig = rig
	// second data version: requests below /cancel/ go to cluster "cc", the same backend with the
	// documented cluster option CancelOnClientClose = true (sys.DataConf has no field for it, so the
	// generated cluster_conf.data is edited before it goes through the real reload entry points)
	d2 := &sys.DataConf{
		Version:  "v1",
		Hosts:    data.Hosts,
		HostTags: data.HostTags,
		Rules: map[string][]sys.Rule{"pc": {{Cond: `req_path_prefix_in("/cancel/", false)`, Cluster: "cc"}, {Cond: "default_t()", Cluster: "c"}},
			"p": {{Cond: "default_t()", Cluster: "c"}}},
		Clusters: []sys.Cluster{sys.OneBackendCluster("c", b.Port), sys.OneBackendCluster("cc", b.Port)},
	}
	fs, err := rig.WriteVersion(d2)
	if err != nil {
		t.Fatalf("harness: %v", err)
	}
	var cconf map[string]any
	bs, _ := os.ReadFile(fs["cluster_conf.data"])
	if err := json.Unmarshal(bs, &cconf); err != nil {
		t.Fatalf("harness: %v", err)
	}
	cconf["Config"].(map[string]any)["cc"].(map[string]any)["ClusterBasic"].(map[string]any)["CancelOnClientClose"] = true
	bs, _ = json.MarshalIndent(cconf, "", " ")
	if err := os.WriteFile(fs["cluster_conf.data"], bs, 0o644); err != nil {
		t.Fatalf("harness: %v", err)
	}
	if err := rig.ReloadServerData(fs); err != nil {
		t.Fatalf("harness: reload of server data with the cancel-on-client-close cluster: %v", err)
	}
	if err := rig.ReloadGslb(fs); err != nil {
		t.Fatalf("harness: gslb reload: %v", err)
	}
	return w
}

// abort: a client asks for a compressed response through the CancelOnClientClose cluster and
// disconnects in the middle of the body (the backend is holding the rest back at that moment).
// Nothing is judged on this exchange; it only creates history for the responses that follow.
func (w *c54World) abort(n int, body []byte) bool {
	tgt := fmt.Sprintf("/cancel/x?n=%d", n)
	sc := &c54Script{Status: 200, Body: body, Framing: "cl", UpCT: "text/plain", Hold: make(chan struct{})}
	sc.HoldAfter = len(sc.raw()) - len(body)/2
	w.be.set(tgt, sc)
	defer w.be.del(tgt)
	c, err := net.DialTimeout("tcp", w.rig.HTTPAddr, 10*time.Second)
	if err != nil {
		close(sc.Hold)
		return false
	}
	fmt.Fprintf(c, "GET %s HTTP/1.1\r\nHost: c.example.org\r\nAccept-Encoding: gzip, br\r\n\r\n", tgt)
	// wait for the header section and the first body bytes
	var got []byte
	buf := make([]byte, 4096)
	c.SetReadDeadline(time.Now().Add(5 * time.Second))
	for {
		k, rerr := c.Read(buf)
		got = append(got, buf[:k]...)
		if i := bytes.Index(got, []byte("\r\n\r\n")); i >= 0 && len(got) > i+4+8 {
			break
		}
		if rerr != nil {
			break
		}
	}
	midBody := bytes.Contains(got, []byte("\r\n\r\n"))
	c.Close() // the client is gone
	time.Sleep(15 * time.Millisecond)
	close(sc.Hold)
	time.Sleep(10 * time.Millisecond)
	return midBody
}

func (w *c54World) load(rules []c54Rule) (string, error) {
	w.n++
	var rs []map[string]any
	for _, r := range rules {
		act := map[string]any{"Cmd": r.Cmd}
		if !r.OmitQuality {
			act["Quality"] = r.Quality
		}
		if !r.OmitFlushSize {
			act["FlushSize"] = r.FlushSize
		}
		rs = append(rs, map[string]any{"Cond": r.Cond, "Action": act})
	}
	cfg := map[string]any{"Version": fmt.Sprint(w.n), "Config": map[string]any{"pc": rs}}
	bs, _ := json.Marshal(cfg)
	p := filepath.Join(w.rig.ConfRoot, "mod_compress", fmt.Sprintf("gen_%d.data", w.n%4))
	if err := os.WriteFile(p, bs, 0o644); err != nil {
		return string(bs), err
	}
	var err error
	pv := ev.Try(func() { err = w.rig.ReloadModule("mod_compress", p) })
	if c54Omits(rules) && (pv != nil || err != nil) {
		// refused (by an error or by a panic of the loader): the previous rules stay in force
		return string(bs), errC54Refused
	}
	if pv != nil {
		return string(bs), fmt.Errorf("loader panicked: %v", pv)
	}
	return string(bs), err
}

func c54GenAction(rt *rapid.T, label string) c54Rule {
	r := c54Rule{}
	if rapid.Bool().Draw(rt, label+"-gzip") {
		r.Cmd = "GZIP"
		r.Quality = rapid.IntRange(-2, 9).Draw(rt, label+"-quality")
	} else {
		r.Cmd = "BROTLI"
		r.Quality = rapid.IntRange(0, 11).Draw(rt, label+"-quality")
	}
	r.FlushSize = rapid.SampledFrom([]int{64, 64, 65, 100, 512, 512, 1000, 4095, 4096}).Draw(rt, label+"-flush")
	switch rapid.IntRange(0, 23).Draw(rt, label+"-omit") {
	case 0:
		r.OmitFlushSize = true
	case 1:
		r.OmitQuality = true
	}
	return r
}

type c54Case struct {
	Rules   []c54Rule
	Path    string
	Method  string
	Proto   string
	AE      string
	HasAE   bool
	AE2     string // second Accept-Encoding field line ("" = none)
	Script  *c54Script
	BodyCls string
}

func TestC54(t *testing.T) {
	rec := ev.New("C54", "per case: compress rule file (1-2 rules, GZIP quality -2..9 / BROTLI quality 0..11, FlushSize 64..4096) loaded through mod_compress's reload handler; backend script: status 200/404/204/304/206, body (empty, 1 B, repetitive, pseudo-random, lengths at flush/buffer edges, >64KB up to 300KB, an already-gzipped stream), framing Content-Length/chunked/close-delimited, generated write boundaries, upstream Content-Encoding none/identity/gzip/br/deflate; request GET/HEAD, HTTP/1.1 or 1.0, Accept-Encoding from a grammar of tokens, q-values (incl. q=0 with optional whitespace), *, identity, near-miss tokens, absent or split over two field lines; observed at a raw TCP client reading to EOF. non-trivial: body longer than the rule's FlushSize or backend response written in more than one piece; distinct by rule+script+request")
	w := c54Start(t)
	var nComp int
	n := 0
	run := func(tb ev.TB, c *c54Case) {
		n++
		c54One(tb, rec, w, c, n, &nComp, "", nil)
	}
	// burst: one response completed first, then the others concurrently under the same rule;
	// exchanges run in goroutines, every response is judged afterwards in this goroutine
	// With aborts > 0 the history is different: that many clients first leave in the middle of a
	// compressed response served through the CancelOnClientClose cluster, then all cases run concurrently.
	burst := func(tb ev.TB, cases []*c54Case, aborts int) {
		ruleJSON, err := w.load(cases[0].Rules)
		if err == errC54Refused {
			rec.Excluded("rule-file-with-omitted-member-refused")
			return
		}
		if err != nil {
			tb.Fatalf("harness: mod_compress refused generated rule file %s: %v", ruleJSON, err)
		}
		rest := cases
		hist := "concurrent"
		if aborts > 0 {
			hist = "concurrent-after-client-abort"
			for a := 0; a < aborts; a++ {
				n++
				if w.abort(n, bytes.Repeat([]byte(fmt.Sprintf("aborted response %d ", n)), 400)) {
					rec.Class("client-left-mid-body")
				} else {
					rec.Class("client-abort-missed-body")
				}
			}
		} else {
			n++
			c54One(tb, rec, w, cases[0], n, &nComp, ruleJSON, nil, "burst-warmup")
			rest = cases[1:]
		}
		ns := make([]int, len(rest))
		res := make([]exch, len(rest))
		tgts := make([]string, len(rest))
		var wg sync.WaitGroup
		for i, c := range rest {
			n++
			ns[i] = n
			tgt, raw := c54Request(c, n)
			tgts[i] = tgt
			w.be.set(tgt, c.Script)
			wg.Add(1)
			go func(i int, raw []byte, method string) {
				defer wg.Done()
				res[i] = exchangeAll(w.rig.HTTPAddr, raw, method, 60*time.Second)
			}(i, raw, c.Method)
		}
		wg.Wait()
		for i, c := range rest {
			w.be.del(tgts[i])
			c54One(tb, rec, w, c, ns[i], &nComp, ruleJSON, &res[i], hist)
		}
	}
	mkBurst := func(rule c54Rule, k int, size func(i int) int, seed byte) []*c54Case {
		var cs []*c54Case
		for i := 0; i < k; i++ {
			n := size(i)
			// every client gets its own recognisable, moderately compressible body
			unit := []byte(fmt.Sprintf("<client %d of burst seed %d> ", i, seed))
			body := append(bytes.Repeat(unit, n/(2*len(unit))+1), c54Expand([]byte{seed, byte(i)}, n/2)...)
			var splits []int
			for p := 300; p < len(body); p += 3000 {
				splits = append(splits, p)
			}
			cs = append(cs, &c54Case{Rules: []c54Rule{rule}, Path: "/other/x", Method: "GET", Proto: "HTTP/1.1", AE: "gzip, br", HasAE: true, BodyCls: "body-burst",
				Script: &c54Script{Status: 200, Body: body, Framing: []string{"cl", "chunked"}[i%2], Splits: splits, Pause: true, UpCT: "text/plain"}})
		}
		return cs
	}
	for round := 0; round < 2; round++ {
		for _, rule := range []c54Rule{{Cond: "default_t()", Cmd: "GZIP", Quality: 5, FlushSize: 512}, {Cond: "default_t()", Cmd: "BROTLI", Quality: 4, FlushSize: 512}, {Cond: "default_t()", Cmd: "GZIP", Quality: -1, FlushSize: 4096}} {
			burst(t, mkBurst(rule, 9, func(i int) int { return 8000 + 7000*i }, byte(round)), round*2)
		}
	}
	// rule files with members left out: either the loader refuses them or they must behave
	for _, cmd := range []string{"GZIP", "BROTLI"} {
		for _, om := range []int{0, 1, 2} {
			r := c54Rule{Cond: "default_t()", Cmd: cmd, Quality: 5, FlushSize: 512, OmitFlushSize: om != 1, OmitQuality: om != 0}
			for _, sz := range []int{0, 10, 5000} {
				run(t, &c54Case{Rules: []c54Rule{r}, Path: "/omit", Method: "GET", Proto: "HTTP/1.1", AE: "gzip, br", HasAE: true, BodyCls: "body-compressible",
					Script: &c54Script{Status: 200, Body: bytes.Repeat([]byte("omitted member "), sz/15+sz%2), Framing: "cl", UpCT: "text/plain"}})
			}
		}
	}
	// deterministic sweep: every Accept-Encoding spelling against both algorithms
	for _, cmd := range []string{"GZIP", "BROTLI"} {
		for _, ae := range c54AEs {
			body := bytes.Repeat([]byte("sweep body 0123456789 "), 200)
			c := &c54Case{Rules: []c54Rule{{Cond: "default_t()", Cmd: cmd, Quality: 5, FlushSize: 512}}, Path: "/sweep", Method: "GET", Proto: "HTTP/1.1", AE: ae, HasAE: true,
				Script: &c54Script{Status: 200, Body: body, Framing: "cl", UpCT: "text/plain"}, BodyCls: "body-compressible"}
			run(t, c)
		}
	}
	rapid.Check(t, func(rt *rapid.T) {
		if rapid.IntRange(0, 7).Draw(rt, "burst") == 0 {
			rule := c54GenAction(rt, "burst")
			rule.Cond = "default_t()"
			k := rapid.IntRange(3, 8).Draw(rt, "burst-clients")
			sizes := rapid.SliceOfN(rapid.IntRange(0, 60000), k, k).Draw(rt, "burst-sizes")
			aborts := rapid.SampledFrom([]int{0, 0, 1, 2}).Draw(rt, "burst-aborts-first")
			burst(rt, mkBurst(rule, k, func(i int) int { return sizes[i] }, byte(rapid.IntRange(0, 255).Draw(rt, "burst-seed"))), aborts)
			return
		}
		c := &c54Case{}
		if rapid.IntRange(0, 3).Draw(rt, "two-rules") == 0 {
			r0 := c54GenAction(rt, "r0")
			r0.Cond = `req_path_prefix_in("/first/", false)`
			r1 := c54GenAction(rt, "r1")
			r1.Cond = "default_t()"
			c.Rules = []c54Rule{r0, r1}
		} else {
			r0 := c54GenAction(rt, "r0")
			r0.Cond = rapid.SampledFrom([]string{"default_t()", "default_t()", `req_path_prefix_in("/first/", false)`}).Draw(rt, "cond")
			c.Rules = []c54Rule{r0}
		}
		c.Path = rapid.SampledFrom([]string{"/first/x", "/other/x"}).Draw(rt, "path")
		c.Method = rapid.SampledFrom([]string{"GET", "GET", "GET", "GET", "GET", "HEAD"}).Draw(rt, "method")
		c.Proto = rapid.SampledFrom([]string{"HTTP/1.1", "HTTP/1.1", "HTTP/1.1", "HTTP/1.0"}).Draw(rt, "proto")
		c.HasAE = rapid.IntRange(0, 9).Draw(rt, "has-ae") != 0
		if c.HasAE {
			if rapid.Bool().Draw(rt, "ae-plain") {
				c.AE = rapid.SampledFrom([]string{"gzip, br", "br, gzip", "gzip, deflate, br", "gzip", "br", "gzip;q=0.5, br;q=0.1"}).Draw(rt, "ae")
			} else {
				c.AE = rapid.SampledFrom(c54AEs).Draw(rt, "ae")
			}
			if rapid.IntRange(0, 9).Draw(rt, "two-ae-lines") == 0 {
				c.AE2 = rapid.SampledFrom([]string{"gzip", "br", "gzip;q=0", "identity"}).Draw(rt, "ae2")
			}
		}
		s := &c54Script{}
		s.Status = rapid.SampledFrom([]int{200, 200, 200, 200, 200, 200, 404, 204, 304, 206}).Draw(rt, "status")
		s.Body, c.BodyCls = c54GenBody(rt)
		s.Framing = rapid.SampledFrom([]string{"cl", "cl", "chunked", "close"}).Draw(rt, "framing")
		s.Splits = rapid.SliceOfN(rapid.IntRange(1, 400000), 0, 8).Draw(rt, "splits")
		// keep write boundaries increasing
		for i := 1; i < len(s.Splits); i++ {
			if s.Splits[i] < s.Splits[i-1] {
				s.Splits[i], s.Splits[i-1] = s.Splits[i-1], s.Splits[i]
			}
		}
		s.Pause = rapid.Bool().Draw(rt, "pause")
		s.UpCE = rapid.SampledFrom([]string{"", "", "", "", "", "", "", "", "", "", "identity", "identity", "gzip", "br", "deflate"}).Draw(rt, "up-ce")
		s.UpCT = rapid.SampledFrom([]string{"text/html", "application/octet-stream", ""}).Draw(rt, "up-ct")
		s.HeadOnly = c.Method == "HEAD"
		c.Script = s
		run(rt, c)
	})
	if nComp == 0 {
		t.Fatalf("harness: no response was compressed at all — the check would be vacuous")
	}
}

func c54Decompress(coding string, b []byte) ([]byte, error) {
	switch coding {
	case "gzip":
		zr, err := gzip.NewReader(bytes.NewReader(b))
		if err != nil {
			return nil, err
		}
		zr.Multistream(false)
		out, err := io.ReadAll(zr)
		if err != nil {
			return out, err
		}
		return out, nil
	case "br":
		return io.ReadAll(brotli.NewReader(bytes.NewReader(b)))
	}
	return nil, fmt.Errorf("unknown coding %q", coding)
}

// c54Request builds the raw request of case c (n makes the target unique).
func c54Request(c *c54Case, n int) (target string, raw []byte) {
	target = fmt.Sprintf("%s?n=%d", c.Path, n)
	var b bytes.Buffer
	fmt.Fprintf(&b, "%s %s %s\r\nHost: c.example.org\r\n", c.Method, target, c.Proto)
	if c.Proto == "HTTP/1.1" {
		b.WriteString("Connection: close\r\n")
	}
	if c.HasAE {
		fmt.Fprintf(&b, "Accept-Encoding: %s\r\n", c.AE)
		if c.AE2 != "" {
			fmt.Fprintf(&b, "Accept-Encoding: %s\r\n", c.AE2)
		}
	}
	b.WriteString("\r\n")
	return target, b.Bytes()
}

// c54One judges one case. With pre == nil it loads the rules, scripts the backend and
// performs the exchange itself; a burst passes the already loaded rule file and the
// exchange it performed concurrently with others.
func c54One(tb ev.TB, rec *ev.Rec, w *c54World, c *c54Case, n int, nComp *int, ruleJSON string, pre *exch, extraCls ...string) {
	s := c.Script
	if ruleJSON == "" {
		var err error
		ruleJSON, err = w.load(c.Rules)
		if err == errC54Refused {
			rec.Excluded("rule-file-with-omitted-member-refused")
			return
		}
		if err != nil {
			tb.Fatalf("harness: mod_compress refused generated rule file %s: %v", ruleJSON, err)
		}
	}
	target, rawReq := c54Request(c, n)

	// which rule applies (first matching, as documented)
	var rule *c54Rule
	for i := range c.Rules {
		if c.Rules[i].Cond == "default_t()" || strings.HasPrefix(c.Path, "/first/") {
			rule = &c.Rules[i]
			break
		}
	}
	pieces := 1
	rawLen := len(s.raw())
	prev := 0
	for _, sp := range s.Splits {
		if p := sp % (rawLen + 1); p > prev && p < rawLen {
			pieces++
			prev = p
		}
	}
	nt := pieces > 1 || (rule != nil && len(s.Body) > rule.FlushSize)
	cls := []string{c.BodyCls, "framing-" + s.Framing, "method-" + c.Method, c.Proto, fmt.Sprintf("status-%d", s.Status)}
	cls = append(cls, extraCls...)
	if c54Omits(c.Rules) {
		cls = append(cls, "rule-file-with-omitted-member-accepted")
	}
	if rule != nil {
		cls = append(cls, "rule-"+rule.Cmd)
	} else {
		cls = append(cls, "no-rule-matches")
	}
	if pieces > 1 {
		cls = append(cls, "multi-write")
	}
	if s.UpCE != "" {
		cls = append(cls, "upstream-ce-"+s.UpCE)
	}
	if !c.HasAE {
		cls = append(cls, "ae-absent")
	}
	// the effective Accept-Encoding value (field lines combine with ",")
	ae := c.AE
	if c.AE2 != "" {
		ae = c.AE + ", " + c.AE2
		cls = append(cls, "ae-two-lines")
	}
	accG, accB := c54Accepts(ae, c.HasAE, "gzip"), c54Accepts(ae, c.HasAE, "br")
	cls = append(cls, fmt.Sprintf("model-gzip-%d", accG), fmt.Sprintf("model-br-%d", accB))
	rec.Case(fmt.Sprintf("%s|%s|%s|%s|%q|%q|%d|%s|%x|%v|%s", ruleJSON[strings.Index(ruleJSON, "Config"):], c.Path, c.Method, c.Proto, c.AE, c.AE2, s.Status, s.Framing, c54Sum(s.Body), s.Splits, s.UpCE), nt, cls...)
	desc := map[string]any{"rules": c.Rules, "path": c.Path, "method": c.Method, "proto": c.Proto, "accept_encoding": c.AE, "accept_encoding_2": c.AE2, "has_ae": c.HasAE,
		"backend": map[string]any{"status": s.Status, "framing": s.Framing, "body_len": len(s.Body), "body_class": c.BodyCls, "body_head_hex": fmt.Sprintf("%x", s.Body[:min(len(s.Body), 24)]), "splits": s.Splits, "pause": s.Pause, "content_encoding": s.UpCE}}
	rec.Sample(desc)

	var e exch
	if pre != nil {
		e = *pre
	} else {
		w.be.set(target, s)
		e = exchangeAll(w.rig.HTTPAddr, rawReq, c.Method, 30*time.Second)
		w.be.del(target)
	}
	wit := map[string]any{"case": desc, "response_head": clip(e.Raw, 300), "concurrent": pre != nil}
	if e.Timeout || (e.Msg == nil && len(e.Raw) == 0) {
		rec.Excluded("no-response-inconclusive")
		return
	}
	if e.Msg == nil {
		// header-only parse to tell a Content-Length that promises more than was sent from other damage
		if hm, herr := ref.ParseResponse(e.Raw, "HEAD", true); herr == nil && hm.HasCL && !hm.Chunked && int64(len(e.Raw)-hm.HeaderLen) < hm.CL {
			key := "content-length-longer-than-body"
			if ceh := strings.ToLower(strings.Join(hm.Get("Content-Encoding"), ",")); (ceh == "gzip" || ceh == "br") && ceh != strings.ToLower(s.UpCE) && hm.CL == int64(len(s.Body)) {
				key = "stale-content-length"
			}
			rec.Fail(tb, key, wit, "Content-Length %d but only %d body bytes arrived before BFE closed (backend body %d bytes, Content-Encoding %q)", hm.CL, len(e.Raw)-hm.HeaderLen, len(s.Body), hm.Get("Content-Encoding"))
			return
		}
		rec.Fail(tb, "malformed-response", wit, "response is not a well-formed HTTP message: %v", e.Err)
		return
	}
	m := e.Msg
	if m.Status != s.Status {
		if m.Status >= 500 {
			// BFE could not talk to the backend (loaded machine): inconclusive
			rec.Excluded(fmt.Sprintf("bfe-status-%d-inconclusive", m.Status))
			return
		}
		rec.Fail(tb, "status-changed", wit, "backend status %d, client got %d", s.Status, m.Status)
		return
	}
	rest := e.Raw[m.ConsumedLen:]
	if len(rest) != 0 {
		key := "bytes-after-message"
		if m.NoBodyByRule {
			key = "body-on-bodyless-response"
			if ceNow := strings.ToLower(strings.Join(hdr(m, "Content-Encoding"), ",")); (m.Status == 204 || m.Status == 304) && ceNow != strings.ToLower(s.UpCE) && (ceNow == "gzip" || ceNow == "br") {
				// discriminating feature: BFE announced a coding on a status that cannot carry a body
				key = "compressed-stream-after-204-304"
			}
		} else if m.HasCL {
			key = "content-length-shorter-than-body"
			if ceNow := strings.ToLower(strings.Join(hdr(m, "Content-Encoding"), ",")); ceNow != strings.ToLower(s.UpCE) && (ceNow == "gzip" || ceNow == "br") && m.CL == int64(len(s.Body)) {
				key = "stale-content-length"
			}
		}
		rec.Fail(tb, key, wit, "%d bytes follow the delimited response (status %d, method %s, Content-Length %v, chunked %v): %s", len(rest), m.Status, c.Method, hdr(m, "Content-Length"), m.Chunked, clip(rest, 40))
		return
	}
	if m.HasCL && m.Chunked {
		rec.Fail(tb, "content-length-with-chunked", wit, "response has both Content-Length and Transfer-Encoding: chunked")
		return
	}
	ces := hdr(m, "Content-Encoding")
	ce := strings.ToLower(strings.TrimSpace(strings.Join(ces, ",")))
	wantBody := s.Body
	if m.NoBodyByRule {
		wantBody = nil
	}
	compressedByBFE := ce != strings.ToLower(s.UpCE) && !(ce == "" && s.UpCE == "")
	if !compressedByBFE {
		rec.Class("passed-through")
		// untouched: body identical, upstream Content-Encoding kept
		if !m.NoBodyByRule && !bytes.Equal(m.Body, wantBody) {
			rec.Fail(tb, "uncompressed-body-changed", wit, "response not marked compressed but body differs: got %d bytes, backend sent %d", len(m.Body), len(wantBody))
			return
		}
		if m.HasCL && !m.NoBodyByRule && m.CL != int64(len(wantBody)) {
			rec.Fail(tb, "uncompressed-content-length", wit, "Content-Length %d, body %d", m.CL, len(wantBody))
		}
		return
	}
	// compressed by BFE
	if ce != "gzip" && ce != "br" {
		rec.Fail(tb, "unexpected-content-encoding", wit, "backend Content-Encoding %q, client got %q", s.UpCE, ce)
		return
	}
	*nComp++
	rec.Class("compressed-" + ce)
	if s.UpCE != "" && s.UpCE != "identity" {
		rec.Fail(tb, "double-encoding", wit, "backend body already has Content-Encoding %q, BFE announced %q", s.UpCE, ce)
		return
	}
	acc := accG
	if ce == "br" {
		acc = accB
	}
	if acc == 0 {
		key := "not-accepted-coding-used"
		// discriminating feature: the coding is listed with q=0 and whitespace before ';'
		if c54HasOWSq0(ae, ce) {
			key = "q0-with-space-before-semicolon-compressed"
		}
		if !rec.Fail(tb, key, wit, "Accept-Encoding %q does not accept %s, yet the response is %s-encoded", ae, ce, ce) {
			// known: go on and check the rest of the property on this case
		} else {
			return
		}
	}
	if acc == -1 {
		rec.Class("compressed-no-judgement-on-ae")
	}
	if m.HasCL {
		// a Content-Length on a compressed response must describe the compressed bytes
		// (exchangeAll read to EOF and ParseResponse cut the body at CL; rest == 0 was checked above)
		rec.Class("compressed-with-content-length")
		if c.Method == "HEAD" || m.NoBodyByRule {
			if m.CL == int64(len(s.Body)) && len(s.Body) > 0 {
				rec.Fail(tb, "stale-content-length", wit, "compressed (%s) %s response keeps the backend's Content-Length %d", ce, c.Method, m.CL)
				return
			}
		}
	}
	if m.NoBodyByRule {
		rec.Class("compressed-bodyless")
		return
	}
	conc := ""
	if rule != nil && rule.OmitFlushSize {
		conc = "-rule-without-flushsize" // discriminating feature: the loader accepted a rule file without FlushSize
	} else if rule != nil && rule.OmitQuality {
		conc = "-rule-without-quality"
	}
	if pre != nil {
		conc = "-under-concurrency" // discriminating feature: other compressed responses were in flight
		for _, x := range extraCls {
			if x == "concurrent-after-client-abort" {
				conc = "-under-concurrency-after-client-abort" // ... and clients had left mid-body before
			}
		}
	}
	got, derr := c54Decompress(ce, m.Body)
	if derr != nil {
		rec.Fail(tb, "decompress-error"+conc, wit, "%s body of %d bytes does not decompress: %v (got %d of %d bytes)", ce, len(m.Body), derr, len(got), len(wantBody))
		return
	}
	if !bytes.Equal(got, wantBody) {
		i := 0
		for i < len(got) && i < len(wantBody) && got[i] == wantBody[i] {
			i++
		}
		rec.Fail(tb, "decompressed-body-differs"+conc, wit, "%s body decompresses to %d bytes, backend sent %d; first difference at offset %d", ce, len(got), len(wantBody), i)
		return
	}
}

// c54HasOWSq0: coding appears as "<coding> OWS ; ... q=0" with at least one space/tab before ';'.
func c54HasOWSq0(ae, coding string) bool {
	for _, el := range strings.Split(ae, ",") {
		el = strings.Trim(el, " \t")
		i := strings.IndexByte(el, ';')
		if i <= 0 {
			continue
		}
		name := el[:i]
		if strings.EqualFold(strings.Trim(name, " \t"), coding) && (strings.HasSuffix(name, " ") || strings.HasSuffix(name, "\t")) {
			return true
		}
	}
	return false
}

func c54Sum(b []byte) uint64 {
	var h uint64 = 14695981039346656037
	for _, c := range b {
		h = (h ^ uint64(c)) * 1099511628211
	}
	return h ^ uint64(len(b))
}

package modsb

import (
	"fmt"
	"os"
	"path/filepath"
	"testing"
	"time"

	"verif/harness/internal/sys"
)

func TestSmokeStatic(t *testing.T) {
	if os.Getenv("VERIF_SMOKE") == "" {
		t.Skip("exploration only")
	}
	b, err := echoBackend()
	if err != nil {
		t.Fatal(err)
	}
	base := filepath.Join(workDir(), "c50")
	root := filepath.Join(base, "root")
	mustWrite(filepath.Join(base, "secret.txt"), []byte("SENTINEL"))
	mustWrite(filepath.Join(base, "a.txt.gz"), []byte("SENTINELGZ"))
	mustWrite(filepath.Join(root, "a.txt"), []byte("file a"))
	mustWrite(filepath.Join(root, "index.html"), []byte("<index>"))
	mustWrite(filepath.Join(root, "b.txt"), []byte("file b"))
	mustWrite(filepath.Join(root, "b.txt.gz"), []byte("file b gz"))
	mustWrite(filepath.Join(root, "sub/c.txt"), []byte("file c"))
	mustWrite(filepath.Join(root, "empty"), []byte(""))
	rule := fmt.Sprintf(`{"Version":"1","Config":{"p":[{"Cond":"req_path_prefix_in(\"/nd/\", false)","Action":{"Cmd":"BROWSE","Params":[%q,""]}},{"Cond":"default_t()","Action":{"Cmd":"BROWSE","Params":[%q,"index.html"]}}]}}`, root, root)
	rig, err := sys.Start(sys.Options{Modules: []string{"mod_static"},
		Files: map[string]string{
			"mod_static/mod_static.conf": "[basic]\nDataPath = mod_static/static_rule.data\nMimeTypePath = mod_static/mime_type.data\nEnableCompress = true\n",
			"mod_static/static_rule.data": rule,
		},
		Data: sys.SimpleConf("v1", []sys.Cluster{sys.OneBackendCluster("c", b.Port)}, nil)})
	if err != nil {
		t.Fatal(err)
	}
	long := ""
	for i := 0; i < 300; i++ {
		long += "x"
	}
	for _, rq := range []string{
		"GET /a.txt HTTP/1.1\r\nHost: example.org\r\n\r\n",
		"HEAD /a.txt HTTP/1.1\r\nHost: example.org\r\n\r\n",
		"POST /a.txt HTTP/1.1\r\nHost: example.org\r\nContent-Length: 3\r\n\r\nabc",
		"GET /../secret.txt HTTP/1.1\r\nHost: example.org\r\n\r\n",
		"GET /nd/../../secret.txt HTTP/1.1\r\nHost: example.org\r\n\r\n",
		"GET /nd/../a.txt HTTP/1.1\r\nHost: example.org\r\n\r\n",
		"GET /nd/../a.txt HTTP/1.1\r\nHost: example.org\r\nAccept-Encoding: gzip\r\n\r\n",
		"GET /nd/..%2fa.txt HTTP/1.1\r\nHost: example.org\r\n\r\n",
		"GET /nd/../../a.txt HTTP/1.1\r\nHost: example.org\r\nAccept-Encoding: gzip\r\n\r\n",
		"GET /nd/../b.txt HTTP/1.1\r\nHost: example.org\r\nAccept-Encoding: gzip\r\n\r\n",
		"GET /nd/missing HTTP/1.1\r\nHost: example.org\r\n\r\n",
		"GET /missing HTTP/1.1\r\nHost: example.org\r\n\r\n",
		"GET /nd/../sub HTTP/1.1\r\nHost: example.org\r\n\r\n",
		"GET /nd/../sub/ HTTP/1.1\r\nHost: example.org\r\n\r\n",
		"GET /sub/ HTTP/1.1\r\nHost: example.org\r\n\r\n",
		"GET /nd/%00 HTTP/1.1\r\nHost: example.org\r\n\r\n",
		"GET /nd/../a.txt%00 HTTP/1.1\r\nHost: example.org\r\n\r\n",
		"GET /nd/" + long + " HTTP/1.1\r\nHost: example.org\r\n\r\n",
		"GET /" + long + " HTTP/1.1\r\nHost: example.org\r\n\r\n",
		"GET /nd/../a.txt/ HTTP/1.1\r\nHost: example.org\r\n\r\n",
		"GET /nd/../a.txt/x HTTP/1.1\r\nHost: example.org\r\n\r\n",
		"GET /nd/../empty HTTP/1.1\r\nHost: example.org\r\n\r\n",
		"GET /nd/..\\a.txt HTTP/1.1\r\nHost: example.org\r\n\r\n",
		"GET /nd/%2e%2e/a.txt HTTP/1.1\r\nHost: example.org\r\n\r\n",
		"GET /nd/%zz HTTP/1.1\r\nHost: example.org\r\n\r\n",
		"GET nd/a.txt HTTP/1.1\r\nHost: example.org\r\n\r\n",
		"GET http://example.org/nd/../a.txt HTTP/1.1\r\nHost: example.org\r\n\r\n",
		"GET /nd/../a.txt?x=/../../secret.txt HTTP/1.1\r\nHost: example.org\r\n\r\n",
		"get /a.txt HTTP/1.1\r\nHost: example.org\r\n\r\n",
		"OPTIONS * HTTP/1.1\r\nHost: example.org\r\n\r\n",
	} {
		e := exchange(rig.HTTPAddr, []byte(rq), rq[:4], 5*time.Second)
		t.Logf("REQ %s\n   -> closed=%v err=%v raw=%q", clip([]byte(rq), 120), e.Closed, e.Err, e.Raw)
	}
}

package modsb

import (
	"bytes"
	"encoding/json"
	"fmt"
	"net"
	"strings"

	"pgregory.net/rapid"

	"verif/harness/internal/ev"
)

// ---- mod_block: global IP list at accept, CLOSE/ALLOW rules per request ---------

type c51Range struct{ A, B string }

func (r c51Range) has(ip net.IP) bool {
	a, b := net.ParseIP(r.A).To16(), net.ParseIP(r.B).To16()
	x := ip.To16()
	if (net.ParseIP(r.A).To4() == nil) != (ip.To4() == nil) {
		return false
	}
	return bytes.Compare(a, x) <= 0 && bytes.Compare(x, b) <= 0
}

type c51BlockRule struct {
	Name   string
	Range  c51Range
	PathP  string // "" or a path prefix the rule is restricted to
	Cmd    string // CLOSE | ALLOW
	Global bool
}

func (r c51BlockRule) cond() string {
	c := fmt.Sprintf("req_cip_range(%q, %q)", r.Range.A, r.Range.B)
	if r.PathP != "" {
		c += fmt.Sprintf(" && req_path_prefix_in(%q, false)", r.PathP)
	}
	return c
}

func c51IPAdd(ip net.IP, d int) net.IP {
	b := append(net.IP{}, ip.To16()...)
	if v4 := ip.To4(); v4 != nil {
		b = append(net.IP{}, v4...)
	}
	carry := d
	for i := len(b) - 1; i >= 0 && carry != 0; i-- {
		v := int(b[i]) + carry
		carry = 0
		for v < 0 {
			v += 256
			carry--
		}
		for v > 255 {
			v -= 256
			carry++
		}
		b[i] = byte(v)
	}
	return b
}

var c51V4Bases = []string{"10.1.2.0", "10.1.2.100", "10.1.3.255", "10.2.0.0", "172.16.5.5", "198.51.100.7"}
var c51V6Bases = []string{"fd00::10", "fd00::1:0", "fd00:1::", "2001:db8::ff00"}

func c51GenRange(rt *rapid.T, label string) c51Range {
	var base net.IP
	if rapid.IntRange(0, 3).Draw(rt, label+"-v6") == 0 {
		base = net.ParseIP(rapid.SampledFrom(c51V6Bases).Draw(rt, label+"-base6"))
	} else {
		base = net.ParseIP(rapid.SampledFrom(c51V4Bases).Draw(rt, label+"-base4"))
	}
	a := c51IPAdd(base, rapid.IntRange(0, 300).Draw(rt, label+"-off"))
	b := c51IPAdd(a, rapid.SampledFrom([]int{0, 0, 1, 2, 10, 255, 256, 1000, 70000}).Draw(rt, label+"-len"))
	return c51Range{a.String(), b.String()}
}

func c51LoadBlock(w *c51World, global []c51Range, rules []c51BlockRule) (string, string, error) {
	w.n++
	var ipTxt strings.Builder
	for i, g := range global {
		switch {
		case g.A == g.B && i%2 == 0:
			ipTxt.WriteString(g.A + "\n")
		default:
			ipTxt.WriteString(g.A + " " + g.B + "\n")
		}
	}
	if len(global) == 0 {
		ipTxt.WriteString("192.0.2.1\n")
	}
	p1, err := w.writeGen(fmt.Sprintf("ip_blocklist_%d.data", w.n%4), []byte(ipTxt.String()))
	if err != nil {
		return "", "", err
	}
	conf := map[string][]map[string]any{}
	for _, r := range rules {
		prod := "pblock"
		if r.Global {
			prod = "global"
		}
		conf[prod] = append(conf[prod], map[string]any{"cond": r.cond(), "name": r.Name, "action": map[string]any{"cmd": r.Cmd, "params": []string{}}})
	}
	bs, _ := json.Marshal(map[string]any{"Version": fmt.Sprint(w.n), "Config": conf})
	p2, err := w.writeGen(fmt.Sprintf("block_rules_%d.data", w.n%4), bs)
	if err != nil {
		return ipTxt.String(), string(bs), err
	}
	if err := w.rig.ReloadModule("mod_block.global_ip_table", p1); err != nil {
		return ipTxt.String(), string(bs), fmt.Errorf("global_ip_table: %v", err)
	}
	if err := w.rig.ReloadModule("mod_block.product_rule_table", p2); err != nil {
		return ipTxt.String(), string(bs), fmt.Errorf("product_rule_table: %v", err)
	}
	return ipTxt.String(), string(bs), nil
}

func c51Block(rt *rapid.T, rec *ev.Rec, w *c51World) {
	var global []c51Range
	for i, n := 0, rapid.IntRange(0, 3).Draw(rt, "nglobal"); i < n; i++ {
		global = append(global, c51GenRange(rt, fmt.Sprintf("g%d", i)))
	}
	var rules []c51BlockRule
	for i, n := 0, rapid.IntRange(0, 4).Draw(rt, "nrules"); i < n; i++ {
		r := c51BlockRule{Name: fmt.Sprintf("rule%d", i), Range: c51GenRange(rt, fmt.Sprintf("r%d", i))}
		if i > 0 && rapid.Bool().Draw(rt, "nested") {
			// a rule carved out of / overlapping the previous range (white-list before a wider block, or the reverse)
			p := rules[i-1].Range
			a := c51IPAdd(net.ParseIP(p.A), rapid.IntRange(0, 2).Draw(rt, "nest-off"))
			r.Range = c51Range{a.String(), c51IPAdd(a, rapid.IntRange(0, 3).Draw(rt, "nest-len")).String()}
			if !c51RangeOK(r.Range) {
				r.Range = p
			}
		}
		r.Cmd = rapid.SampledFrom([]string{"CLOSE", "CLOSE", "ALLOW"}).Draw(rt, "cmd")
		r.Global = rapid.IntRange(0, 3).Draw(rt, "global-rule") == 0
		if rapid.IntRange(0, 3).Draw(rt, "path-restricted") == 0 {
			r.PathP = "/p/"
		}
		rules = append(rules, r)
	}
	ipTxt, ruleJSON, err := c51LoadBlock(w, global, rules)
	if err != nil {
		rt.Fatalf("harness: mod_block refused generated config %q / %s: %v", ipTxt, ruleJSON, err)
	}
	nreq := rapid.IntRange(1, 6).Draw(rt, "nreq")
	for q := 0; q < nreq; q++ {
		// peer address: an edge of some configured range, one step outside it, or unrelated
		var all []c51Range
		all = append(all, global...)
		for _, r := range rules {
			all = append(all, r.Range)
		}
		var peer net.IP
		edge := "unrelated"
		if len(all) > 0 && rapid.IntRange(0, 5).Draw(rt, "peer-kind") != 0 {
			rg := all[rapid.IntRange(0, len(all)-1).Draw(rt, "peer-range")]
			switch rapid.IntRange(0, 4).Draw(rt, "peer-edge") {
			case 0:
				peer, edge = net.ParseIP(rg.A), "start"
			case 1:
				peer, edge = net.ParseIP(rg.B), "end"
			case 2:
				peer, edge = c51IPAdd(net.ParseIP(rg.A), -1), "start-1"
			case 3:
				peer, edge = c51IPAdd(net.ParseIP(rg.B), 1), "end+1"
			default:
				peer, edge = c51IPAdd(net.ParseIP(rg.A), 1), "start+1"
			}
		} else {
			peer = net.ParseIP(rapid.SampledFrom([]string{"203.0.113.9", "10.1.2.50", "fd00::99", "10.9.9.9"}).Draw(rt, "peer-unrelated"))
		}
		port := rapid.IntRange(1024, 65535).Draw(rt, "peer-port")
		path := rapid.SampledFrom([]string{"/p/x", "/q/x"}).Draw(rt, "path")
		var hdrs []string
		spoof := rapid.IntRange(0, 3).Draw(rt, "spoof")
		if spoof == 1 {
			hdrs = append(hdrs, "X-Forwarded-For: 203.0.113.9", "X-Real-Ip: 203.0.113.9")
		} else if spoof == 2 && len(all) > 0 {
			hdrs = append(hdrs, "X-Forwarded-For: "+all[0].A, "X-Real-Ip: "+all[0].A, "Clientip: "+all[0].A)
		}
		// model
		want := "forwarded"
		why := "no rule matches"
		blockedAtAccept := false
		for _, g := range global {
			if g.has(peer) {
				want, why, blockedAtAccept = "closed", "peer in global IP list "+g.A+"-"+g.B, true
				break
			}
		}
		if !blockedAtAccept {
			decided := false
			for pass := 0; pass < 2 && !decided; pass++ {
				for _, r := range rules {
					if r.Global != (pass == 0) {
						continue
					}
					if r.Range.has(peer) && (r.PathP == "" || strings.HasPrefix(path, r.PathP)) {
						decided = true
						why = fmt.Sprintf("first matching rule %s %s", r.Name, r.Cmd)
						if r.Cmd == "CLOSE" {
							want = "closed"
						}
						break
					}
				}
			}
		}
		w.n++
		target := fmt.Sprintf("%s?n=%d", path, w.n)
		cls := []string{"block", "block-peer-" + edge, "block-want-" + want}
		if blockedAtAccept {
			cls = append(cls, "block-at-accept")
		} else if want == "closed" {
			cls = append(cls, "block-at-request")
		}
		if peer.To4() == nil {
			cls = append(cls, "block-peer-v6")
		}
		if spoof != 0 {
			cls = append(cls, "block-spoof-headers")
		}
		rec.Case(fmt.Sprintf("block|%q|%s|%s|%s|%v", ipTxt, ruleJSON[strings.Index(ruleJSON, "Config"):], peer, path, hdrs), edge != "unrelated", cls...)
		desc := map[string]any{"scheme": "block", "global_ip_list": ipTxt, "rules": ruleJSON, "peer": fmt.Sprintf("%s:%d", peer, port), "peer_position": edge, "path": path, "headers": hdrs, "model": want, "model_reason": why}
		rec.Sample(desc)
		w.ln.SetNext(&net.TCPAddr{IP: peer, Port: port})
		o := w.c51Send(w.ln.Addr().String(), target, func(string) []byte { return c51Req("GET", target, "block.example.org", hdrs) })
		wit := map[string]any{"case": desc, "observed": o.String(), "response_head": clip(o.Raw, 300)}
		if o.Kind == "inconclusive" {
			rec.Excluded("no-response-inconclusive")
			continue
		}
		if want == "forwarded" {
			if o.Kind != "forwarded" {
				rec.Fail(rt, "block-unblocked-refused", wit, "peer %s is not blocked (%s) but the request was not forwarded: %s", peer, why, o)
			}
			continue
		}
		if o.Kind == "forwarded" {
			key := "block-request-level-forwarded"
			if blockedAtAccept {
				key = "block-accept-level-forwarded"
			}
			rec.Fail(rt, key, wit, "peer %s is blocked (%s) but the request reached the backend", peer, why)
			continue
		}
		if o.Kind != "closed" {
			rec.Fail(rt, "block-rejection-not-close", wit, "peer %s is blocked (%s); documented action is closing the connection, observed %s", peer, why, o)
		}
	}
}

func c51RangeOK(r c51Range) bool {
	a, b := net.ParseIP(r.A), net.ParseIP(r.B)
	return a != nil && b != nil && (a.To4() == nil) == (b.To4() == nil) && bytes.Compare(a.To16(), b.To16()) <= 0
}

package cond

// Concurrent Build mode (C16, C17): rule tables of different modules are
// (re)loaded from different goroutines, so condition.Build runs concurrently
// for different strings; every result must be the result of its own string.
// The inputs are fixed (deterministic); only the schedule is the runtime's.

import (
	"runtime/debug"
	"sync"

	"github.com/bfenetworks/bfe/bfe_basic/condition"
)

type concResult struct {
	cond     condition.Condition
	err      error
	panicked any
	site     string
}

// concurrentBuild starts one goroutine per input; each builds its own string
// reps times (all start together). out[g][r] is the r-th result of goroutine g.
func concurrentBuild(inputs []string, reps int) [][]concResult {
	out := make([][]concResult, len(inputs))
	var start, done sync.WaitGroup
	start.Add(1)
	for g := range inputs {
		out[g] = make([]concResult, reps)
		done.Add(1)
		go func(g int) {
			defer done.Done()
			start.Wait()
			for r := 0; r < reps; r++ {
				func() {
					res := &out[g][r]
					defer func() {
						if p := recover(); p != nil {
							res.panicked = p
							res.site = panicSite(string(debug.Stack()))
						}
					}()
					res.cond, res.err = condition.Build(inputs[g])
				}()
			}
		}(g)
	}
	start.Done()
	done.Wait()
	return out
}

package cond

import (
	"fmt"
	"testing"

	"github.com/bfenetworks/bfe/bfe_basic/condition"
	"verif/harness/internal/ev"
)

func TestProbe(t *testing.T) {
	for _, s := range []string{
		`"`, "`", `req_host_in("`, `bfe_periodic_time_range("1 Z", "2 Z", "")`, `default_t() || default_t() && !default_t()`,
		`!default_t() && default_t() || default_t()`, "", "a", "$a", `default_t(`, `req_path_in("a", TRUE)`,
	} {
		var c condition.Condition
		var err error
		p := ev.Try(func() { c, err = condition.Build(s) })
		fmt.Printf("%q -> cond=%v err=%v panic=%v\n", s, c != nil, err, p)
		if c != nil {
			fmt.Println("  match(nil) =", c.Match(nil))
		}
	}
}

package cond

// Request specification and the builder that turns it into a bfe_basic.Request
// the way bfe's own callers do:
//   - the HTTP request is written as HTTP/1.x wire bytes and parsed with
//     bfe_http.ReadRequest (http_conn.go:readRequest),
//   - the session comes from bfe_basic.NewSession(conn) with a conn whose
//     RemoteAddr is a *net.TCPAddr; Vip/Vport via bfe_util.GetVipPort(conn)
//     (http_conn.go:newConn); IsSecure/TlsState/Proto as conn.serve() sets them,
//   - trust flag via Session.SetTrustSource (mod_trust_clientip),
//   - ClientAddr via bfe_server.setClientAddr (reverseproxy.go),
//   - Route.HostTag as the host table lookup stores it, tags via Request.AddTags
//     (mod_tag), context via Request.SetContext, the response parsed with
//     bfe_http.ReadResponse (what the proxy gets from a backend).
// Nothing is put into Query / CookieMap caches: the primitives fill them lazily,
// so an attribute that is not on the wire is really missing.

import (
	"bytes"
	"fmt"
	"net"
	"strings"
	"time"

	"github.com/bfenetworks/bfe/bfe_basic"
	"github.com/bfenetworks/bfe/bfe_bufio"
	"github.com/bfenetworks/bfe/bfe_http"
	"github.com/bfenetworks/bfe/bfe_server"
	"github.com/bfenetworks/bfe/bfe_tls"
	"github.com/bfenetworks/bfe/bfe_util"
)

type kv struct {
	K string `json:"k"`
	V string `json:"v"`
	// NoEq: query parameter written as "k" without "=" (query only)
	NoEq bool `json:"noeq,omitempty"`
}

type respSpec struct {
	Code    int  `json:"code"`
	Headers []kv `json:"headers,omitempty"`
}

type reqSpec struct {
	Method  string `json:"method"`
	Path    string `json:"path"`            // URL path, starts with "/"
	HasQ    bool   `json:"has_q,omitempty"` // a "?" is written
	Query   []kv   `json:"query,omitempty"`
	Version string `json:"version"`        // "HTTP/1.1" or "HTTP/1.0"
	Host    string `json:"host,omitempty"` // Host header value ("" + NoHost => header absent)
	NoHost  bool   `json:"no_host,omitempty"`
	Headers []kv   `json:"headers,omitempty"` // extra request headers in wire order
	Cookies []kv   `json:"cookies,omitempty"` // written as one Cookie header

	Remote    string `json:"remote"`               // socket peer address (IP literal)
	Remote4in bool   `json:"remote_4in6,omitempty"` // IPv4 peer kept in 16-byte form (dual-stack listener)
	Vip       string `json:"vip,omitempty"`         // "" => no VIP known (no L4 balancer)
	Trusted   bool   `json:"trusted,omitempty"`     // peer is a trusted upstream proxy

	Secure      bool   `json:"secure,omitempty"`
	SesProto    string `json:"ses_proto,omitempty"` // session.Proto ("http","https","h2","spdy/3.1",...)
	SNI         string `json:"sni,omitempty"`
	ClientAuth  bool   `json:"client_auth,omitempty"`
	ClientCA    string `json:"client_ca,omitempty"`
	NoTlsState  bool   `json:"no_tls_state,omitempty"`
	HostTag     string `json:"host_tag,omitempty"`
	Tags        []kv   `json:"tags,omitempty"`    // AddTags(K, {V}) in order
	Context     []kv   `json:"context,omitempty"` // SetContext(K, V)
	Resp        *respSpec `json:"resp,omitempty"`
}

// fakeConn is a connection as bfe sees one behind an L4 balancer: it exposes the
// peer address and (optionally) the virtual address.
type fakeConn struct {
	remote *net.TCPAddr
	vaddr  *net.TCPAddr
}

func (c *fakeConn) Read(b []byte) (int, error)         { return 0, fmt.Errorf("closed") }
func (c *fakeConn) Write(b []byte) (int, error)        { return len(b), nil }
func (c *fakeConn) Close() error                       { return nil }
func (c *fakeConn) LocalAddr() net.Addr                { return &net.TCPAddr{IP: net.IPv4(127, 0, 0, 1), Port: 8080} }
func (c *fakeConn) RemoteAddr() net.Addr               { return c.remote }
func (c *fakeConn) SetDeadline(t time.Time) error      { return nil }
func (c *fakeConn) SetReadDeadline(t time.Time) error  { return nil }
func (c *fakeConn) SetWriteDeadline(t time.Time) error { return nil }
func (c *fakeConn) VirtualAddr() net.Addr {
	if c.vaddr == nil {
		return nil // typed nil avoided: see below
	}
	return c.vaddr
}
func (c *fakeConn) BalancerAddr() net.Addr { return nil }

func (s *reqSpec) requestURI() string {
	var b strings.Builder
	b.WriteString(s.Path)
	if s.HasQ || len(s.Query) > 0 {
		b.WriteByte('?')
		for i, q := range s.Query {
			if i > 0 {
				b.WriteByte('&')
			}
			b.WriteString(q.K)
			if !q.NoEq {
				b.WriteByte('=')
				b.WriteString(q.V)
			}
		}
	}
	return b.String()
}

func (s *reqSpec) wire() []byte {
	var b bytes.Buffer
	fmt.Fprintf(&b, "%s %s %s\r\n", s.Method, s.requestURI(), s.Version)
	if !s.NoHost {
		fmt.Fprintf(&b, "Host: %s\r\n", s.Host)
	}
	for _, h := range s.Headers {
		fmt.Fprintf(&b, "%s: %s\r\n", h.K, h.V)
	}
	if len(s.Cookies) > 0 {
		parts := make([]string, len(s.Cookies))
		for i, c := range s.Cookies {
			parts[i] = c.K + "=" + c.V
		}
		fmt.Fprintf(&b, "Cookie: %s\r\n", strings.Join(parts, "; "))
	}
	b.WriteString("\r\n")
	return b.Bytes()
}

// buildRequest returns the bfe request for spec, or an error if bfe's own
// HTTP parser rejects the wire form (then the case is outside the domain).
func buildRequest(s *reqSpec) (*bfe_basic.Request, error) {
	hreq, err := bfe_http.ReadRequest(bfe_bufio.NewReader(bytes.NewReader(s.wire())), 8192)
	if err != nil {
		return nil, fmt.Errorf("ReadRequest: %v", err)
	}
	rip := net.ParseIP(s.Remote)
	if rip == nil {
		return nil, fmt.Errorf("bad remote %q", s.Remote)
	}
	if v4 := rip.To4(); v4 != nil && !s.Remote4in {
		rip = v4 // what accept() yields on an AF_INET socket
	}
	conn := &fakeConn{remote: &net.TCPAddr{IP: rip, Port: 40000}}
	if s.Vip != "" {
		vip := net.ParseIP(s.Vip)
		if vip == nil {
			return nil, fmt.Errorf("bad vip %q", s.Vip)
		}
		conn.vaddr = &net.TCPAddr{IP: vip, Port: 80}
	}
	hreq.RemoteAddr = conn.remote.String()

	ses := bfe_basic.NewSession(conn)
	if vip, vport, err := bfe_util.GetVipPort(conn); err == nil {
		ses.Vip = vip
		ses.Vport = vport
	}
	ses.SetTrustSource(s.Trusted)
	if s.Secure {
		ses.IsSecure = true
		if !s.NoTlsState {
			ses.TlsState = &bfe_tls.ConnectionState{
				HandshakeComplete: true,
				ServerName:        s.SNI,
				ClientAuth:        s.ClientAuth,
				ClientCAName:      s.ClientCA,
			}
		}
	}
	ses.Proto = s.SesProto

	req := bfe_basic.NewRequest(hreq, conn, bfe_basic.NewRequestStat(time.Unix(1500000000, 0)), ses, nil)
	bfe_server.VerifCondSetClientAddr(req)
	req.Route.HostTag = s.HostTag
	for _, t := range s.Tags {
		req.AddTags(t.K, []string{t.V})
	}
	for _, c := range s.Context {
		req.SetContext(c.K, c.V)
	}
	if s.Resp != nil {
		var b bytes.Buffer
		fmt.Fprintf(&b, "HTTP/1.1 %d %s\r\n", s.Resp.Code, "Status")
		for _, h := range s.Resp.Headers {
			fmt.Fprintf(&b, "%s: %s\r\n", h.K, h.V)
		}
		b.WriteString("Content-Length: 0\r\n\r\n")
		res, err := bfe_http.ReadResponse(bfe_bufio.NewReader(&b), hreq)
		if err != nil {
			return nil, fmt.Errorf("ReadResponse: %v", err)
		}
		req.HttpResponse = res
	}
	return req, nil
}

// baseSpec is a plain HTTP/1.1 request from 10.1.2.3 with nothing optional.
func baseSpec() *reqSpec {
	return &reqSpec{Method: "GET", Path: "/", Version: "HTTP/1.1", Host: "example.org",
		Remote: "10.1.2.3", SesProto: "http"}
}

package cond

import (
	"encoding/json"
	"fmt"
	"os"
	"path/filepath"
	"runtime"
	"runtime/debug"
	"strings"
	"testing"
	"time"
	"unicode/utf8"

	"github.com/bfenetworks/bfe/bfe_basic"
	"github.com/bfenetworks/bfe/bfe_basic/condition"
	"pgregory.net/rapid"

	"verif/harness/internal/ev"
)

// C17: condition.Build is total and type-checked: for every input string it
// returns a usable condition xor an error, never panics or hangs; unknown
// primitives, wrong argument counts/types, unresolved variables and invalid
// primitive arguments (IPs, regexps, hash ranges, times) are rejected.

// ---------------------------------------------------------------------------
// running Build under a watchdog, with the panic site

type c17result struct {
	cond     condition.Condition
	err      error
	panicked any
	site     string // innermost bfe function on the panicking stack
	hung     bool
	stacks   string
}

func panicSite(stack string) string {
	// first frame below runtime.* that belongs to bfe
	lines := strings.Split(stack, "\n")
	for _, l := range lines {
		if strings.HasPrefix(l, "github.com/bfenetworks/bfe/") {
			f := strings.TrimPrefix(l, "github.com/bfenetworks/bfe/")
			if i := strings.LastIndexByte(f, '('); i > 0 {
				f = f[:i]
			}
			// bfe_util.ParseTimeOfDay, bfe_basic/condition/parser.(*Scanner).scanString ...
			if i := strings.LastIndexByte(f, '.'); i >= 0 {
				return f[i+1:]
			}
			return f
		}
	}
	return "unknown"
}

func c17Build(s string) *c17result {
	done := make(chan *c17result, 1)
	go func() {
		r := &c17result{}
		defer func() {
			if p := recover(); p != nil {
				r.panicked = p
				r.site = panicSite(string(debug.Stack()))
			}
			done <- r
		}()
		r.cond, r.err = condition.Build(s)
	}()
	timer := time.NewTimer(60 * time.Second)
	defer timer.Stop()
	select {
	case r := <-done:
		return r
	case <-timer.C:
		buf := make([]byte, 1<<20)
		n := runtime.Stack(buf, true)
		return &c17result{hung: true, stacks: string(buf[:n])}
	}
}

// ---------------------------------------------------------------------------
// reference recogniser of the documented grammar (used for: "accepted by bfe
// => well-formed, known primitive, documented arity and parameter types, valid
// IP/hash/time arguments"). Only applied to printable-ASCII inputs.

type rtok struct {
	kind string // ident, str, bool, num, punct
	text string
}

func refTokenize(s string) ([]rtok, string) {
	var out []rtok
	i := 0
	for i < len(s) {
		c := s[i]
		switch {
		case c == ' ' || c == '\t' || c == '\r' || c == '\n':
			i++
		case c == '/' && i+1 < len(s) && s[i+1] == '/':
			for i < len(s) && s[i] != '\n' {
				i++
			}
		case c == '"':
			j := i + 1
			for {
				if j >= len(s) || s[j] == '\n' {
					return nil, "unterminated-string"
				}
				if s[j] == '\\' {
					j += 2
					continue
				}
				if s[j] == '"' {
					break
				}
				j++
			}
			out = append(out, rtok{"str", s[i+1 : j]})
			i = j + 1
		case c == '`':
			j := strings.IndexByte(s[i+1:], '`')
			if j < 0 {
				return nil, "unterminated-string"
			}
			out = append(out, rtok{"str", strings.ReplaceAll(s[i+1:i+1+j], "\r", "")})
			i = i + 1 + j + 1
		case c == '(' || c == ')' || c == ',' || c == '!':
			out = append(out, rtok{"punct", string(c)})
			i++
		case (c == '&' || c == '|') && i+1 < len(s) && s[i+1] == c:
			out = append(out, rtok{"punct", s[i : i+2]})
			i += 2
		case c >= '0' && c <= '9':
			j := i
			for j < len(s) && (s[j] >= '0' && s[j] <= '9' || s[j] >= 'a' && s[j] <= 'z' || s[j] >= 'A' && s[j] <= 'Z' || s[j] == '.' || s[j] == '_') {
				j++
			}
			out = append(out, rtok{"num", s[i:j]})
			i = j
		case c == '_' || c == '-' || c >= 'a' && c <= 'z' || c >= 'A' && c <= 'Z':
			j := i
			for j < len(s) && (s[j] == '_' || s[j] == '-' || s[j] >= '0' && s[j] <= '9' || s[j] >= 'a' && s[j] <= 'z' || s[j] >= 'A' && s[j] <= 'Z') {
				j++
			}
			w := s[i:j]
			if w == "true" || w == "false" {
				out = append(out, rtok{"bool", w})
			} else {
				out = append(out, rtok{"ident", w})
			}
			i = j
		default:
			return nil, "illegal-character"
		}
	}
	return out, ""
}

type refParser struct {
	toks   []rtok
	pos    int
	reason string
}

func (p *refParser) fail(r string) bool {
	if p.reason == "" {
		p.reason = r
	}
	return false
}

func (p *refParser) peek() rtok {
	if p.pos < len(p.toks) {
		return p.toks[p.pos]
	}
	return rtok{"eof", ""}
}

func (p *refParser) isPunct(t string) bool {
	k := p.peek()
	return k.kind == "punct" && k.text == t
}

// expr := unary (('&&'|'||') unary)*   (precedence does not matter for recognition)
func (p *refParser) expr() bool {
	if !p.unary() {
		return false
	}
	for p.isPunct("&&") || p.isPunct("||") {
		p.pos++
		if !p.unary() {
			return false
		}
	}
	return true
}

func (p *refParser) unary() bool {
	switch {
	case p.isPunct("!"):
		p.pos++
		return p.unary()
	case p.isPunct("("):
		p.pos++
		if !p.expr() {
			return false
		}
		if !p.isPunct(")") {
			return p.fail("syntax")
		}
		p.pos++
		return true
	case p.peek().kind == "ident":
		name := p.peek().text
		p.pos++
		if !p.isPunct("(") {
			return p.fail("unresolved-variable")
		}
		p.pos++
		var args []rtok
		if p.isPunct(")") {
			p.pos++
		} else {
			for {
				a := p.peek()
				if a.kind != "str" && a.kind != "bool" && a.kind != "num" {
					return p.fail("syntax")
				}
				args = append(args, a)
				p.pos++
				if p.isPunct(",") {
					p.pos++
					continue
				}
				if p.isPunct(")") {
					p.pos++
					break
				}
				return p.fail("syntax")
			}
		}
		return p.call(name, args)
	}
	return p.fail("syntax")
}

func (p *refParser) call(name string, args []rtok) bool {
	d := catalogueByName[name]
	if d == nil {
		return p.fail("unknown-primitive")
	}
	if len(args) != len(d.sig) {
		return p.fail("wrong-arity")
	}
	vals := make([]string, len(args))
	for i, a := range args {
		want := "str"
		if d.sig[i] == 'B' {
			want = "bool"
		}
		if a.kind != want {
			return p.fail("wrong-type")
		}
		vals[i] = a.text
	}
	if r := lenientArgCheck(d, vals); r != "" {
		return p.fail(r)
	}
	return true
}

// lenientArgCheck: "" when the arguments can be read as valid values of the
// documented kind (harmless leniencies such as blanks inside a hash section are
// tolerated); otherwise the reason.
func lenientArgCheck(d *primDoc, a []string) string {
	switch d.test {
	case "ipin":
		for _, ip := range splitList(a[0]) {
			if _, ok := parseAddr(ip); !ok {
				return "invalid-ip"
			}
		}
	case "iprange":
		lo, ok1 := parseAddr(a[0])
		hi, ok2 := parseAddr(a[1])
		if !ok1 || !ok2 {
			return "invalid-ip"
		}
		if lo.Is4() != hi.Is4() {
			return "ip-range-mixed-family"
		}
		if hi.Compare(lo) < 0 {
			return "ip-range-inverted"
		}
	case "hash":
		l := a[len(a)-1]
		if d.sig == "SSB" {
			l = a[1]
		}
		for _, sec := range splitList(l) {
			parts := strings.Split(sec, "-")
			if len(parts) > 2 {
				return "invalid-hash-section"
			}
			var n [2]int
			for i, p := range parts {
				p = strings.ReplaceAll(p, " ", "")
				p = strings.TrimPrefix(p, "+")
				if p == "" {
					return "invalid-hash-section"
				}
				if z := strings.TrimLeft(p, "0"); z == "" {
					p = "0"
				} else {
					p = z
				}
				if len(p) > 18 {
					return "hash-bucket-out-of-range"
				}
				for _, c := range p {
					if c < '0' || c > '9' {
						return "invalid-hash-section"
					}
					n[i] = n[i]*10 + int(c-'0')
				}
				if n[i] > 9999 {
					return "hash-bucket-out-of-range"
				}
			}
			if len(parts) == 2 && n[1] < n[0] {
				return "hash-section-inverted"
			}
		}
	case "time":
		lo, ok1 := parseAbsTimeLenient(a[0])
		hi, ok2 := parseAbsTimeLenient(a[1])
		if !ok1 || !ok2 {
			return timeReason(a[0], a[1])
		}
		if hi < lo {
			return "time-window-inverted"
		}
	case "ptime":
		lo, _, ok1 := parseDayTimeLenient(a[0])
		hi, _, ok2 := parseDayTimeLenient(a[1])
		if !ok1 || !ok2 {
			return timeReason(a[0], a[1])
		}
		if hi < lo {
			return "time-window-inverted"
		}
	}
	return ""
}

// the zone letter may be written in lower case (tolerated)
func upperLast(s string) string {
	if n := len(s); n > 0 && s[n-1] >= 'a' && s[n-1] <= 'z' {
		return s[:n-1] + string(s[n-1]-32)
	}
	return s
}
func parseAbsTimeLenient(s string) (int64, bool)    { return parseAbsTime(upperLast(s)) }
func parseDayTimeLenient(s string) (int, int, bool) { return parseDayTime(upperLast(s)) }

func timeReason(a, b string) string {
	if strings.ContainsAny(a+b, " \t\r\n") {
		return "time-with-whitespace"
	}
	return "invalid-time"
}

func printableASCII(s string) bool {
	for i := 0; i < len(s); i++ {
		c := s[i]
		if c >= 0x7f || (c < 0x20 && c != '\t' && c != '\n' && c != '\r') {
			return false
		}
	}
	return true
}

// refRecognise returns "" when s is a well-formed, well-typed condition with
// valid IP/hash/time arguments, else the first reason found.
func refRecognise(s string) string {
	toks, r := refTokenize(s)
	if r != "" {
		return r
	}
	p := &refParser{toks: toks}
	if !p.expr() {
		if p.reason == "" {
			return "syntax"
		}
		return p.reason
	}
	if p.pos != len(toks) {
		return "syntax"
	}
	return ""
}

// ---------------------------------------------------------------------------

type c17case struct {
	Input   string `json:"input"`
	Class   string `json:"class"`
	MustRej string `json:"must_reject,omitempty"` // non-empty: Build has to return an error (reason)
}

var c17Requests []*bfe_basic.Request

func c17Reqs(tb ev.TB) []*bfe_basic.Request {
	if c17Requests != nil {
		return c17Requests
	}
	s1 := baseSpec() // minimal plain request, no VIP
	s1.Version, s1.NoHost, s1.Host = "HTTP/1.0", true, ""
	s2 := c16Spec()
	s2.Secure, s2.SesProto, s2.SNI, s2.ClientAuth, s2.ClientCA = true, "h2", "example.org", true, "ca1"
	s2.Headers = []kv{{K: "User-Agent", V: "curl/7"}, {K: "X-Bfe-Debug-Time", V: "20190204203000H"}, {K: "Referer", V: "http://a/"}}
	s2.Cookies = []kv{{K: "uid", V: "1"}}
	s2.Tags = []kv{{K: "clientIP", V: "blocklist"}}
	s2.Resp = &respSpec{Code: 200, Headers: []kv{{K: "X-Bfe-Debug", V: "1"}}}
	s3 := baseSpec() // trusted proxy without client address headers; bad debug time
	s3.Trusted = true
	s3.Remote = "2001::1"
	s3.Headers = []kv{{K: "X-Bfe-Debug-Time", V: "x"}}
	s3.HasQ = true
	for _, s := range []*reqSpec{s1, s2, s3} {
		r, err := buildRequest(s)
		if err != nil {
			tb.Fatalf("fixed request: %v", err)
		}
		c17Requests = append(c17Requests, r)
	}
	return c17Requests
}

func c17Key(kind, site string) string { return kind + "-" + site }

// c17Check applies the oracle to one input. It returns false when a known
// finding was hit (the case is excluded from further judgement).
func c17Check(tb ev.TB, rec *ev.Rec, cs *c17case) {
	reason := ""
	ascii := printableASCII(cs.Input)
	tokenises := false
	if ascii {
		if _, r := refTokenize(cs.Input); r == "" {
			tokenises = true
		}
		reason = refRecognise(cs.Input)
	}
	rec.Case(cs.Input, tokenises, "class:"+cs.Class)
	r := c17Build(cs.Input)
	if r.hung {
		if strings.Contains(r.stacks, "bfe_basic/condition") {
			rec.Fail(tb, "hang", cs, "Build(%q) did not return within 60s; stacks:\n%s", cs.Input, r.stacks)
		}
		if t, ok := tb.(interface{ Skip(...any) }); ok {
			t.Skip("watchdog hit outside bfe: inconclusive")
		}
		return
	}
	if r.panicked != nil {
		rec.Class("outcome:panic")
		rec.Fail(tb, c17Key("panic", r.site), cs, "Build(%q) panicked in %s: %v", cs.Input, r.site, r.panicked)
		return
	}
	hasCond := r.cond != nil
	if hasCond == (r.err != nil) {
		rec.Fail(tb, "cond-xor-error", cs, "Build(%q) returned cond=%v err=%v", cs.Input, r.cond, r.err)
		return
	}
	if r.err != nil {
		rec.Class("outcome:error")
		return
	}
	rec.Class("outcome:built")
	if cs.MustRej != "" {
		key := "accepted-" + cs.MustRej
		if !rec.Fail(tb, key, cs, "Build(%q) accepted an input that must be rejected (%s)", cs.Input, cs.MustRej) {
			return
		}
	}
	if ascii && reason != "" {
		key := "accepted-" + reason
		if !rec.Fail(tb, key, cs, "Build(%q) succeeded but the input is not a valid condition: %s", cs.Input, reason) {
			return
		}
	}
	// a returned condition must be usable
	for i, req := range c17Reqs(tb) {
		req.Query, req.CookieMap = nil, nil
		var stack string
		p := func() (p any) {
			defer func() {
				if p = recover(); p != nil {
					stack = string(debug.Stack())
				}
			}()
			r.cond.Match(req)
			return nil
		}()
		if p != nil {
			rec.Fail(tb, c17Key("match-panic", panicSite(stack)), cs, "Match of Build(%q) panicked on fixed request %d: %v", cs.Input, i, p)
			return
		}
	}
}

// ---------------------------------------------------------------------------
// literal pools

var (
	validIPs   = []string{"10.0.0.1", "10.0.0.10", "0.0.0.0", "255.255.255.255", "192.168.1.1", "::1", "2001:db8::1", "2001:db8::ff", "::", "ffff:ffff:ffff:ffff:ffff:ffff:ffff:ffff"}
	invalidIPs = []string{"", "256.0.0.1", "1.2.3", "1.2.3.4.5", "1.2.3.4/24", "abc", "::g", "1.2.3.4:80", " 1.2.3.4", "1.2.3.4 ", "1..2.3", "-1.2.3.4", ":::", "12345::1", "1.2.3.4|", "10.0.0.1-10.0.0.9", "[::1]", "1.2.3.٤"}
	validRx    = []string{"a", "^/s\\?word=123$", "[a-z]+", "a|b", ".*", "(ab)+c?", "\\d{2,3}", "^$", ""}
	invalidRx  = []string{"(", ")", "[a", "a{2,1}", "*a", "+", "?", "(?P<n", "\\", "a**", "[z-a]", "(?z)", "x{1001}", "(a", "a)", "[]", "\\p{Nope}"}
	validHash  = []string{"0", "9999", "100", "100-200", "100-200|400", "0-9999", "5-5", "1|2|3"}
	invalidHash = []string{"", "a", "-1", "10000", "5-3", "1-2-3", "1|", "|1", "1-", "-", "0x10", "1e3", "1.5", "100-20000", "٣", "1,2", "99999999999999999999", "1--2"}
	validAbs   = []string{"20190204203000H", "20190204204500H", "20000229000000Z", "19700101000000Z", "20991231235959Y", "20190204203000A", "20190204203000M", "20190204203000N"}
	invalidAbs = []string{"", "2019", "20190204203000", "20190204203000J", "20191304203000H", "20190230203000H", "20190204253000H", "20190204206000H",
		"20190204203060H", "2019020420300H", "201902042030000H", "20190204203000HH", "2019-02-04T20:30H", "abcdefghijklmnH", "20190229000000Z",
		"20190204203000 H", "20190204203000H x", " 20190204203000H", "20190204203000\tH", "2019 0204203000H", "1 Z", "H", "20190204203000+", "２０１９０２０４２０３０００H"}
	validDay   = []string{"203000H", "204500H", "000000Z", "235959Z", "120000A", "000000H"}
	invalidDay = []string{"", "2030H", "203000", "203000J", "253000H", "206000H", "203060H", "2030000H", "203000HH", "20:30:00H", "abcdefH",
		"1 Z", "12 H", "123 Z", "1 2 Z", "12345 Z", "203000 H", "203000H x", " 203000H", "2030 0H", "H", "Z", " Z", "1\tZ", "-10000H", "+10000H"}
	otherStrings = []string{"", "a", "a|b", "|", "a.com", "/api", "x y", "%", "日本", "\x00", "a\\b", "'", "$x", "((", "&&", "true", "0", strings.Repeat("a", 300)}
)

// argDomain names the kind of value parameter i of primitive d takes.
func argDomain(d *primDoc, i int) string {
	if d.sig[i] == 'B' {
		return "bool"
	}
	switch d.test {
	case "ipin":
		return "iplist"
	case "iprange":
		return "ip"
	case "regex":
		if i == len(d.sig)-1 {
			return "regex"
		}
	case "hash":
		if (d.sig == "S" && i == 0) || (d.sig == "SSB" && i == 1) {
			return "hash"
		}
	case "time":
		return "abstime"
	case "ptime":
		if i < 2 {
			return "daytime"
		}
		return "period"
	}
	return "string"
}

func pick(rt *rapid.T, l []string, label string) string {
	return l[rapid.IntRange(0, len(l)-1).Draw(rt, label)]
}

// lit renders a string literal; values that cannot be written in either quote
// style are replaced.
func strLit(v string) string {
	if strings.ContainsAny(v, "`\n") && strings.ContainsAny(v, "\\\"\n") {
		v = "x"
	}
	if strings.ContainsAny(v, "\\\"") {
		return "`" + v + "`"
	}
	return `"` + v + `"`
}

// genCall draws a call of primitive d. mustRej is non-empty when, by
// construction, the call has to be rejected.
func genCall(rt *rapid.T, d *primDoc) (src string, class string, mustRej string) {
	n := len(d.sig)
	args := make([]string, n)
	class = "valid-shape"
	invalidAt := -1
	if n > 0 && rapid.IntRange(0, 2).Draw(rt, "hostile") == 0 {
		invalidAt = rapid.IntRange(0, n-1).Draw(rt, "hostile_at")
	}
	for i := 0; i < n; i++ {
		dom := argDomain(d, i)
		bad := i == invalidAt
		switch dom {
		case "bool":
			args[i] = boolStr(rapid.Bool().Draw(rt, "b"))
		case "ip":
			if bad {
				args[i], mustRej, class = strLit(pick(rt, invalidIPs, "badip")), "invalid-ip", "invalid-ip"
			} else {
				args[i] = strLit(pick(rt, validIPs, "ip"))
			}
		case "iplist":
			l := pick(rt, validIPs, "ip")
			if rapid.Bool().Draw(rt, "ip2") {
				l += "|" + pick(rt, validIPs, "ip")
			}
			if bad {
				b := pick(rt, invalidIPs, "badip")
				switch rapid.IntRange(0, 2).Draw(rt, "badpos") {
				case 0:
					l = b
				case 1:
					l = l + "|" + b
				default:
					l = b + "|" + l
				}
				mustRej, class = "invalid-ip", "invalid-ip"
			}
			args[i] = strLit(l)
		case "regex":
			if bad {
				args[i], mustRej, class = strLit(pick(rt, invalidRx, "badrx")), "invalid-regexp", "invalid-regexp"
			} else {
				args[i] = strLit(pick(rt, validRx, "rx"))
			}
		case "hash":
			if bad {
				h := pick(rt, invalidHash, "badhash")
				if rapid.Bool().Draw(rt, "hashmix") {
					h = pick(rt, validHash, "hash") + "|" + h
				}
				args[i], mustRej, class = strLit(h), "invalid-hash-range", "invalid-hash-range"
			} else {
				args[i] = strLit(pick(rt, validHash, "hash"))
			}
		case "abstime":
			if bad {
				args[i], mustRej, class = strLit(pick(rt, invalidAbs, "badabs")), "invalid-time", "invalid-time"
			} else {
				args[i] = strLit(pick(rt, validAbs, "abs"))
			}
		case "daytime":
			if bad {
				args[i], mustRej, class = strLit(pick(rt, invalidDay, "badday")), "invalid-time", "invalid-time"
			} else {
				args[i] = strLit(pick(rt, validDay, "day"))
			}
		case "period":
			args[i] = `""`
			if bad {
				args[i], class = strLit(pick(rt, []string{"Day", "Week", "x"}, "period")), "period-set"
			}
		default:
			if bad {
				args[i], class = strLit(pick(rt, otherStrings, "odd")), "odd-string"
			} else {
				args[i] = strLit(drawWord(rt, "abAB01/._-|", 0, 6, "s"))
			}
		}
	}
	if mustRej != "" && strings.ContainsAny(args[invalidAt], " \t") && (mustRej == "invalid-time") {
		mustRej = "time-with-whitespace"
	}
	// ranges that are inverted / mixed although each bound is valid
	if mustRej == "" {
		switch d.test {
		case "iprange":
			lo, _ := parseAddr(strings.Trim(args[0], "\"`"))
			hi, _ := parseAddr(strings.Trim(args[1], "\"`"))
			switch {
			case lo.Is4() != hi.Is4():
				mustRej, class = "ip-range-mixed-family", "ip-range-mixed-family"
			case hi.Compare(lo) < 0:
				mustRej, class = "ip-range-inverted", "ip-range-inverted"
			}
		case "time":
			lo, _ := parseAbsTime(strings.Trim(args[0], `"`))
			hi, _ := parseAbsTime(strings.Trim(args[1], `"`))
			if hi < lo {
				mustRej, class = "time-window-inverted", "time-window-inverted"
			}
		case "ptime":
			lo, o1, _ := parseDayTime(strings.Trim(args[0], `"`))
			hi, o2, _ := parseDayTime(strings.Trim(args[1], `"`))
			if hi < lo {
				mustRej, class = "time-window-inverted", "time-window-inverted"
			} else if o1 != o2 && class == "valid-shape" {
				class = "ptime-zones-differ" // not decided by the docs
			}
		}
	}
	name := d.name
	// shape mutations: arity / type / name
	switch rapid.IntRange(0, 11).Draw(rt, "shape") {
	case 0:
		if n > 0 {
			k := rapid.IntRange(0, n-1).Draw(rt, "drop")
			args = append(args[:k:k], args[k+1:]...)
			mustRej, class = "wrong-arity", "wrong-arity"
		}
	case 1:
		extra := pick(rt, []string{`"x"`, "true", `""`, "false"}, "extra")
		k := rapid.IntRange(0, n).Draw(rt, "ins")
		args = append(args[:k:k], append([]string{extra}, args[k:]...)...)
		mustRej, class = "wrong-arity", "wrong-arity"
	case 2:
		if n > 0 {
			k := rapid.IntRange(0, n-1).Draw(rt, "ty")
			if d.sig[k] == 'B' {
				args[k] = pick(rt, []string{`"true"`, "1", "0", `"false"`, "`true`"}, "tyb")
			} else {
				args[k] = pick(rt, []string{"true", "false", "1", "0", "42", "0x1f", "017"}, "tys")
			}
			mustRej, class = "wrong-type", "wrong-type"
		}
	case 3:
		if n > 0 {
			k := rapid.IntRange(0, n-1).Draw(rt, "ty")
			args[k] = pick(rt, []string{"1.5", "1e3", "2i", "x", "TRUE", "nil", "$v", "'a'", "-1", "08", "0x"}, "tyx")
			mustRej, class = "malformed-argument", "malformed-argument"
		}
	case 4:
		switch rapid.IntRange(0, 3).Draw(rt, "nm") {
		case 0:
			name += "x"
		case 1:
			name = name[:len(name)-1]
		case 2:
			name = strings.ToUpper(name)
		default:
			name = "req_" + name
		}
		if catalogueByName[name] == nil {
			mustRej, class = "unknown-primitive", "unknown-primitive"
		} else {
			name = d.name
		}
	}
	return name + "(" + strings.Join(args, rapid.SampledFrom([]string{", ", ",", " ,\t"}).Draw(rt, "comma")) + ")", class, mustRej
}

var soupTokens = []string{"(", ")", ",", "!", "&&", "||", "&", "|", "\"", "`", "\"a\"", "`b`", "true", "false", "0", "1", "1.5", "x", "$x", "default_t", "default_t()",
	"req_host_in", "req_host_in(\"a\")", "req_path_in(\"/\", true)", "//", "/", "\\", "\n", " ", "\x00", "\xff", "\ufeff", ";", "'", "func", "if", "-", "_", "9e", "0x", "req_cip_range(\"1.1.1.1\",", "bfe_periodic_time_range(\"1 Z\",\"2 Z\",\"\")"}

// genC17Batch: per rapid iteration one input of each unstructured kind and one
// grammar-aware call for every primitive (a drawn primitive index would be
// biased towards the ends of the catalogue).
func genC17Batch(rt *rapid.T) []*c17case {
	var out []*c17case
	b := rapid.SliceOfN(rapid.Byte(), 0, 48).Draw(rt, "bytes")
	out = append(out, &c17case{Input: string(b), Class: "random-bytes"})
	for k := 0; k < 3; k++ {
		n := rapid.IntRange(0, 12).Draw(rt, "ntok")
		var sb strings.Builder
		for i := 0; i < n; i++ {
			sb.WriteString(pick(rt, soupTokens, "tok"))
			if rapid.Bool().Draw(rt, "sp") {
				sb.WriteByte(' ')
			}
		}
		out = append(out, &c17case{Input: sb.String(), Class: "token-soup"})
	}
	// unresolved variables / bare identifiers inside otherwise valid expressions
	v := pick(rt, []string{"a", "$a", "news_host", "$news_host", "default_t", "req_host_in", "true", "TRUE"}, "var")
	e := pick(rt, []string{"%s", "%s && default_t()", "default_t() || %s", "!%s", "(%s)", "default_t() && (%s || default_t())"}, "ctx")
	out = append(out, &c17case{Input: fmt.Sprintf(e, v), Class: "variable", MustRej: "unresolved-variable"})
	for i := range catalogue {
		src, class, must := genCall(rt, &catalogue[i])
		switch rapid.IntRange(0, 5).Draw(rt, "wrap") {
		case 0:
			src = "!(" + src + ") && default_t()"
		case 1:
			src = "default_t() || " + src
		case 2:
			src = "( " + src + " )"
		}
		out = append(out, &c17case{Input: src, Class: class, MustRej: must})
	}
	return out
}

// c17Hostile: fixed inputs around the places where argument parsers and the
// scanner index into their input.
func c17Hostile() []*c17case {
	var out []*c17case
	add := func(class, must string, in ...string) {
		for _, s := range in {
			out = append(out, &c17case{Input: s, Class: class, MustRej: must})
		}
	}
	add("hostile-syntax", "syntax", "", " ", "(", ")", "()", "!", "&&", "||", "\"", "`", "\"abc", "`abc", "req_host_in(\"", "req_host_in(`", "req_host_in(\"a\\", "req_host_in(\"a\\\"",
		"default_t(", "default_t)", "default_t()(", "default_t()()", "default_t() &&", "&& default_t()", "default_t() default_t()", "default_t(,)", "req_host_in(\"a\",)", "req_host_in(,\"a\")",
		"default_t();", ";", "//", "// c", "default_t() // c\n&&", "\x00", "default_t()\x00", "\xff\xfe", "\ufeff", "'a'", "1", "1.5", "true", "\"a\"", "req_host_in(\"a\nb\")",
		strings.Repeat("(", 5000), strings.Repeat("!", 5000), strings.Repeat("(", 3000)+"default_t()", "default_t()"+strings.Repeat(")", 3000),
		strings.Repeat("default_t() && ", 2000), "req_host_in("+strings.Repeat("\"a\",", 2000)+")")
	add("hostile-deep", "", strings.Repeat("(", 3000)+"default_t()"+strings.Repeat(")", 3000), strings.Repeat("!", 5001)+"default_t()",
		strings.Repeat("default_t() && ", 3000)+"default_t()", strings.Repeat("default_t() || ", 3000)+"default_t()")
	timeMust := func(bad string) string {
		if strings.ContainsAny(bad, " \t") {
			return "time-with-whitespace"
		}
		return "invalid-time"
	}
	for _, bad := range invalidDay {
		add("hostile-time", timeMust(bad), fmt.Sprintf("bfe_periodic_time_range(%s, \"235959Z\", \"\")", strLit(bad)), fmt.Sprintf("bfe_periodic_time_range(\"000000Z\", %s, \"\")", strLit(bad)))
	}
	for _, bad := range invalidAbs {
		add("hostile-time", timeMust(bad), fmt.Sprintf("bfe_time_range(%s, \"20991231235959Z\")", strLit(bad)), fmt.Sprintf("bfe_time_range(\"19700101000000Z\", %s)", strLit(bad)))
	}
	return out
}

func corpusStrings(target string) []string {
	root := os.Getenv("VERIF_ROOT")
	if root == "" {
		root = "/verif"
	}
	files, _ := filepath.Glob(filepath.Join(root, "corpus", target, "*"))
	var out []string
	for _, f := range files {
		b, err := os.ReadFile(f)
		if err != nil {
			continue
		}
		// go fuzz corpus file: "go test fuzz v1\nstring(\"...\")\n"
		lines := strings.SplitN(string(b), "\n", 2)
		if len(lines) < 2 || !strings.HasPrefix(lines[0], "go test fuzz v1") {
			continue
		}
		l := strings.TrimSpace(lines[1])
		if strings.HasPrefix(l, "string(") && strings.HasSuffix(l, ")") {
			var s string
			if _, err := fmt.Sscanf(l, "string(%q)", &s); err == nil {
				out = append(out, s)
			}
		}
	}
	return out
}

func TestC17(t *testing.T) {
	rec := ev.New("C17", "inputs: fixed hostile strings (unterminated literals, 5000-deep nesting, every invalid time/time-of-day literal), the FuzzC17 seed corpus, random bytes, token soup, bare identifiers/$variables, and per primitive grammar-aware calls with right shape + hostile IP/regexp/hash/time literals, wrong arity, wrong parameter types, malformed arguments, unknown names. non-trivial: the input tokenises (reference tokenizer); distinct by input string")
	if p := os.Getenv("VERIF_REPLAY_JSON"); p != "" {
		b, err := os.ReadFile(p)
		if err != nil {
			t.Fatal(err)
		}
		var f struct {
			Witness c17case `json:"witness"`
		}
		if err := json.Unmarshal(b, &f); err != nil {
			t.Fatal(err)
		}
		c17Check(t, rec, &f.Witness)
		return
	}
	for _, cs := range c17Hostile() {
		c17Check(t, rec, cs)
	}
	for _, s := range corpusStrings("FuzzC17") {
		c17Check(t, rec, &c17case{Input: s, Class: "corpus"})
	}
	c17Concurrent(t, rec)

	rapid.Check(t, func(rt *rapid.T) {
		for _, cs := range genC17Batch(rt) {
			in := cs.Input
			if len(in) > 120 {
				in = in[:120] + "..."
			}
			if utf8.ValidString(in) {
				rec.Sample(map[string]any{"input": in, "class": cs.Class, "must_reject": cs.MustRej})
			}
			c17Check(rt, rec, cs)
		}
	})
}

// FuzzC17: native fuzzing of condition.Build with the same oracle (totality,
// cond xor error, accepted => well-formed/typed/valid per the reference
// recogniser, returned condition usable).
func FuzzC17(f *testing.F) {
	rec := ev.New("C17", "native fuzz of condition.Build")
	for _, cs := range c17Hostile() {
		if len(cs.Input) < 400 {
			f.Add(cs.Input)
		}
	}
	for _, cs := range c18DocExamples() {
		f.Add(cs.Cond)
	}
	f.Fuzz(func(t *testing.T, s string) {
		if len(s) > 4096 {
			return
		}
		c17Check(t, rec, &c17case{Input: s, Class: "fuzz"})
	})
}

// c17Concurrent: Build called from 8 goroutines at once for different strings
// (valid ones, and ones that must be rejected by the prototype / variable
// checks although they parse). Each result must be the one Build gives for the
// same string when called alone: same accept/reject decision and, if built, the
// same verdicts on the fixed requests.
func c17Concurrent(t *testing.T, rec *ev.Rec) {
	type item struct {
		in      string
		mustRej string
	}
	pool := []item{
		{`req_path_in("/api/list", false)`, ""}, {`req_path_in("/api/list")`, "wrong-arity"},
		{`req_method_in("GET")`, ""}, {`req_method_in("GET", true)`, "wrong-arity"},
		{`default_t()`, ""}, {`req_path_in("/api/list", "false")`, "wrong-type"},
		{`req_host_in("example.org") && !req_proto_secure()`, ""}, {`nosuch_primitive("x")`, "unknown-primitive"},
		{`req_cip_range("10.0.0.0", "10.255.255.255")`, ""}, {`news_host && default_t()`, "unresolved-variable"},
		{`req_query_key_in("uid") || req_method_in("POST")`, ""}, {`req_cookie_key_in("uid", "x")`, "wrong-arity"},
		{`!req_method_in("GET")`, ""}, {`req_query_value_in("uid", "1")`, "wrong-arity"},
		{`req_method_in("POST")`, ""}, {`req_path_in("/api/list", false) &&`, "syntax"},
	}
	reqs := c17Reqs(t)
	verdicts := func(c condition.Condition) string {
		v := ""
		for _, req := range reqs[:2] { // the two requests without wall-clock dependent parts
			req.Query, req.CookieMap = nil, nil
			if c.Match(req) {
				v += "T"
			} else {
				v += "F"
			}
		}
		return v
	}
	// sequential baseline
	base := make([]string, len(pool))
	for i, it := range pool {
		r := c17Build(it.in)
		switch {
		case r.hung || r.panicked != nil:
			return // reported by the sequential part of the check
		case r.err != nil:
			base[i] = "error"
		default:
			base[i] = "built:" + verdicts(r.cond)
		}
		if it.mustRej != "" && base[i] != "error" {
			return // reported by the sequential part of the check
		}
	}
	batches := ev.N(40, 400)
	const width, reps = 8, 25
	for b := 0; b < batches; b++ {
		idx := make([]int, width)
		inputs := make([]string, width)
		for g := 0; g < width; g++ {
			idx[g] = (b*width + g*(1+b%3)) % len(pool)
			if b%4 == 3 {
				idx[g] = (2*g + b%2 + 8*(b%2)) % len(pool)
			}
			inputs[g] = pool[idx[g]].in
		}
		res := concurrentBuild(inputs, reps)
		for g := range res {
			for _, one := range res[g] {
				it := pool[idx[g]]
				rec.Case("concurrent|"+it.in, false, "class:concurrent-build")
				w := map[string]any{"input": it.in, "batch": inputs, "sequential": base[idx[g]]}
				if one.panicked != nil {
					rec.Fail(t, "concurrent-build-panic", w, "concurrent Build(%q) panicked in %s: %v", it.in, one.site, one.panicked)
					return
				}
				if (one.cond != nil) == (one.err != nil) {
					rec.Fail(t, "cond-xor-error", w, "concurrent Build(%q) returned cond=%v err=%v", it.in, one.cond, one.err)
					return
				}
				got := "error"
				if one.err == nil {
					got = "built:" + verdicts(one.cond)
				}
				if got != base[idx[g]] {
					key := "concurrent-build-differs-from-sequential"
					if it.mustRej != "" && one.err == nil {
						key = "concurrent-accepted-" + it.mustRej
					}
					rec.Fail(t, key, w, "Build(%q) alone gives %s, but %s while 7 other goroutines were building %q", it.in, base[idx[g]], got, inputs)
					return
				}
			}
		}
	}
	rec.Set("concurrent_batches", int64(batches))
}

package cond

import (
	"encoding/json"
	"fmt"
	"net/netip"
	"os"
	"strings"
	"testing"

	"github.com/bfenetworks/bfe/bfe_basic/condition"
	"pgregory.net/rapid"

	"verif/harness/internal/ev"
)

// C18: every primitive returns true exactly when the inspected request
// attribute satisfies the documented test; a missing attribute gives false.
//
// Generator: per primitive a pattern argument and a request whose inspected
// attribute is derived from a pattern by mutation (equal / one char appended or
// prepended / embedded / case flipped / one char dropped or changed / unrelated
// / empty / absent). Oracle: refEval (ref_test.go, transcribed from the docs).

// ---------------------------------------------------------------------------
// small draw helpers

func drawWord(rt *rapid.T, alpha string, min, max int, label string) string {
	n := rapid.IntRange(min, max).Draw(rt, label+"_len")
	b := make([]byte, n)
	for i := range b {
		b[i] = alpha[rapid.IntRange(0, len(alpha)-1).Draw(rt, label+"_ch")]
	}
	return string(b)
}

func flipCase(s string) string {
	b := []byte(s)
	for i, c := range b {
		switch {
		case 'a' <= c && c <= 'z':
			b[i] = c - 32
		case 'A' <= c && c <= 'Z':
			b[i] = c + 32
		}
	}
	return string(b)
}

func flipOne(s string, i int) string {
	b := []byte(s)
	n := 0
	for k, c := range b {
		if ('a' <= c && c <= 'z') || ('A' <= c && c <= 'Z') {
			if n == i {
				b[k] = c ^ 0x20
				break
			}
			n++
		}
	}
	return string(b)
}

func countLetters(s string) int {
	n := 0
	for i := 0; i < len(s); i++ {
		c := s[i] | 0x20
		if 'a' <= c && c <= 'z' {
			n++
		}
	}
	return n
}

var mutLabels = []string{"equal", "append", "prepend", "embed", "caseflip", "caseflip1", "drop-last", "drop-first", "change1", "unrelated", "empty"}

// mutate derives an attribute value from pattern p.
func mutate(rt *rapid.T, p, alpha string) (string, string) {
	ch := func(l string) string { return string(alpha[rapid.IntRange(0, len(alpha)-1).Draw(rt, l)]) }
	k := rapid.IntRange(0, len(mutLabels)-1).Draw(rt, "mut")
	lab := mutLabels[k]
	switch lab {
	case "equal":
		return p, lab
	case "append":
		return p + ch("c"), lab
	case "prepend":
		return ch("c") + p, lab
	case "embed":
		return ch("c1") + p + ch("c2"), lab
	case "caseflip":
		return flipCase(p), lab
	case "caseflip1":
		if n := countLetters(p); n > 0 {
			return flipOne(p, rapid.IntRange(0, n-1).Draw(rt, "fl")), lab
		}
		return p, "equal"
	case "drop-last":
		if len(p) > 0 {
			return p[:len(p)-1], lab
		}
		return p, "equal"
	case "drop-first":
		if len(p) > 0 {
			return p[1:], lab
		}
		return p, "equal"
	case "change1":
		if len(p) > 0 {
			i := rapid.IntRange(0, len(p)-1).Draw(rt, "pos")
			c := ch("c")
			if c[0] == p[i] {
				return p, "equal"
			}
			return p[:i] + c + p[i+1:], lab
		}
		return p, "equal"
	case "unrelated":
		return drawWord(rt, alpha, 1, 6, "unrel"), lab
	}
	return "", "empty"
}

const (
	alphaVal  = "abAB01_-."
	alphaHdr  = "abAB01 /;=."
	alphaHost = "abAB01-."
	alphaKey  = "abAB01_"
)

var (
	hdrPool     = []string{"X-Test", "Referer", "X-Device-Id", "Accept-Language", "X-Abc"}
	noiseHdr    = []string{"Accept", "X-Noise", "Cache-Control", "X-Test", "Referer", "User-Agent"}
	keyPool     = []string{"uid", "cid", "k", "word", "Uid"}
	methodPool  = []string{"GET", "POST", "PUT", "DELETE", "HEAD", "OPTIONS", "PATCH"}
	protoPool   = []string{"HTTP/1.1", "HTTP/1.0", "h2", "spdy/3.1", "https", "http", "ws", "wss"}
	tlsProtos   = []string{"https", "h2", "spdy/3.1", "wss", "stream"}
	zoneLetters = "ABCDEFGHIKLMNOPQRSTUVWXYZ"
)

func wireHeaderName(rt *rapid.T, canon string) string {
	switch rapid.IntRange(0, 3).Draw(rt, "hcase") {
	case 0:
		return strings.ToLower(canon)
	case 1:
		return strings.ToUpper(canon)
	}
	return canon
}

// randomSpec draws a request with random, mostly irrelevant, content.
func randomSpec(rt *rapid.T) *reqSpec {
	s := baseSpec()
	s.Method = rapid.SampledFrom(methodPool).Draw(rt, "method")
	if rapid.IntRange(0, 5).Draw(rt, "v10") == 0 {
		s.Version = "HTTP/1.0"
	}
	s.Path = "/" + drawWord(rt, "abAB01._-/", 0, 8, "path")
	s.Host = drawWord(rt, "abAB01-", 1, 5, "h1") + "." + drawWord(rt, "abAB", 2, 3, "h2")
	if rapid.Bool().Draw(rt, "hasport") {
		s.Host += ":" + rapid.SampledFrom([]string{"80", "8080", "443", "8", "8081"}).Draw(rt, "port")
	}
	nq := rapid.IntRange(0, 2).Draw(rt, "nq")
	for i := 0; i < nq; i++ {
		s.Query = append(s.Query, kv{K: rapid.SampledFrom([]string{"a", "b", "uidx", "xuid", "UID", "n"}).Draw(rt, "qk"),
			V: drawWord(rt, alphaVal, 0, 4, "qv")})
	}
	nh := rapid.IntRange(0, 2).Draw(rt, "nh")
	for i := 0; i < nh; i++ {
		s.Headers = append(s.Headers, kv{K: wireHeaderName(rt, rapid.SampledFrom(noiseHdr[:3]).Draw(rt, "hk")),
			V: drawWord(rt, alphaVal, 0, 5, "hv")})
	}
	nc := rapid.IntRange(0, 2).Draw(rt, "nc")
	for i := 0; i < nc; i++ {
		s.Cookies = append(s.Cookies, kv{K: rapid.SampledFrom([]string{"sid", "x", "uidx", "UID"}).Draw(rt, "ck"),
			V: drawWord(rt, "abAB01", 0, 4, "cv")})
	}
	s.Remote = drawIP(rt, "remote").String()
	s.Remote4in = rapid.Bool().Draw(rt, "r4in6")
	if rapid.IntRange(0, 3).Draw(rt, "hasvip") > 0 {
		s.Vip = drawIP(rt, "vip").String()
	}
	if rapid.IntRange(0, 2).Draw(rt, "secure") == 0 {
		s.Secure = true
		s.SesProto = rapid.SampledFrom(tlsProtos).Draw(rt, "sproto")
		s.SNI = rapid.SampledFrom([]string{"", "example.org", "a.com"}).Draw(rt, "sni")
		s.ClientAuth = rapid.Bool().Draw(rt, "cauth")
		if s.ClientAuth {
			s.ClientCA = rapid.SampledFrom([]string{"", "ca1", "ca2"}).Draw(rt, "ca")
		}
	}
	return s
}

func drawIP(rt *rapid.T, label string) netip.Addr {
	if rapid.IntRange(0, 3).Draw(rt, label+"_fam") == 0 {
		var b [16]byte
		b[0], b[1] = 0x20, 0x01
		b[2] = byte(rapid.IntRange(0, 3).Draw(rt, label+"_b2"))
		b[15] = byte(rapid.IntRange(0, 255).Draw(rt, label+"_b15"))
		b[14] = byte(rapid.IntRange(0, 2).Draw(rt, label+"_b14"))
		return netip.AddrFrom16(b)
	}
	return netip.AddrFrom4([4]byte{byte(rapid.SampledFrom([]int{10, 172, 192, 1, 255, 0, 127, 128}).Draw(rt, label+"_a")),
		byte(rapid.IntRange(0, 2).Draw(rt, label+"_b")), byte(rapid.SampledFrom([]int{0, 1, 255}).Draw(rt, label+"_c")),
		byte(rapid.IntRange(0, 255).Draw(rt, label+"_d"))})
}

func boolStr(b bool) string {
	if b {
		return "true"
	}
	return "false"
}

// ---------------------------------------------------------------------------
// case generation

type c18case struct {
	Cond  string   `json:"cond"`
	Call  *pcall   `json:"call"`
	Spec  *reqSpec `json:"spec"`
	Label string   `json:"label"`
	Regex *rxNode  `json:"regex,omitempty"`
}

// genPatternsAndValue draws the pattern list for a string test on attribute
// kind `attr` and derives the attribute value.
func genPatternsAndValue(rt *rapid.T, d *primDoc) (patterns []string, value, label string) {
	alpha := alphaVal
	mk := func(l string) string { return drawWord(rt, alpha, 1, 5, l) }
	switch d.attr {
	case "host":
		alpha = alphaHost
		mk = func(l string) string {
			return drawWord(rt, "abAB01-", 1, 4, l+"a") + "." + rapid.SampledFrom([]string{"com", "org", "COM", "cn"}).Draw(rt, l+"tld")
		}
	case "path":
		alpha = "abAB01._-/"
		mk = func(l string) string {
			n := rapid.IntRange(1, 3).Draw(rt, l+"_segs")
			p := ""
			for i := 0; i < n; i++ {
				p += "/" + drawWord(rt, "abAB01._-", 1, 3, l+"_seg")
			}
			if d.test == "suffix" && rapid.Bool().Draw(rt, l+"_ext") {
				return rapid.SampledFrom([]string{".php", ".jsp", ".JPG", "b"}).Draw(rt, l+"_e")
			}
			if d.test == "contain" && rapid.Bool().Draw(rt, l+"_sub") {
				return drawWord(rt, "abAB01", 1, 3, l+"_w")
			}
			if d.test == "elem" && rapid.Bool().Draw(rt, l+"_slash") {
				p += "/"
			}
			return p
		}
	case "headerval", "resheaderval", "ua":
		alpha = alphaHdr
		mk = func(l string) string {
			return strings.TrimSpace(drawWord(rt, "abAB01/.", 1, 3, l+"a") + drawWord(rt, alphaHdr, 0, 3, l+"b") + drawWord(rt, "abAB01", 0, 1, l+"c"))
		}
	case "method":
		alpha = "GETPOS"
		mk = func(l string) string { return rapid.SampledFrom(methodPool).Draw(rt, l) }
	case "port":
		alpha = "0189"
		mk = func(l string) string {
			return rapid.SampledFrom([]string{"80", "8080", "443", "8", "8081", "808"}).Draw(rt, l)
		}
	case "rescode":
		alpha = "012345"
		mk = func(l string) string {
			return rapid.SampledFrom([]string{"200", "500", "404", "302", "20", "2000"}).Draw(rt, l)
		}
	case "proto":
		alpha = "hHtps/12."
		mk = func(l string) string { return rapid.SampledFrom(protoPool).Draw(rt, l) }
	case "sni":
		alpha = "abc01-."
		mk = func(l string) string {
			return drawWord(rt, "abc01-", 1, 4, l+"a") + "." + rapid.SampledFrom([]string{"com", "org"}).Draw(rt, l+"t")
		}
	}
	n := rapid.IntRange(1, 3).Draw(rt, "npat")
	if d.test == "contain1" || d.test == "in1" {
		n = 1
	}
	for i := 0; i < n; i++ {
		patterns = append(patterns, mk(fmt.Sprintf("p%d", i)))
	}
	if d.attr == "queryval" || d.attr == "headerval" || d.attr == "cookieval" || d.attr == "ctxval" || d.attr == "resheaderval" {
		// an empty entry is a meaningful pattern for a value ("?k=")
		if rapid.IntRange(0, 7).Draw(rt, "emptypat") == 0 {
			patterns[rapid.IntRange(0, n-1).Draw(rt, "emptyidx")] = ""
		}
	}
	base := patterns[rapid.IntRange(0, n-1).Draw(rt, "basepat")]
	value, label = mutate(rt, base, alpha)
	return
}

// genRegex derives a regular expression (subset, see ref_test.go) from value.
func genRegex(rt *rapid.T, value, alpha string) *rxNode {
	nb := rapid.IntRange(1, 2).Draw(rt, "rx_branches")
	n := &rxNode{}
	for b := 0; b < nb; b++ {
		var br rxBranch
		src := value
		if b > 0 || rapid.IntRange(0, 4).Draw(rt, "rx_other") == 0 {
			src = drawWord(rt, alpha, 0, 4, "rx_src")
		}
		i, j := 0, len(src)
		if len(src) > 0 && rapid.Bool().Draw(rt, "rx_sub") {
			i = rapid.IntRange(0, len(src)).Draw(rt, "rx_i")
			j = rapid.IntRange(i, len(src)).Draw(rt, "rx_j")
		}
		for _, c := range []byte(src[i:j]) {
			a := rxAtom{Kind: 'l', Ch: c}
			switch rapid.IntRange(0, 9).Draw(rt, "rx_atom") {
			case 0:
				a = rxAtom{Kind: '.'}
			case 1:
				// never both cases of one letter in a set: go1.23 regexp/syntax
				// turns [aA] into (?i:A) and then wrongly factors it with a
				// case-sensitive literal A of another branch ("[aA]$|A" matches
				// "aB"); that is a toolchain bug, kept out of the domain
				set := string(c) + drawWord(rt, "01xy", 0, 2, "rx_set")
				if strings.ContainsAny(set, `]\^-`) {
					set = "ab"
				}
				a = rxAtom{Kind: '[', Set: set}
			case 2:
				a.Ch = alpha[rapid.IntRange(0, len(alpha)-1).Draw(rt, "rx_ch")]
			}
			switch rapid.IntRange(0, 11).Draw(rt, "rx_q") {
			case 0:
				a.Q = '?'
			case 1:
				a.Q = '*'
			case 2:
				a.Q = '+'
			}
			br.Atoms = append(br.Atoms, a)
		}
		br.Bol = rapid.IntRange(0, 2).Draw(rt, "rx_bol") == 0
		br.Eol = rapid.IntRange(0, 2).Draw(rt, "rx_eol") == 0
		n.Branches = append(n.Branches, br)
	}
	return n
}

// genBucketList draws a hash bucket list around bucket b.
func genBucketList(rt *rapid.T, b int) string {
	sec := func(lo, hi int) string {
		if lo < 0 {
			lo = 0
		}
		if hi > 9999 {
			hi = 9999
		}
		if hi < lo {
			hi = lo
		}
		if lo == hi && rapid.Bool().Draw(rt, "single") {
			return itoa(lo)
		}
		return itoa(lo) + "-" + itoa(hi)
	}
	one := func() string {
		switch rapid.IntRange(0, 9).Draw(rt, "bk") {
		case 0:
			return sec(b, b)
		case 1:
			if b > 0 {
				return sec(0, b-1)
			}
			return sec(1, 9999)
		case 2:
			if b < 9999 {
				return sec(b+1, 9999)
			}
			return sec(0, 9998)
		case 3:
			return sec(0, b)
		case 4:
			return sec(b, 9999)
		case 5:
			return sec(b-1, b+1)
		case 6:
			return "0-9999"
		case 7:
			return "0-4999"
		case 8:
			if b > 1 {
				return sec(b-2, b-1)
			}
			return sec(b+1, b+2)
		}
		lo := rapid.IntRange(0, 9999).Draw(rt, "lo")
		return sec(lo, lo+rapid.IntRange(0, 3000).Draw(rt, "span"))
	}
	n := rapid.IntRange(1, 2).Draw(rt, "nsec")
	l := one()
	for i := 1; i < n; i++ {
		l += "|" + one()
	}
	return l
}

func addDup(rt *rapid.T, list []kv, key, value, alpha string) []kv {
	// rarely a second occurrence of the inspected key
	if rapid.IntRange(0, 9).Draw(rt, "dup") == 0 {
		v2 := value
		if rapid.Bool().Draw(rt, "dupdiff") {
			v2 = drawWord(rt, alpha, 0, 4, "dupv")
		}
		list = append(list, kv{K: key, V: v2})
	}
	return list
}

func genCase(rt *rapid.T, d *primDoc) *c18case {
	s := randomSpec(rt)
	c := &pcall{Name: d.name}
	label := ""
	ciArg := func() {
		if d.sig[len(d.sig)-1] == 'B' {
			c.Args = append(c.Args, boolStr(rapid.Bool().Draw(rt, "ci")))
		}
	}
	presence := rapid.IntRange(0, 9).Draw(rt, "presence") // 0,1: absent
	absent := presence <= 1

	switch d.attr {
	case "none", "trusted", "secure", "clientauth":
		s.Trusted = rapid.Bool().Draw(rt, "trusted")
		if s.Secure && rapid.IntRange(0, 9).Draw(rt, "notls") == 0 {
			s.NoTlsState = true
		}
		label = "bool"

	case "host", "path", "url", "method", "port", "proto", "hosttag", "sni", "clientca", "rescode",
		"queryval", "cookieval", "headerval", "resheaderval", "ua", "ctxval":
		if d.attr == "url" {
			// value is path?query of the random request
			s.HasQ = rapid.Bool().Draw(rt, "hasq")
		}
		var patterns []string
		var value string
		key := ""
		if len(d.sig) >= 2 && d.sig[1] == 'S' {
			switch d.attr {
			case "headerval", "resheaderval":
				key = rapid.SampledFrom(hdrPool).Draw(rt, "hkey")
			default:
				key = rapid.SampledFrom(keyPool).Draw(rt, "key")
			}
			c.Args = append(c.Args, key)
		}
		switch d.test {
		case "regex":
			alpha := alphaVal
			switch d.attr {
			case "host":
				alpha = alphaHost
			case "path", "url":
				alpha = "abAB01._-/"
			case "headerval", "ua":
				alpha = alphaHdr
			}
			switch d.attr {
			case "host":
				value, _, _, _ = s.hostPort()
			case "path":
				value = s.Path
			case "url":
				value = s.requestURI()
			default:
				value = strings.TrimSpace(drawWord(rt, alpha, 0, 6, "val"))
			}
			c.rx = genRegex(rt, value, alpha+"?=&")
			if absent && rapid.Bool().Draw(rt, "rx_empty") {
				// a pattern that accepts the empty string
				c.rx = &rxNode{Branches: []rxBranch{{Bol: true, Eol: true, Atoms: []rxAtom{{Kind: '[', Set: "0a", Q: '*'}}}}}
			}
			c.Args = append(c.Args, c.rx.String())
			label = "regex"
		case "hash":
			value = drawWord(rt, "abAB01", 0, 6, "val")
			ci := rapid.Bool().Draw(rt, "ci")
			b := hashBucket(value, ci)
			if absent {
				b = hashBucket("", ci)
			}
			c.Args = append(c.Args, genBucketList(rt, b), boolStr(ci))
			label = "hash"
			if rapid.IntRange(0, 3).Draw(rt, "hflip") == 0 {
				value = flipCase(value)
				label = "hash-caseflip"
			}
		default:
			patterns, value, label = genPatternsAndValue(rt, d)
			c.Args = append(c.Args, strings.Join(patterns, "|"))
			ciArg()
		}
		// place the value
		switch d.attr {
		case "host":
			if d.test != "regex" {
				if absent {
					s.NoHost, s.Host, s.Version = true, "", "HTTP/1.0"
					label = "absent"
				} else {
					if value == "" || strings.ContainsAny(value, ":") {
						value = "a.b"
					}
					s.Host = value
					if rapid.Bool().Draw(rt, "port2") {
						s.Host += ":" + rapid.SampledFrom([]string{"80", "8080", "443"}).Draw(rt, "port3")
					}
				}
			}
		case "path":
			if d.test != "regex" {
				if !strings.HasPrefix(value, "/") {
					value = "/" + value
				}
				s.Path = value
			}
		case "url":
		case "method":
			if value == "" || strings.ContainsAny(value, "/. ") {
				value = "GET"
			}
			s.Method = value
		case "port":
			h, _, _, _ := s.hostPort()
			if absent {
				s.Host = h
				label = "implicit"
			} else {
				if value == "" {
					value = "80"
				}
				s.Host = h + ":" + value
			}
		case "proto":
			if s.Secure {
				s.SesProto = value
			} else {
				if value != "HTTP/1.0" {
					value = "HTTP/1.1"
				}
				s.Version = value
			}
		case "hosttag":
			if absent {
				value, label = "", "absent"
			}
			s.HostTag = value
		case "sni":
			s.Secure = rapid.IntRange(0, 5).Draw(rt, "sec2") > 0
			if s.SesProto == "http" || s.SesProto == "" {
				s.SesProto = "https"
			}
			if !s.Secure {
				s.SesProto = "http"
			}
			if absent {
				value, label = "", "absent"
			}
			s.SNI = value
		case "clientca":
			s.Secure = rapid.IntRange(0, 5).Draw(rt, "sec2") > 0
			s.SesProto = "https"
			if !s.Secure {
				s.SesProto = "http"
			}
			s.ClientAuth = rapid.IntRange(0, 5).Draw(rt, "ca2") > 0
			if absent {
				value, label = "", "absent"
			}
			s.ClientCA = value
		case "rescode":
			if absent {
				s.Resp = nil
				label = "absent"
			} else {
				code := 0
				for _, ch := range value {
					if ch >= '0' && ch <= '9' && code < 100 {
						code = code*10 + int(ch-'0')
					}
				}
				if code < 100 {
					code = 200
				}
				s.Resp = &respSpec{Code: code}
			}
		case "queryval":
			if absent {
				label = "absent"
				// keep near-miss keys only
				s.Query = append(s.Query, kv{K: key + "x", V: value})
			} else {
				e := kv{K: key, V: value}
				if value == "" && rapid.Bool().Draw(rt, "noeq") {
					e.NoEq = true
				}
				pos := rapid.IntRange(0, len(s.Query)).Draw(rt, "qpos")
				s.Query = append(s.Query[:pos:pos], append([]kv{e}, s.Query[pos:]...)...)
				s.Query = addDup(rt, s.Query, key, value, alphaVal)
			}
		case "cookieval":
			value = strings.Map(func(r rune) rune {
				if strings.ContainsRune("abAB01_-.", r) {
					return r
				}
				return -1
			}, value)
			if absent {
				label = "absent"
				s.Cookies = append(s.Cookies, kv{K: key + "x", V: value})
			} else {
				pos := rapid.IntRange(0, len(s.Cookies)).Draw(rt, "cpos")
				s.Cookies = append(s.Cookies[:pos:pos], append([]kv{{K: key, V: value}}, s.Cookies[pos:]...)...)
				s.Cookies = addDup(rt, s.Cookies, key, value, "abAB01")
			}
		case "headerval", "ua", "resheaderval":
			name := key
			if d.attr == "ua" {
				name = "User-Agent"
			}
			value = strings.TrimSpace(value)
			hs := []kv{}
			if absent {
				label = "absent"
				hs = append(hs, kv{K: name + "-X", V: value})
			} else {
				hs = append(hs, kv{K: wireHeaderName(rt, name), V: value})
				hs = addDup(rt, hs, name, value, "abAB01")
			}
			if d.attr == "resheaderval" {
				if rapid.IntRange(0, 7).Draw(rt, "noresp") == 0 {
					s.Resp = nil
					label = "no-response"
				} else {
					s.Resp = &respSpec{Code: 200, Headers: hs}
				}
			} else {
				s.Headers = append(s.Headers, hs...)
			}
		case "ctxval":
			if absent {
				label = "absent"
				s.Context = append(s.Context, kv{K: key + "x", V: value})
			} else {
				s.Context = append(s.Context, kv{K: key, V: value})
			}
		}

	case "query", "cookie", "header", "resheader":
		if d.test == "exist" {
			s.HasQ = rapid.Bool().Draw(rt, "hasq")
			label = "exist"
			break
		}
		pool := keyPool
		if d.attr == "header" || d.attr == "resheader" {
			pool = hdrPool
		}
		n := rapid.IntRange(1, 3).Draw(rt, "nkeys")
		var keys []string
		for i := 0; i < n; i++ {
			keys = append(keys, rapid.SampledFrom(pool).Draw(rt, "key"))
		}
		c.Args = append(c.Args, strings.Join(keys, "|"))
		base := keys[rapid.IntRange(0, n-1).Draw(rt, "basekey")]
		var k string
		switch d.attr {
		case "header", "resheader":
			// header names: equal (any wire case), extended, or other
			switch rapid.IntRange(0, 4).Draw(rt, "hmut") {
			case 0:
				k, label = base+"-X", "append"
			case 1:
				k, label = "X-"+base, "prepend"
			case 2:
				k, label = strings.TrimSuffix(base, base[len(base)-1:]), "drop-last"
			default:
				k, label = wireHeaderName(rt, base), "equal"
			}
			v := drawWord(rt, "abAB01", 0, 3, "hval")
			if v == "" {
				label += "-emptyval"
			}
			hs := []kv{{K: k, V: v}}
			if absent {
				hs, label = nil, "absent"
			}
			if d.attr == "resheader" {
				if rapid.IntRange(0, 7).Draw(rt, "noresp") == 0 {
					s.Resp, label = nil, "no-response"
				} else {
					s.Resp = &respSpec{Code: 200, Headers: hs}
				}
			} else {
				s.Headers = append(s.Headers, hs...)
			}
		case "query":
			k, label = mutate(rt, base, alphaKey)
			if absent {
				label = "absent"
			} else if k != "" {
				e := kv{K: k, V: drawWord(rt, alphaVal, 0, 3, "qval")}
				if e.V == "" {
					e.NoEq = rapid.Bool().Draw(rt, "noeq")
				}
				s.Query = append(s.Query, e)
			}
		case "cookie":
			k, label = mutate(rt, base, alphaKey)
			if absent {
				label = "absent"
			} else if k != "" {
				s.Cookies = append(s.Cookies, kv{K: k, V: drawWord(rt, "abAB01", 0, 3, "cval")})
			}
		}

	case "tag":
		names := []string{"clientIP", "ua", "t"}
		name := rapid.SampledFrom(names).Draw(rt, "tname")
		val := drawWord(rt, "abAB0:", 1, 4, "tval")
		c.Args = []string{name, val}
		tv, lab := mutate(rt, val, "abAB0:")
		label = lab
		if rapid.IntRange(0, 5).Draw(rt, "tagcolon") == 0 {
			tv, label = val+":"+drawWord(rt, "ab0", 0, 2, "textra"), "colon-ext"
		}
		if absent {
			label = "absent"
			if rapid.Bool().Draw(rt, "othertag") {
				s.Tags = append(s.Tags, kv{K: name + "2", V: val})
			}
		} else {
			if rapid.Bool().Draw(rt, "tagnoise") {
				s.Tags = append(s.Tags, kv{K: name, V: drawWord(rt, "abAB0:", 1, 3, "tnoise")})
			}
			if tv != "" {
				s.Tags = append(s.Tags, kv{K: name, V: tv})
			}
			if rapid.IntRange(0, 3).Draw(rt, "tagother") == 0 {
				s.Tags = append(s.Tags, kv{K: rapid.SampledFrom(names).Draw(rt, "tname2"), V: val})
			}
		}

	case "cip", "vip", "sip":
		label = genIPCase(rt, d, c, s, absent)

	case "time":
		label = genTimeCase(rt, d, c, s)
	}
	return &c18case{Cond: c.String(), Call: c, Spec: s, Label: label, Regex: c.rx}
}

// addrAdd returns a + delta (delta small), ok=false on overflow.
func addrAdd(a netip.Addr, delta int) (netip.Addr, bool) {
	for ; delta > 0; delta-- {
		a = a.Next()
		if !a.IsValid() {
			return a, false
		}
	}
	for ; delta < 0; delta++ {
		a = a.Prev()
		if !a.IsValid() {
			return a, false
		}
	}
	return a, true
}

func genIPCase(rt *rapid.T, d *primDoc, c *pcall, s *reqSpec, absent bool) string {
	label := ""
	var addr netip.Addr
	switch d.test {
	case "iprange":
		lo := drawIP(rt, "lo")
		if rapid.IntRange(0, 9).Draw(rt, "lo_edge") == 0 {
			if lo.Is4() {
				lo = netip.AddrFrom4([4]byte{0, 0, 0, 0})
			} else {
				lo = netip.MustParseAddr("2001::")
			}
		}
		span := rapid.SampledFrom([]int{0, 1, 2, 9, 255, 256, 300}).Draw(rt, "span")
		hi, ok := addrAdd(lo, span)
		if !ok {
			hi = lo
		}
		c.Args = []string{lo.String(), hi.String()}
		k := rapid.IntRange(0, 8).Draw(rt, "where")
		switch k {
		case 0:
			addr, ok = addrAdd(lo, -1)
			label = "lo-1"
		case 1:
			addr, label = lo, "lo"
		case 2:
			addr, ok = addrAdd(lo, 1)
			label = "lo+1"
		case 3:
			addr, ok = addrAdd(hi, -1)
			label = "hi-1"
		case 4:
			addr, label = hi, "hi"
		case 5:
			addr, ok = addrAdd(hi, 1)
			label = "hi+1"
		case 6:
			addr, ok = addrAdd(lo, span/2)
			label = "mid"
		case 7:
			// same low bytes, higher-order byte differs
			if lo.Is4() {
				b := lo.As4()
				b[1] ^= 1
				addr = netip.AddrFrom4(b)
			} else {
				b := lo.As16()
				b[3] ^= 1
				addr = netip.AddrFrom16(b)
			}
			label = "high-byte-differs"
		default:
			addr, label = drawIP(rt, "addr"), "random"
		}
		if !ok || !addr.IsValid() {
			addr, label = lo, "lo"
		}
	case "ipin":
		n := rapid.IntRange(1, 3).Draw(rt, "nip")
		var l []string
		var ips []netip.Addr
		for i := 0; i < n; i++ {
			ip := drawIP(rt, "ipin")
			ips = append(ips, ip)
			l = append(l, ip.String())
		}
		c.Args = []string{strings.Join(l, "|")}
		base := ips[rapid.IntRange(0, n-1).Draw(rt, "baseip")]
		ok := true
		switch rapid.IntRange(0, 3).Draw(rt, "where") {
		case 0:
			addr, label = base, "equal"
		case 1:
			addr, ok = addrAdd(base, 1)
			label = "plus1"
		case 2:
			addr, ok = addrAdd(base, -1)
			label = "minus1"
		default:
			addr, label = drawIP(rt, "addr"), "random"
		}
		if !ok {
			addr, label = base, "equal"
		}
	case "hash":
		addr = drawIP(rt, "addr")
		c.Args = []string{genBucketList(rt, hashBucket(addr.String(), false))}
		label = "hash"
	}
	switch d.attr {
	case "sip":
		s.Remote = addr.String()
	case "vip":
		if absent {
			s.Vip, label = "", "absent"
		} else {
			s.Vip = addr.String()
		}
	case "cip":
		s.Trusted = rapid.IntRange(0, 2).Draw(rt, "trusted") == 0
		if !s.Trusted {
			s.Remote = addr.String()
		} else {
			switch {
			case absent && rapid.Bool().Draw(rt, "badhdr"):
				s.Headers = append(s.Headers, kv{K: "X-Real-Ip", V: "unknown"})
				label = "absent"
			case absent:
				label = "absent"
			case rapid.IntRange(0, 3).Draw(rt, "xff") == 0:
				s.Headers = append(s.Headers, kv{K: wireHeaderName(rt, "X-Forwarded-For"), V: addr.String() + ", 10.9.9.9"})
				label += "-xff"
			default:
				s.Headers = append(s.Headers, kv{K: wireHeaderName(rt, "X-Real-Ip"), V: addr.String()})
				label += "-realip"
			}
		}
	}
	return label
}

// ---------------------------------------------------------------------------
// time cases

func civilFromDays(z int64) (y, m, d int) {
	z += 719468
	era := z / 146097
	if z < 0 {
		era = (z - 146096) / 146097
	}
	doe := z - era*146097
	yoe := (doe - doe/1460 + doe/36524 - doe/146096) / 365
	yy := yoe + era*400
	doy := doe - (365*yoe + yoe/4 - yoe/100)
	mp := (5*doy + 2) / 153
	d = int(doy - (153*mp+2)/5 + 1)
	m = int(mp + 3)
	if mp >= 10 {
		m = int(mp - 9)
	}
	if m <= 2 {
		yy++
	}
	return int(yy), m, d
}

// formatAbs renders instant t (unix seconds) as yyyymmddhhmmssZ in zone z.
func formatAbs(t int64, z byte) string {
	off, _ := zoneOffset(z)
	l := t + int64(off)
	days := l / 86400
	sod := l % 86400
	if sod < 0 {
		sod += 86400
		days--
	}
	y, m, d := civilFromDays(days)
	return fmt.Sprintf("%04d%02d%02d%02d%02d%02d%c", y, m, d, sod/3600, sod/60%60, sod%60, z)
}

func formatDay(sod int, z byte) string {
	return fmt.Sprintf("%02d%02d%02d%c", sod/3600, sod/60%60, sod%60, z)
}

func drawZone(rt *rapid.T, l string) byte {
	return zoneLetters[rapid.IntRange(0, len(zoneLetters)-1).Draw(rt, l)]
}

func genTimeCase(rt *rapid.T, d *primDoc, c *pcall, s *reqSpec) string {
	// an instant in 2019..2021
	now := int64(1546300800) + int64(rapid.IntRange(0, 3*365*86400).Draw(rt, "now"))
	deltas := []int{-86400, -3600, -61, -1, 0, 1, 61, 3600, 86400}
	label := ""
	switch d.test {
	case "time":
		dl := rapid.SampledFrom(deltas).Draw(rt, "dlo")
		dh := rapid.SampledFrom(deltas).Draw(rt, "dhi")
		lo, hi := now+int64(dl), now+int64(dh)
		if hi < lo {
			lo, hi = hi, lo
			dl, dh = dh, dl
		}
		c.Args = []string{formatAbs(lo, drawZone(rt, "zlo")), formatAbs(hi, drawZone(rt, "zhi"))}
		label = fmt.Sprintf("lo%+d,hi%+d", sign(dl), sign(dh))
	case "ptime":
		z := drawZone(rt, "z")
		off, _ := zoneOffset(z)
		sod := int(((now+int64(off))%86400 + 86400) % 86400)
		dl := rapid.SampledFrom([]int{-3600, -1, 0, 1, 3600}).Draw(rt, "dlo")
		dh := rapid.SampledFrom([]int{-3600, -1, 0, 1, 3600}).Draw(rt, "dhi")
		lo, hi := sod+dl, sod+dh
		clamp := func(v int) int {
			if v < 0 {
				return 0
			}
			if v > 86399 {
				return 86399
			}
			return v
		}
		lo, hi = clamp(lo), clamp(hi)
		if hi < lo {
			lo, hi = hi, lo
		}
		c.Args = []string{formatDay(lo, z), formatDay(hi, z), ""}
		label = fmt.Sprintf("lo%+d,hi%+d", sign(lo-sod), sign(hi-sod))
	}
	s.Headers = append(s.Headers, kv{K: wireHeaderName(rt, "X-Bfe-Debug-Time"), V: formatAbs(now, drawZone(rt, "znow"))})
	return label
}

func sign(v int) int {
	switch {
	case v < 0:
		return -1
	case v > 0:
		return 1
	}
	return 0
}

// ---------------------------------------------------------------------------
// check of one case

// findingKey names the kind of discrepancy.
func c18Key(cs *c18case, d *primDoc, want verdict) string {
	absentish := strings.HasPrefix(cs.Label, "absent") || cs.Label == "no-response"
	if want == vFalse && absentish {
		switch d.attr {
		case "queryval":
			return "missing-queryval-true"
		case "headerval":
			return "missing-headerval-true"
		case "resheaderval":
			return "missing-resheaderval-true"
		}
		return "missing-" + d.attr + "-true"
	}
	if d.test == "tag" {
		colon := strings.Contains(cs.Call.Args[1], ":")
		for _, t := range cs.Spec.Tags {
			if t.K == cs.Call.Args[0] && strings.Contains(t.V, ":") {
				colon = true
			}
		}
		if colon {
			return "tag-colon-split" // tag values compared only up to the first ':'
		}
	}
	w := "false-positive"
	if want == vTrue {
		w = "false-negative"
	}
	return d.name + "-" + w
}

func c18Check(tb ev.TB, rec *ev.Rec, cs *c18case) {
	d := catalogueByName[cs.Call.Name]
	want := refEval(cs.Call, cs.Spec)
	specJSON, _ := json.Marshal(cs.Spec)
	fpr := cs.Cond + "|" + string(specJSON)
	nt := cs.Label != "unrelated" && cs.Label != "random" && want != vUnspec
	vs := map[verdict]string{vTrue: "want-true", vFalse: "want-false", vUnspec: "not-judged"}[want]

	req, err := buildRequest(cs.Spec)
	if err != nil {
		rec.Excluded("request-not-parseable")
		return
	}
	var cond condition.Condition
	var berr error
	if p := ev.Try(func() { cond, berr = condition.Build(cs.Cond) }); p != nil {
		rec.Case(fpr, nt, d.name, "label:"+cs.Label, vs)
		rec.Fail(tb, "build-panic", cs, "Build(%s) panicked: %v", cs.Cond, p)
		return
	}
	if berr != nil || cond == nil {
		rec.Case(fpr, nt, d.name, "label:"+cs.Label, vs)
		rec.Fail(tb, "valid-call-rejected", cs, "Build(%s) failed: %v", cs.Cond, berr)
		return
	}
	var got bool
	if p := ev.Try(func() { got = cond.Match(req) }); p != nil {
		rec.Case(fpr, nt, d.name, "label:"+cs.Label, vs)
		rec.Fail(tb, "match-panic", cs, "%s Match panicked: %v", cs.Cond, p)
		return
	}
	if want == vUnspec {
		rec.Case(fpr, false, d.name, "label:"+cs.Label, vs)
		rec.Excluded("not-decided-by-docs")
		return
	}
	rec.Case(fpr, nt, d.name, "label:"+cs.Label, vs, "attr:"+d.attr+"/"+d.test)
	if got != (want == vTrue) {
		key := c18Key(cs, d, want)
		rec.Fail(tb, key, cs, "%s on %s: bfe=%v, documented=%v (label %s)", cs.Cond, string(specJSON), got, want == vTrue, cs.Label)
		return
	}
	// the truth value of the primitive is what the operators work on: NOT applied
	// directly (and through parentheses) must give the opposite value on the same
	// request, whatever made the primitive true or false
	for _, neg := range []string{"!" + cs.Cond, "!(" + cs.Cond + ")"} {
		var ncond condition.Condition
		var nerr error
		var ngot bool
		if p := ev.Try(func() {
			ncond, nerr = condition.Build(neg)
			if nerr == nil {
				ngot = ncond.Match(req)
			}
		}); p != nil || nerr != nil {
			rec.Fail(tb, "negated-primitive-unusable", cs, "Build/Match of %s: err=%v panic=%v", neg, nerr, p)
			return
		}
		rec.Class("negated")
		if ngot == got {
			k := "negated-primitive-not-inverted"
			if strings.HasPrefix(cs.Label, "absent") || cs.Label == "no-response" {
				k = "negated-missing-attribute-not-inverted"
			}
			rec.Fail(tb, k, cs, "%s = %v but %s = %v on %s (label %s)", cs.Cond, got, neg, ngot, string(specJSON), cs.Label)
			return
		}
	}
}

func TestC18(t *testing.T) {
	rec := ev.New("C18", "per primitive (all 56 of funcProtos): pattern argument + request whose inspected attribute is derived from a pattern by mutation (equal/append/prepend/embed/case flip/drop/change one char/empty/absent), IPs at range bounds (v4, v6, 4-in-6 peers, trusted-proxy headers), hash buckets at section bounds, debug-time at window bounds; plus sequences guard condition -> query actions (QUERY_ADD/DEL/RENAME/DEL_ALL_EXCEPT via bfe_basic/action) -> query primitives, half of them on targets without a query string; requests are HTTP/1 wire bytes parsed by bfe_http.ReadRequest. non-trivial: decided by the docs and not an unrelated/random value; distinct by (condition string, request spec)")
	if p := os.Getenv("VERIF_REPLAY_JSON"); p != "" {
		c18Replay(t, rec, p)
		return
	}
	// deterministic sweep: the examples of the documentation pages
	for _, cs := range c18DocExamples() {
		c18Check(t, rec, cs)
	}
	// one generated case for every primitive per rapid iteration (a drawn
	// primitive index would be biased towards the ends of the catalogue)
	rapid.Check(t, func(rt *rapid.T) {
		for i := range catalogue {
			cs := genCase(rt, &catalogue[i])
			rec.Sample(map[string]any{"cond": cs.Cond, "label": cs.Label, "uri": cs.Spec.requestURI(), "host": cs.Spec.Host})
			c18Check(rt, rec, cs)
		}
		// query primitives on requests rewritten by query actions
		for i := 0; i < 8; i++ {
			c18SeqCheck(rt, rec, genSeq(rt))
		}
	})
}

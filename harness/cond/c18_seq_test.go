package cond

// C18, request shapes produced by query-rewriting actions: a rule's condition is
// evaluated (which fills the request's parsed-query cache), its actions rewrite
// the query (QUERY_ADD / QUERY_DEL / QUERY_RENAME / QUERY_DEL_ALL_EXCEPT through
// bfe_basic/action, decoded from JSON like mod_rewrite's rule file), and the
// conditions of later rules must see the query the request has NOW.
// Reference: the actions applied to the ordered (key,value) list of the spec
// (mod_rewrite.md: add / delete / delete all except / rename query).

import (
	"encoding/json"
	"sort"
	"strings"

	"github.com/bfenetworks/bfe/bfe_basic"
	"github.com/bfenetworks/bfe/bfe_basic/action"
	"github.com/bfenetworks/bfe/bfe_basic/condition"
	"pgregory.net/rapid"

	"verif/harness/internal/ev"
)

type seqAction struct {
	Cmd    string   `json:"Cmd"`
	Params []string `json:"Params"`
}

type c18seq struct {
	Spec    *reqSpec    `json:"spec"`
	Guard   *pcall      `json:"guard,omitempty"` // evaluated before the actions
	Actions []seqAction `json:"actions"`
	Checks  []*pcall    `json:"checks"` // evaluated after the actions
	Regexes []*rxNode   `json:"regexes,omitempty"`
}

// applyModel applies one action to the query of s (documented meaning).
func applyModel(s *reqSpec, a seqAction) {
	in := func(k string) bool {
		for _, p := range a.Params {
			if p == k {
				return true
			}
		}
		return false
	}
	switch a.Cmd {
	case "QUERY_ADD":
		s.Query = append(s.Query, kv{K: a.Params[0], V: a.Params[1]})
	case "QUERY_RENAME":
		for i := range s.Query {
			if s.Query[i].K == a.Params[0] {
				s.Query[i].K = a.Params[1]
			}
		}
	case "QUERY_DEL", "QUERY_DEL_ALL_EXCEPT":
		var out []kv
		for _, q := range s.Query {
			if in(q.K) == (a.Cmd == "QUERY_DEL_ALL_EXCEPT") {
				out = append(out, q)
			}
		}
		s.Query = out
	}
}

func genQueryCall(rt *rapid.T, keys []string, vals []string) *pcall {
	key := rapid.SampledFrom(keys).Draw(rt, "ckey")
	val := rapid.SampledFrom(vals).Draw(rt, "cval")
	ci := boolStr(rapid.Bool().Draw(rt, "cci"))
	switch rapid.IntRange(0, 8).Draw(rt, "ckind") {
	case 0:
		l := key
		if rapid.Bool().Draw(rt, "ck2") {
			l = "zz|" + key
		}
		return &pcall{Name: "req_query_key_in", Args: []string{l}}
	case 1:
		return &pcall{Name: "req_query_exist"}
	case 2:
		return &pcall{Name: "req_query_key_prefix_in", Args: []string{key[:1+rapid.IntRange(0, len(key)-1).Draw(rt, "cpre")]}}
	case 3:
		return &pcall{Name: "req_query_value_prefix_in", Args: []string{key, val[:1] + "|q", ci}}
	case 4:
		return &pcall{Name: "req_query_value_suffix_in", Args: []string{key, val[len(val)-1:], ci}}
	case 5:
		return &pcall{Name: "req_query_value_contain", Args: []string{key, val, ci}}
	case 6:
		c := &pcall{Name: "req_query_value_regmatch", rx: lit(val)}
		c.rx.Branches[0].Bol, c.rx.Branches[0].Eol = true, true
		c.Args = []string{key, c.rx.String()}
		return c
	case 7:
		b := hashBucket(val, ci == "true")
		return &pcall{Name: "req_query_value_hash_in", Args: []string{key, genBucketList(rt, b), ci}}
	}
	return &pcall{Name: "req_query_value_in", Args: []string{key, val + "|w", ci}}
}

func genSeq(rt *rapid.T) *c18seq {
	s := randomSpec(rt)
	keys := []string{"from", "uid", "k", "fr"}
	vals := []string{"bfe", "1", "Ab", "x"}
	// half of the targets have no query string at all ("/p" or "/p?")
	s.Query = nil
	s.HasQ = rapid.Bool().Draw(rt, "bareq")
	if rapid.Bool().Draw(rt, "withquery") {
		n := rapid.IntRange(1, 3).Draw(rt, "nq")
		for i := 0; i < n; i++ {
			e := kv{K: rapid.SampledFrom(keys).Draw(rt, "qk"), V: rapid.SampledFrom(append(vals, "")).Draw(rt, "qv")}
			if e.V == "" {
				e.NoEq = rapid.Bool().Draw(rt, "noeq")
			}
			s.Query = append(s.Query, e)
		}
	}
	q := &c18seq{Spec: s}
	if rapid.IntRange(0, 3).Draw(rt, "guard") > 0 {
		q.Guard = genQueryCall(rt, keys, vals)
	}
	na := rapid.IntRange(1, 2).Draw(rt, "nact")
	for i := 0; i < na; i++ {
		k := rapid.SampledFrom(keys).Draw(rt, "ak")
		switch rapid.IntRange(0, 5).Draw(rt, "acmd") {
		case 0, 1, 2:
			q.Actions = append(q.Actions, seqAction{"QUERY_ADD", []string{k, rapid.SampledFrom(vals).Draw(rt, "av")}})
		case 3:
			q.Actions = append(q.Actions, seqAction{"QUERY_DEL", []string{k}})
		case 4:
			k2 := rapid.SampledFrom(keys).Draw(rt, "ak2")
			if k2 != k {
				q.Actions = append(q.Actions, seqAction{"QUERY_RENAME", []string{k, k2}})
			} else {
				q.Actions = append(q.Actions, seqAction{"QUERY_DEL", []string{k, "zz"}})
			}
		default:
			q.Actions = append(q.Actions, seqAction{"QUERY_DEL_ALL_EXCEPT", []string{k}})
		}
	}
	// later conditions look at the keys the actions touched
	ak := []string{}
	for _, a := range q.Actions {
		ak = append(ak, a.Params[0])
		if a.Cmd == "QUERY_RENAME" {
			ak = append(ak, a.Params[1])
		}
	}
	for i := 0; i < 3; i++ {
		q.Checks = append(q.Checks, genQueryCall(rt, ak, vals))
	}
	return q
}

func seqMatch(c *pcall, req *bfe_basic.Request) (got bool, problem string) {
	var cond condition.Condition
	var err error
	if p := ev.Try(func() {
		cond, err = condition.Build(c.String())
		if err == nil {
			got = cond.Match(req)
		}
	}); p != nil {
		return false, "panic"
	}
	if err != nil {
		return false, "rejected: " + err.Error()
	}
	return got, ""
}

func c18SeqCheck(tb ev.TB, rec *ev.Rec, q *c18seq) {
	for _, c := range q.Checks {
		q.Regexes = append(q.Regexes, c.rx)
	}
	req, err := buildRequest(q.Spec)
	if err != nil {
		rec.Excluded("request-not-parseable")
		return
	}
	model := *q.Spec
	model.Query = append([]kv(nil), q.Spec.Query...)
	queryless := len(q.Spec.Query) == 0
	cmds := map[string]bool{}
	for _, a := range q.Actions {
		cmds[a.Cmd] = true
	}
	var cl []string
	for c := range cmds {
		cl = append(cl, c)
	}
	sort.Strings(cl)
	cmdKey := strings.Join(cl, "+")
	classes := []string{"seq:" + cmdKey}
	if queryless {
		classes = append(classes, "seq:no-query-string")
	}
	if q.Guard != nil {
		classes = append(classes, "seq:guard-evaluated-first")
	}
	fpr, _ := json.Marshal(q)
	rec.Case("seq|"+string(fpr), true, classes...)

	if q.Guard != nil {
		got, prob := seqMatch(q.Guard, req)
		if prob != "" {
			rec.Fail(tb, "seq-guard-unusable", q, "guard %s: %s", q.Guard, prob)
			return
		}
		if want := refEval(q.Guard, &model); want != vUnspec && got != (want == vTrue) {
			d := catalogueByName[q.Guard.Name]
			cs := &c18case{Cond: q.Guard.String(), Call: q.Guard, Spec: q.Spec, Label: "seq-guard"}
			if !rec.Fail(tb, c18Key(cs, d, want), q, "guard %s on %s: bfe=%v documented=%v", q.Guard, q.Spec.requestURI(), got, want == vTrue) {
				return
			}
		}
	}
	for _, a := range q.Actions {
		// decoded and validated like a rule file entry
		b, _ := json.Marshal(a)
		var act action.Action
		if err := json.Unmarshal(b, &act); err != nil {
			rec.Excluded("action-rejected-by-loader")
			return
		}
		if p := ev.Try(func() { act.Do(req) }); p != nil {
			rec.Fail(tb, "seq-action-panic", q, "action %v panicked: %v", a, p)
			return
		}
		applyModel(&model, a)
	}
	for _, c := range q.Checks {
		want := refEval(c, &model)
		got, prob := seqMatch(c, req)
		if prob != "" {
			rec.Fail(tb, "seq-check-unusable", q, "%s: %s", c, prob)
			return
		}
		if want == vUnspec {
			rec.Class("seq:not-judged")
			continue
		}
		rec.Class("seq:judged")
		if got != (want == vTrue) {
			key := "query-after-" + cmdKey
			if !rec.Fail(tb, key, q, "%s after %v on a request that arrived as %q (guard evaluated first: %v): bfe=%v, but the request now carries query %q: documented=%v; RawQuery=%q",
				c, q.Actions, q.Spec.requestURI(), q.Guard != nil, got, (&model).requestURI(), want == vTrue, req.HttpRequest.URL.RawQuery) {
				return
			}
		}
	}
}

package cond

import (
	"encoding/json"
	"os"
	"strings"
	"testing"

	"github.com/bfenetworks/bfe/bfe_basic"
	"github.com/bfenetworks/bfe/bfe_basic/condition"
	"pgregory.net/rapid"

	"verif/harness/internal/ev"
)

// C16: a condition expression evaluates with the documented precedence:
// () first, then ! (right-assoc), then &&, then || (both left-assoc).
//
// Generator: random expression trees (depth <= 6) over leaves whose truth on a
// fixed request is known, printed with minimal parentheses according to the
// documented precedence plus random redundant parentheses and white space.
// Oracle: value of the tree (Go booleans). A token-level recursive-descent
// evaluator of the documented grammar double-checks the printer, and three
// deliberately wrong grammars (|| tighter than &&, both on one level, ! looser
// than the binary operators) classify which cases can tell the grammars apart.

type c16leaf struct {
	Src   string
	Truth bool
}

// leaves on c16Spec (documented meaning of each primitive; verified once at
// start through Build().Match())
var c16Leaves = []c16leaf{
	{`default_t()`, true},
	{`req_method_in("GET")`, true},
	{`req_path_prefix_in("/api", false)`, true},
	{`req_host_in("example.org")`, true},
	{`req_query_key_in("uid")`, true},
	{`req_port_in("8080")`, true},
	{`req_cip_range("10.0.0.0", "10.255.255.255")`, true},
	// false because the inspected attribute is MISSING from the request
	// (no cookie, no such header / query key, no TLS, no response yet)
	{`req_cookie_value_in("sid", "1", false)`, false},
	{`req_header_value_in("X-Absent", "v", false)`, false},
	{`req_query_value_prefix_in("zz", "1", false)`, false},
	{`ses_tls_sni_in("example.org")`, false},
	{`ses_tls_client_ca_in("ca1")`, false},
	{`res_code_in("200")`, false},
	{`req_context_value_in("nokey", "v", false)`, false},
	// false although the attribute is present
	{`req_method_in("POST")`, false},
	{`req_path_in("/x", false)`, false},
	{`req_host_in("other.org")`, false},
	{`req_query_key_in("zz")`, false},
	{`req_proto_secure()`, false},
	{`req_cip_trusted()`, false},
	{`req_vip_in("1.1.1.1")`, false},
}

func c16Spec() *reqSpec {
	s := baseSpec()
	s.Path = "/api/list"
	s.Query = []kv{{K: "uid", V: "1"}}
	s.Host = "example.org:8080"
	s.Vip = "10.0.0.9"
	return s
}

type c16node struct {
	Op   string   `json:"op"` // "leaf", "!", "&&", "||"
	Leaf int      `json:"leaf,omitempty"`
	L    *c16node `json:"l,omitempty"`
	R    *c16node `json:"r,omitempty"`
}

func (n *c16node) eval(truth func(int) bool) bool {
	switch n.Op {
	case "leaf":
		return truth(n.Leaf)
	case "!":
		return !n.L.eval(truth)
	case "&&":
		// no short-circuit needed: leaves are pure
		l, r := n.L.eval(truth), n.R.eval(truth)
		return l && r
	}
	l, r := n.L.eval(truth), n.R.eval(truth)
	return l || r
}

func prec(op string) int {
	switch op {
	case "||":
		return 1
	case "&&":
		return 2
	case "!":
		return 3
	}
	return 4
}

// tokens prints n. extra(k) decides whether redundant parentheses are added at
// the k-th opportunity.
func (n *c16node) tokens(parentPrec int, rightChild bool, extra func() bool, leafTok func(int) string, out *[]string) {
	p := prec(n.Op)
	need := p < parentPrec || (p == parentPrec && rightChild && (n.Op == "&&" || n.Op == "||"))
	open := 0
	if need {
		open++
	}
	if extra() {
		open++
	}
	for i := 0; i < open; i++ {
		*out = append(*out, "(")
	}
	inner := p // children are printed relative to this node's operator
	switch n.Op {
	case "leaf":
		*out = append(*out, leafTok(n.Leaf))
	case "!":
		*out = append(*out, "!")
		n.L.tokens(inner, false, extra, leafTok, out)
	default:
		n.L.tokens(inner, false, extra, leafTok, out)
		*out = append(*out, n.Op)
		n.R.tokens(inner, true, extra, leafTok, out)
	}
	for i := 0; i < open; i++ {
		*out = append(*out, ")")
	}
}

// ---------------------------------------------------------------------------
// token-level evaluators

type c16parser struct {
	toks    []string
	pos     int
	truth   func(string) bool
	variant string // "doc", "or-tighter", "flat", "not-loose"
	bad     bool
}

func (p *c16parser) peek() string {
	if p.pos < len(p.toks) {
		return p.toks[p.pos]
	}
	return ""
}

func (p *c16parser) levelOps(level int) []string {
	switch p.variant {
	case "or-tighter":
		if level == 0 {
			return []string{"&&"}
		}
		return []string{"||"}
	case "flat":
		if level == 0 {
			return []string{"&&", "||"}
		}
		return nil
	}
	if level == 0 {
		return []string{"||"}
	}
	return []string{"&&"}
}

func isOp(t string, ops []string) bool {
	for _, o := range ops {
		if o == t {
			return true
		}
	}
	return false
}

func (p *c16parser) expr(level int) bool {
	if level == 2 {
		return p.unary()
	}
	ops := p.levelOps(level)
	v := p.expr(level + 1)
	for isOp(p.peek(), ops) {
		op := p.peek()
		p.pos++
		r := p.expr(level + 1)
		if op == "&&" {
			v = v && r
		} else {
			v = v || r
		}
	}
	return v
}

func (p *c16parser) unary() bool {
	t := p.peek()
	switch t {
	case "!":
		p.pos++
		if p.variant == "not-loose" {
			return !p.expr(0) // everything up to ')' or the end
		}
		return !p.unary()
	case "(":
		p.pos++
		v := p.expr(0)
		if p.peek() != ")" {
			p.bad = true
		}
		p.pos++
		return v
	case "", ")", "&&", "||":
		p.bad = true
		return false
	}
	p.pos++
	return p.truth(t)
}

func evalTokens(toks []string, truth func(string) bool, variant string) (bool, bool) {
	p := &c16parser{toks: toks, truth: truth, variant: variant}
	v := p.expr(0)
	if p.pos != len(toks) || p.bad {
		return false, false
	}
	return v, true
}

// ---------------------------------------------------------------------------

type c16case struct {
	Expr   string   `json:"expr"`
	Tokens []string `json:"tokens"`
	Want   bool     `json:"want"`
}

func joinTokens(toks []string, ws func() string) string {
	var b strings.Builder
	for i, t := range toks {
		if i > 0 {
			b.WriteString(ws())
		}
		b.WriteString(t)
	}
	return b.String()
}

type c16env struct {
	req   *bfe_basic.Request
	truth map[string]bool
}

func c16Check(tb ev.TB, rec *ev.Rec, env *c16env, cs *c16case, class string) {
	truth := func(t string) bool { return env.truth[t] }
	doc, ok := evalTokens(cs.Tokens, truth, "doc")
	if !ok || doc != cs.Want {
		tb.Fatalf("harness bug: printer and documented-grammar evaluator disagree on %q (tree=%v tokens=%v ok=%v)", cs.Expr, cs.Want, doc, ok)
	}
	alt := map[string]bool{}
	var kinds []string
	for _, v := range []string{"or-tighter", "flat", "not-loose"} {
		r, ok := evalTokens(cs.Tokens, truth, v)
		if ok && r != doc {
			alt[v] = true
			kinds = append(kinds, "discriminates:"+v)
		}
	}
	nt := len(kinds) > 0
	classes := append([]string{class}, kinds...)
	if !nt {
		classes = append(classes, "indifferent")
	}
	rec.Case(cs.Expr, nt, classes...)

	var cond condition.Condition
	var err error
	if p := ev.Try(func() { cond, err = condition.Build(cs.Expr) }); p != nil {
		rec.Fail(tb, "build-panic", cs, "Build(%q) panicked: %v", cs.Expr, p)
		return
	}
	if err != nil || cond == nil {
		rec.Fail(tb, "valid-expr-rejected", cs, "Build(%q) failed: %v", cs.Expr, err)
		return
	}
	var got bool
	if p := ev.Try(func() { got = cond.Match(env.req) }); p != nil {
		rec.Fail(tb, "match-panic", cs, "Match of %q panicked: %v", cs.Expr, p)
		return
	}
	if got == cs.Want {
		return
	}
	key := "eval-mismatch"
	switch {
	case alt["or-tighter"]:
		key = "or-binds-tighter-than-and"
	case alt["flat"]:
		key = "and-or-same-level"
	case alt["not-loose"]:
		key = "not-binds-looser"
	default:
		// no precedence variant explains it: the operators themselves are
		// applied wrongly to the leaf values
		for _, tk := range cs.Tokens {
			if tk == "!" {
				key = "not-does-not-negate"
				break
			}
		}
	}
	rec.Fail(tb, key, cs, "%q evaluates to %v, documented grammar gives %v", cs.Expr, got, cs.Want)
}

func c16Setup(t *testing.T, rec *ev.Rec) *c16env {
	spec := c16Spec()
	req, err := buildRequest(spec)
	if err != nil {
		t.Fatalf("fixed request: %v", err)
	}
	env := &c16env{req: req, truth: map[string]bool{}}
	for _, l := range c16Leaves {
		c, err := condition.Build(l.Src)
		if err != nil {
			rec.Excluded("leaf-not-buildable")
			continue
		}
		if c.Match(req) != l.Truth {
			// a primitive defect (C18's business): do not use this leaf
			rec.Excluded("leaf-truth-differs")
			continue
		}
		env.truth[l.Src] = l.Truth
	}
	return env
}

func (env *c16env) pools() (ts, fs []string) {
	for _, l := range c16Leaves {
		if _, ok := env.truth[l.Src]; !ok {
			continue
		}
		if l.Truth {
			ts = append(ts, l.Src)
		} else {
			fs = append(fs, l.Src)
		}
	}
	return
}

func genC16Tree(rt *rapid.T, depth int) *c16node {
	k := 6
	if depth > 0 {
		// rapid prefers small values: binary operators first, leaf last
		k = rapid.IntRange(0, 6).Draw(rt, "node")
	}
	switch k {
	case 0, 1:
		return &c16node{Op: "&&", L: genC16Tree(rt, depth-1), R: genC16Tree(rt, depth-1)}
	case 2, 3:
		return &c16node{Op: "||", L: genC16Tree(rt, depth-1), R: genC16Tree(rt, depth-1)}
	case 4:
		return &c16node{Op: "!", L: genC16Tree(rt, depth-1)}
	}
	return &c16node{Op: "leaf"}
}

func (n *c16node) leaves(out *[]*c16node) {
	if n == nil {
		return
	}
	if n.Op == "leaf" {
		*out = append(*out, n)
		return
	}
	n.L.leaves(out)
	n.R.leaves(out)
}

func TestC16(t *testing.T) {
	rec := ev.New("C16", "expression trees (depth<=6) over leaves with known truth on a fixed request, printed with minimal parentheses per the documented precedence plus random redundant parentheses/white space; false leaves include primitives that are false because their attribute is missing (cookie, header, query key, SNI, client CA, response); exhaustive enumeration of all unparenthesised expressions with <=4 leaves for a missing-attribute and a present-attribute false leaf; !x, !(x), !!x for every leaf. non-trivial: at least one wrong grammar (|| tighter than &&, && and || on one level, ! looser than binary operators) evaluates the printed form differently from the documented grammar; distinct by printed expression")
	env := c16Setup(t, rec)
	ts, fs := env.pools()
	if len(ts) == 0 || len(fs) == 0 {
		t.Fatalf("no usable true/false leaves")
	}
	if p := os.Getenv("VERIF_REPLAY_JSON"); p != "" {
		b, err := os.ReadFile(p)
		if err != nil {
			t.Fatal(err)
		}
		var f struct {
			Witness c16case `json:"witness"`
		}
		if err := json.Unmarshal(b, &f); err != nil {
			t.Fatal(err)
		}
		c16Check(t, rec, env, &f.Witness, "replay")
		return
	}
	truth := func(tk string) bool { return env.truth[tk] }

	// exhaustive: every unparenthesised expression with up to 4 leaves
	// ([!] leaf (op [!] leaf)*), all truth assignments
	maxLeaves := ev.N(4, 5)
	fPresent := fs[0]
	for _, f := range fs {
		if f == `req_method_in("POST")` {
			fPresent = f
		}
	}
	for _, fleaf := range []string{fs[0], fPresent} { // fs[0]: false by missing attribute
		for n := 1; n <= maxLeaves; n++ {
			for m := 0; m < 1<<(3*n-1); m++ {
				var toks []string
				bits := m
				for i := 0; i < n; i++ {
					if i > 0 {
						if bits&1 == 1 {
							toks = append(toks, "&&")
						} else {
							toks = append(toks, "||")
						}
						bits >>= 1
					}
					if bits&1 == 1 {
						toks = append(toks, "!")
					}
					bits >>= 1
					if bits&1 == 1 {
						toks = append(toks, ts[0])
					} else {
						toks = append(toks, fleaf)
					}
					bits >>= 1
				}
				want, ok := evalTokens(toks, truth, "doc")
				if !ok {
					t.Fatalf("harness bug: %v", toks)
				}
				c16Check(t, rec, env, &c16case{Expr: strings.Join(toks, " "), Tokens: toks, Want: want}, "exhaustive")
			}
		}
		if fPresent == fs[0] {
			break
		}
	}
	// a few fixed shapes with parentheses, "!!" and odd spacing
	shapes := [][]string{
		{"!", "!", ts[0]}, {"!", "!", "!", ts[0]}, {"!", "(", ts[0], "&&", fs[0], ")"}, {"!", "(", ts[0], "||", fs[0], ")", "&&", fs[0]},
		{"(", ts[0], "||", ts[0], ")", "&&", fs[0]}, {ts[0], "||", "(", ts[0], "&&", fs[0], ")"},
		{"(", "(", ts[0], ")", ")"}, {"!", "(", "!", "(", fs[0], ")", ")"},
	}
	// NOT applied directly / through parentheses / twice to every leaf
	for _, l := range append(append([]string{}, ts...), fs...) {
		shapes = append(shapes, []string{"!", l}, []string{"!", "(", l, ")"}, []string{"!", "!", l}, []string{"!", l, "&&", ts[0]}, []string{fs[0], "||", "!", l})
	}
	for _, e := range shapes {
		want, ok := evalTokens(e, truth, "doc")
		if !ok {
			t.Fatalf("harness bug: %v", e)
		}
		for _, sep := range []string{"", " ", "\t", "\n", "  \r\n "} {
			c16Check(t, rec, env, &c16case{Expr: strings.Join(e, sep), Tokens: e, Want: want}, "fixed-shape")
		}
	}

	c16Concurrent(t, rec, env, ts, fs)

	rapid.Check(t, func(rt *rapid.T) {
		tree := genC16Tree(rt, rapid.IntRange(1, 6).Draw(rt, "depth"))
		var ls []*c16node
		tree.leaves(&ls)
		for i, l := range ls {
			l.Leaf = i
		}
		redundancy := rapid.SampledFrom([]int{0, 0, 0, 1, 2, 3}).Draw(rt, "redundancy") // 0: minimal parentheses
		extra := func() bool {
			if redundancy == 0 {
				return false
			}
			return rapid.IntRange(0, 9).Draw(rt, "extra") < redundancy
		}
		var shape []string // printed form with leaf slots "#i"
		tree.tokens(0, false, extra, func(i int) string { return "#" + itoa(i) }, &shape)
		// leaf truth values: of a few drawn assignments take the first one on
		// which a wrong grammar evaluates the printed form differently
		var assign []bool
		for try := 0; try < 4; try++ {
			a := make([]bool, len(ls))
			for i := range a {
				a[i] = rapid.Bool().Draw(rt, "truth")
			}
			if assign == nil {
				assign = a
			}
			tr := func(tk string) bool {
				n := 0
				for _, c := range tk[1:] {
					n = n*10 + int(c-'0')
				}
				return a[n]
			}
			doc, _ := evalTokens(shape, tr, "doc")
			found := false
			for _, v := range []string{"or-tighter", "flat", "not-loose"} {
				if r, ok := evalTokens(shape, tr, v); ok && r != doc {
					found = true
				}
			}
			if found {
				assign = a
				break
			}
		}
		names := make([]string, len(ls))
		for i := range ls {
			if assign[i] {
				names[i] = ts[rapid.IntRange(0, len(ts)-1).Draw(rt, "tleaf")]
			} else {
				names[i] = fs[rapid.IntRange(0, len(fs)-1).Draw(rt, "fleaf")]
			}
		}
		toks := make([]string, len(shape))
		li := 0
		for i, tk := range shape {
			if tk[0] == '#' {
				toks[i] = names[li]
				li++
			} else {
				toks[i] = tk
			}
		}
		wsKind := rapid.IntRange(0, 2).Draw(rt, "ws")
		ws := func() string {
			switch wsKind {
			case 0:
				return " "
			case 1:
				return ""
			}
			return rapid.SampledFrom([]string{" ", "", "  ", "\t", "\n", " \r\n"}).Draw(rt, "sep")
		}
		expr := joinTokens(toks, ws)
		want := tree.eval(func(i int) bool { return env.truth[names[i]] })
		class := "minimal-parens"
		if redundancy > 0 {
			class = "redundant-parens"
		}
		cs := &c16case{Expr: expr, Tokens: toks, Want: want}
		rec.Sample(map[string]any{"expr": expr, "want": want})
		c16Check(rt, rec, env, cs, class)
	})
}

// c16Concurrent: 8 goroutines build 8 different expressions at the same time,
// repeatedly; every built condition must evaluate like its own expression.
// Neighbouring expressions differ only in grouping / negation and have
// opposite values, so a result that belongs to another goroutine's string
// is visible.
func c16Concurrent(t *testing.T, rec *ev.Rec, env *c16env, ts, fs []string) {
	truth := func(tk string) bool { return env.truth[tk] }
	var pool [][]string
	T, F := ts[0], fs[0]
	T2, F2 := ts[len(ts)-1], fs[len(fs)-1]
	for _, e := range [][]string{
		{"(", T, "||", T2, ")", "&&", F}, {T, "||", T2, "&&", F},
		{"!", "(", F, "&&", F2, ")", "&&", T}, {"!", F, "&&", F2, "&&", T},
		{T, "&&", "(", F, "||", T2, ")"}, {T, "&&", F, "||", F2},
		{"!", "(", T, "||", F, ")"}, {"!", F, "||", T},
		{F, "||", F2, "||", "!", T}, {F, "||", "!", "(", F2, "&&", T, ")"},
		{"(", F, "||", T, ")", "&&", "(", T2, "||", F2, ")"}, {F, "&&", T, "||", T2, "&&", F2},
		{"!", "!", T}, {"!", T},
		{T, "&&", "!", F}, {T, "&&", "!", "!", F},
	} {
		pool = append(pool, e)
	}
	batches := ev.N(40, 400)
	reps := 25
	const width = 8
	for b := 0; b < batches; b++ {
		inputs := make([]string, width)
		toks := make([][]string, width)
		want := make([]bool, width)
		for g := 0; g < width; g++ {
			toks[g] = pool[(b*width+g*(1+b%3))%len(pool)]
			if b%5 == 4 {
				toks[g] = pool[(2*g+b%2)%len(pool)]
			}
			inputs[g] = strings.Join(toks[g], " ")
			w, ok := evalTokens(toks[g], truth, "doc")
			if !ok {
				t.Fatalf("harness bug: %v", toks[g])
			}
			want[g] = w
		}
		res := concurrentBuild(inputs, reps)
		for g := range res {
			for r, one := range res[g] {
				cs := &c16case{Expr: inputs[g], Tokens: toks[g], Want: want[g]}
				rec.Case("concurrent|"+inputs[g], false, "concurrent-build")
				if one.panicked != nil {
					rec.Fail(t, "concurrent-build-panic", map[string]any{"case": cs, "batch": inputs}, "concurrent Build(%q) panicked in %s: %v", inputs[g], one.site, one.panicked)
					return
				}
				if one.err != nil || one.cond == nil {
					rec.Fail(t, "concurrent-build-rejected", map[string]any{"case": cs, "batch": inputs}, "concurrent Build(%q) failed: %v (other goroutines built %q)", inputs[g], one.err, inputs)
					return
				}
				if got := one.cond.Match(env.req); got != want[g] {
					rec.Fail(t, "concurrent-build-foreign-result", map[string]any{"case": cs, "batch": inputs, "rep": r},
						"condition built from %q while 7 other goroutines were building %q evaluates to %v, its own expression gives %v", inputs[g], inputs, got, want[g])
					return
				}
			}
		}
	}
	rec.Set("concurrent_batches", int64(batches))
}

package cond

import (
	"encoding/json"
	"os"
	"testing"

	"verif/harness/internal/ev"
)

func lit(s string) *rxNode {
	br := rxBranch{}
	for i := 0; i < len(s); i++ {
		br.Atoms = append(br.Atoms, rxAtom{Kind: 'l', Ch: s[i]})
	}
	return &rxNode{Branches: []rxBranch{br}}
}

// c18DocExamples: the example calls of the documentation pages, each with a
// request on either side of the documented test.
func c18DocExamples() []*c18case {
	var out []*c18case
	add := func(name string, args []string, rx *rxNode, mod func(s *reqSpec)) {
		s := baseSpec()
		mod(s)
		c := &pcall{Name: name, Args: args, rx: rx}
		out = append(out, &c18case{Cond: c.String(), Call: c, Spec: s, Label: "doc-example", Regex: rx})
	}
	add("default_t", nil, nil, func(s *reqSpec) {})
	for _, h := range []string{"WWW.bfe-networks.com:8080", "bfe-networks.com", "xbfe-networks.com", "www.bfe-networks.com.cn"} {
		h := h
		add("req_host_in", []string{"www.bfe-networks.com|bfe-networks.com"}, nil, func(s *reqSpec) { s.Host = h })
	}
	for _, p := range []string{"/api/search", "/API/list", "/api/list/", "/api/lis"} {
		p := p
		add("req_path_in", []string{"/api/search|/api/list", "true"}, nil, func(s *reqSpec) { s.Path = p })
		add("req_path_in", []string{"/api/search|/api/list", "false"}, nil, func(s *reqSpec) { s.Path = p })
	}
	for _, p := range []string{"/x/search/y", "/SEARCH", "/analytic"} {
		p := p
		add("req_path_contain", []string{"search|analytics", "true"}, nil, func(s *reqSpec) { s.Path = p })
	}
	for _, p := range []string{"/api/reports/x", "/API/report", "/api/repor"} {
		p := p
		add("req_path_prefix_in", []string{"/api/report|/api/analytics", "false"}, nil, func(s *reqSpec) { s.Path = p })
	}
	for _, p := range []string{"/a/b.php", "/a/b.PHP", "/a/b.php/"} {
		p := p
		add("req_path_suffix_in", []string{".php|.jsp", "false"}, nil, func(s *reqSpec) { s.Path = p })
	}
	for _, p := range []string{"/api/report", "/api/report/", "/api/report/x", "/api/reports", "/api/analytics/a/b", "/api"} {
		p := p
		add("req_path_element_prefix_in", []string{"/api/report/|/api/analytics/", "false"}, nil, func(s *reqSpec) { s.Path = p })
		add("req_path_element_prefix_in", []string{"/api/report|/api/analytics", "false"}, nil, func(s *reqSpec) { s.Path = p })
	}
	for _, q := range [][]kv{{{K: "word", V: "1"}}, {{K: "wd", NoEq: true}}, {{K: "words", V: "1"}}, nil} {
		q := q
		add("req_query_key_in", []string{"word|wd"}, nil, func(s *reqSpec) { s.Query = q })
		add("req_query_key_prefix_in", []string{"rid"}, nil, func(s *reqSpec) { s.Query = append([]kv{{K: "ridx", V: ""}}, q...) })
		add("req_query_key_prefix_in", []string{"rid"}, nil, func(s *reqSpec) { s.Query = q })
	}
	for _, v := range []string{"x", "X", "xy", ""} {
		v := v
		add("req_query_value_in", []string{"uid", "x|y|z", "true"}, nil, func(s *reqSpec) { s.Query = []kv{{K: "uid", V: v}} })
		add("req_query_value_in", []string{"uid", "x|y|z", "false"}, nil, func(s *reqSpec) { s.Query = []kv{{K: "uid", V: v}} })
	}
	for _, v := range []string{"1001", "2", "0100"} {
		v := v
		add("req_query_value_prefix_in", []string{"uid", "100|200", "true"}, nil, func(s *reqSpec) { s.Query = []kv{{K: "uid", V: v}} })
		add("req_query_value_suffix_in", []string{"uid", "1|2|3", "true"}, nil, func(s *reqSpec) { s.Query = []kv{{K: "uid", V: v}} })
	}
	for _, h := range []string{"a.com", "a.com:80", "a.com:8080", "a.com:808"} {
		h := h
		add("req_port_in", []string{"80|8080"}, nil, func(s *reqSpec) { s.Host = h })
	}
	for _, q := range []string{"123", "1234", "12"} {
		q := q
		add("req_url_regmatch", []string{`/s\?word=123`}, lit("/s?word=123"), func(s *reqSpec) { s.Path = "/s"; s.Query = []kv{{K: "word", V: q}} })
	}
	for _, ip := range []string{"10.0.0.0", "10.0.0.1", "10.0.0.5", "10.0.0.10", "10.0.0.11", "10.0.1.5", "2001::1"} {
		ip := ip
		add("req_cip_range", []string{"10.0.0.1", "10.0.0.10"}, nil, func(s *reqSpec) { s.Remote = ip })
		add("ses_sip_range", []string{"10.0.0.1", "10.0.0.10"}, nil, func(s *reqSpec) { s.Remote = ip })
		add("req_vip_range", []string{"10.0.0.1", "10.0.0.10"}, nil, func(s *reqSpec) { s.Vip = ip })
		add("ses_vip_range", []string{"10.0.0.1", "10.0.0.10"}, nil, func(s *reqSpec) { s.Vip = ip })
		add("req_vip_in", []string{"10.0.0.1|10.0.0.2"}, nil, func(s *reqSpec) { s.Vip = ip })
		add("req_cip_hash_in", []string{"100-200|1000-1000"}, nil, func(s *reqSpec) { s.Remote = ip })
	}
	add("req_vip_in", []string{"10.0.0.1|10.0.0.2"}, nil, func(s *reqSpec) {})
	for _, m := range []string{"GET", "POST", "PUT"} {
		m := m
		add("req_method_in", []string{"GET|POST"}, nil, func(s *reqSpec) { s.Method = m })
	}
	for _, tg := range [][]kv{{{K: "clientIP", V: "blocklist"}}, {{K: "clientIP", V: "allowlist"}}, {{K: "other", V: "blocklist"}}, nil} {
		tg := tg
		add("req_tag_match", []string{"clientIP", "blocklist"}, nil, func(s *reqSpec) { s.Tags = tg })
	}
	for _, ck := range [][]kv{{{K: "uid", V: "1"}}, {{K: "deviceid", V: "xTestId1"}}, {{K: "deviceid", V: "testid"}}, nil} {
		ck := ck
		add("req_cookie_key_in", []string{"uid|cid|uss"}, nil, func(s *reqSpec) { s.Cookies = ck })
		add("req_cookie_value_in", []string{"deviceid", "testid", "true"}, nil, func(s *reqSpec) { s.Cookies = ck })
		add("req_cookie_value_prefix_in", []string{"deviceid", "x", "true"}, nil, func(s *reqSpec) { s.Cookies = ck })
		add("req_cookie_value_suffix_in", []string{"deviceid", "1", "true"}, nil, func(s *reqSpec) { s.Cookies = ck })
		add("req_cookie_value_contain", []string{"deviceid", "test", "true"}, nil, func(s *reqSpec) { s.Cookies = ck })
		add("req_cookie_value_contain", []string{"deviceid", "test", "false"}, nil, func(s *reqSpec) { s.Cookies = ck })
		add("req_cookie_value_hash_in", []string{"uid", "100", "true"}, nil, func(s *reqSpec) { s.Cookies = ck })
	}
	for _, hs := range [][]kv{{{K: "Header-Test", V: "1"}}, {{K: "header-test", V: "1"}}, {{K: "Referer", V: "https://example.org/login"}},
		{{K: "Referer", V: "HTTPS://EXAMPLE.ORG/login/x"}}, {{K: "User-Agent", V: "Mozilla Firefox/2.0.4"}}, {{K: "X-Device-Id", V: "abc"}}, nil} {
		hs := hs
		add("req_header_key_in", []string{"Header-Test"}, nil, func(s *reqSpec) { s.Headers = hs })
		add("req_header_value_in", []string{"Referer", "https://example.org/login", "true"}, nil, func(s *reqSpec) { s.Headers = hs })
		add("req_header_value_prefix_in", []string{"Referer", "https://example.org", "true"}, nil, func(s *reqSpec) { s.Headers = hs })
		add("req_header_value_suffix_in", []string{"User-Agent", "2.0.4", "true"}, nil, func(s *reqSpec) { s.Headers = hs })
		add("req_header_value_contain", []string{"User-Agent", "Firefox|Chrome", "true"}, nil, func(s *reqSpec) { s.Headers = hs })
		add("req_header_value_hash_in", []string{"X-Device-Id", "100-200|400", "true"}, nil, func(s *reqSpec) { s.Headers = hs })
	}
	for _, r := range []*respSpec{nil, {Code: 200}, {Code: 500, Headers: []kv{{K: "X-Bfe-Debug", V: "1"}}}, {Code: 404, Headers: []kv{{K: "x-bfe-debug", V: "2"}}}} {
		r := r
		add("res_code_in", []string{"200|500"}, nil, func(s *reqSpec) { s.Resp = r })
		add("res_header_key_in", []string{"X-Bfe-Debug"}, nil, func(s *reqSpec) { s.Resp = r })
		add("res_header_value_in", []string{"X-Bfe-Debug", "1", "true"}, nil, func(s *reqSpec) { s.Resp = r })
	}
	for _, sn := range []string{"", "example.com", "example.net"} {
		sn := sn
		for _, sec := range []bool{false, true} {
			sec := sec
			tls := func(s *reqSpec) {
				s.Secure, s.SNI = sec, sn
				s.SesProto = "http"
				if sec {
					s.SesProto = "https"
					s.ClientAuth = sn != ""
					s.ClientCA = map[string]string{"example.com": "ca1", "example.net": "ca3"}[sn]
				}
			}
			add("ses_tls_sni_in", []string{"example.com|example.org"}, nil, tls)
			add("ses_tls_client_auth", nil, nil, tls)
			add("ses_tls_client_ca_in", []string{"ca1|ca2"}, nil, tls)
			add("req_proto_secure", nil, nil, tls)
			add("req_cip_trusted", nil, nil, func(s *reqSpec) { tls(s); s.Trusted = sec })
		}
	}
	for _, now := range []string{"20190204122959Z", "20190204123000Z", "20190204124500Z", "20190204124501Z", "20190204203000H", "20190204203000Z"} {
		now := now
		dbg := func(s *reqSpec) { s.Headers = []kv{{K: "X-Bfe-Debug-Time", V: now}} }
		add("bfe_time_range", []string{"20190204203000H", "20190204204500H"}, nil, dbg)
		add("bfe_periodic_time_range", []string{"203000H", "204500H", ""}, nil, dbg)
	}
	return out
}

func c18Replay(t *testing.T, rec *ev.Rec, path string) {
	b, err := os.ReadFile(path)
	if err != nil {
		t.Fatalf("replay: %v", err)
	}
	var f struct {
		Witness c18case `json:"witness"`
	}
	if err := json.Unmarshal(b, &f); err != nil || f.Witness.Call == nil || f.Witness.Spec == nil {
		t.Fatalf("replay: cannot decode %s: %v", path, err)
	}
	cs := f.Witness
	cs.Call.rx = cs.Regex
	c18Check(t, rec, &cs)
}

package cond

// Reference model of the condition DSL, transcribed from
// /repo/docs/en_us/condition/** (grammar page, naming-convention page and one
// page per primitive). It works on the request *specification* (what was put on
// the wire / into the session), never on bfe's parsed request, and shares no
// code with bfe_basic/condition.

import (
	"net/netip"
	"strings"

	"github.com/spaolacci/murmur3"
)

// ---------------------------------------------------------------------------
// catalogue of primitives (condition_primitive_index.md + pages; the few
// primitives that exist only in the code are marked doc=false and get the
// meaning of their name according to condition_naming_convention.md)

type primDoc struct {
	name string
	sig  string // one letter per parameter: S string, B boolean
	attr string // inspected attribute
	test string // in | prefix | suffix | contain | elem | regex | hash | iprange | ipin | bool | time | ptime | keyin | keyprefix | tag
	ci   string // "arg": last parameter; "fold": always case-insensitive; "exact"; "unspec": case variants are not judged
	doc  bool
}

var catalogue = []primDoc{
	{"default_t", "", "none", "true", "exact", false},
	{"req_cip_trusted", "", "trusted", "bool", "exact", true},
	{"req_vip_in", "S", "vip", "ipin", "exact", true},
	{"req_proto_match", "S", "proto", "in1", "unspec", false},
	{"req_proto_secure", "", "secure", "bool", "exact", true},
	{"req_host_in", "S", "host", "in", "fold", true},
	{"req_host_regmatch", "S", "host", "regex", "exact", false},
	{"req_host_tag_in", "S", "hosttag", "in", "unspec", false},
	{"req_host_suffix_in", "S", "host", "suffix", "unspec", false},
	{"req_path_in", "SB", "path", "in", "arg", true},
	{"req_path_prefix_in", "SB", "path", "prefix", "arg", true},
	{"req_path_suffix_in", "SB", "path", "suffix", "arg", true},
	{"req_path_contain", "SB", "path", "contain", "arg", true},
	{"req_path_regmatch", "S", "path", "regex", "exact", false},
	{"req_path_element_prefix_in", "SB", "path", "elem", "arg", true},
	{"req_query_key_prefix_in", "S", "query", "keyprefix", "exact", true},
	{"req_query_key_in", "S", "query", "keyin", "exact", true},
	{"req_query_exist", "", "query", "exist", "exact", false},
	{"req_query_value_in", "SSB", "queryval", "in", "arg", true},
	{"req_query_value_prefix_in", "SSB", "queryval", "prefix", "arg", true},
	{"req_query_value_suffix_in", "SSB", "queryval", "suffix", "arg", true},
	{"req_query_value_regmatch", "SS", "queryval", "regex", "exact", false},
	{"req_query_value_contain", "SSB", "queryval", "contain", "arg", false},
	{"req_query_value_hash_in", "SSB", "queryval", "hash", "arg", true},
	{"req_url_regmatch", "S", "url", "regex", "exact", true},
	{"req_cookie_key_in", "S", "cookie", "keyin", "exact", true},
	{"req_cookie_value_in", "SSB", "cookieval", "in", "arg", true},
	{"req_cookie_value_prefix_in", "SSB", "cookieval", "prefix", "arg", true},
	{"req_cookie_value_suffix_in", "SSB", "cookieval", "suffix", "arg", true},
	{"req_cookie_value_contain", "SSB", "cookieval", "contain1", "arg", true},
	{"req_cookie_value_hash_in", "SSB", "cookieval", "hash", "arg", true},
	{"req_port_in", "S", "port", "in", "exact", true},
	{"req_tag_match", "SS", "tag", "tag", "exact", true},
	{"req_ua_regmatch", "S", "ua", "regex", "exact", false},
	{"req_header_key_in", "S", "header", "keyin", "exact", true},
	{"req_header_value_in", "SSB", "headerval", "in", "arg", true},
	{"req_header_value_prefix_in", "SSB", "headerval", "prefix", "arg", true},
	{"req_header_value_suffix_in", "SSB", "headerval", "suffix", "arg", true},
	{"req_header_value_regmatch", "SS", "headerval", "regex", "exact", false},
	{"req_header_value_contain", "SSB", "headerval", "contain", "arg", true},
	{"req_header_value_hash_in", "SSB", "headerval", "hash", "arg", true},
	{"req_method_in", "S", "method", "in", "unspec", true},
	{"req_cip_range", "SS", "cip", "iprange", "exact", true},
	{"req_vip_range", "SS", "vip", "iprange", "exact", true},
	{"req_cip_hash_in", "S", "cip", "hash", "exact", true},
	{"res_code_in", "S", "rescode", "in", "exact", true},
	{"res_header_key_in", "S", "resheader", "keyin", "exact", true},
	{"res_header_value_in", "SSB", "resheaderval", "in", "arg", true},
	{"ses_vip_range", "SS", "vip", "iprange", "exact", true},
	{"ses_sip_range", "SS", "sip", "iprange", "exact", true},
	{"ses_tls_sni_in", "S", "sni", "in", "unspec", true},
	{"ses_tls_client_auth", "", "clientauth", "bool", "exact", true},
	{"ses_tls_client_ca_in", "S", "clientca", "in", "unspec", true},
	{"req_context_value_in", "SSB", "ctxval", "in", "arg", false},
	{"bfe_time_range", "SS", "time", "time", "exact", true},
	{"bfe_periodic_time_range", "SSS", "time", "ptime", "exact", true},
}

var catalogueByName = func() map[string]*primDoc {
	m := map[string]*primDoc{}
	for i := range catalogue {
		m[catalogue[i].name] = &catalogue[i]
	}
	return m
}()

// ---------------------------------------------------------------------------
// a primitive call

type pcall struct {
	Name string   `json:"name"`
	Args []string `json:"args"` // literal values; booleans as "true"/"false"
	rx   *rxNode  // regular expression argument (regmatch primitives)
}

// quoteArg renders a string literal of the DSL: "..." when possible, `...` when
// the value contains a backslash or a double quote (the docs recommend `` for
// regular expressions). Values never contain a back quote or a newline.
func quoteArg(v string) string {
	if strings.ContainsAny(v, "\\\"") {
		return "`" + v + "`"
	}
	return `"` + v + `"`
}

func (c *pcall) String() string {
	d := catalogueByName[c.Name]
	var b strings.Builder
	b.WriteString(c.Name)
	b.WriteByte('(')
	for i, a := range c.Args {
		if i > 0 {
			b.WriteString(", ")
		}
		if d != nil && i < len(d.sig) && d.sig[i] == 'B' {
			b.WriteString(a)
		} else {
			b.WriteString(quoteArg(a))
		}
	}
	b.WriteByte(')')
	return b.String()
}

// ---------------------------------------------------------------------------
// attributes of a request specification

func asciiLower(s string) string {
	b := []byte(s)
	for i, c := range b {
		if 'A' <= c && c <= 'Z' {
			b[i] = c + 32
		}
	}
	return string(b)
}

func hasLetter(s string) bool {
	for i := 0; i < len(s); i++ {
		c := s[i] | 0x20
		if 'a' <= c && c <= 'z' {
			return true
		}
	}
	return false
}

// hostPort splits the Host header of the spec. ok=false: no Host header.
func (s *reqSpec) hostPort() (host, port string, hasPort, ok bool) {
	if s.NoHost {
		return "", "", false, false
	}
	h := s.Host
	if i := strings.LastIndexByte(h, ':'); i >= 0 {
		return h[:i], h[i+1:], true, true
	}
	return h, "", false, true
}

// headerValues returns the values of request header `name` (field names are
// case-insensitive) in wire order.
func headerValues(hs []kv, name string) []string {
	var out []string
	for _, h := range hs {
		if strings.EqualFold(h.K, name) {
			out = append(out, h.V)
		}
	}
	return out
}

func kvValues(l []kv, key string) []string {
	var out []string
	for _, e := range l {
		if e.K == key {
			out = append(out, e.V)
		}
	}
	return out
}

func parseAddr(s string) (netip.Addr, bool) {
	a, err := netip.ParseAddr(s)
	if err != nil || a.Zone() != "" {
		return netip.Addr{}, false
	}
	return a.Unmap(), true
}

// clientIP: the peer address, or - when the peer is a trusted upstream proxy -
// the address that proxy reports (X-Real-Ip, else first element of
// X-Forwarded-For); absent when a trusted proxy reports nothing usable.
func (s *reqSpec) clientIP() (netip.Addr, bool) {
	if !s.Trusted {
		return parseAddr(s.Remote)
	}
	if v := headerValues(s.Headers, "X-Real-Ip"); len(v) > 0 && v[0] != "" {
		return parseAddr(v[0])
	}
	if v := headerValues(s.Headers, "X-Forwarded-For"); len(v) > 0 && v[0] != "" {
		first := strings.TrimSpace(strings.SplitN(v[0], ",", 2)[0])
		return parseAddr(first)
	}
	return netip.Addr{}, false
}

// ---------------------------------------------------------------------------
// string tests

func splitList(l string) []string { return strings.Split(l, "|") }

func strTest(test string, patterns []string, ci bool, v string) bool {
	if ci {
		v = asciiLower(v)
	}
	for _, p := range patterns {
		if ci {
			p = asciiLower(p)
		}
		switch test {
		case "in":
			if v == p {
				return true
			}
		case "prefix":
			if len(v) >= len(p) && v[:len(p)] == p {
				return true
			}
		case "suffix":
			if len(v) >= len(p) && v[len(v)-len(p):] == p {
				return true
			}
		case "contain":
			for i := 0; i+len(p) <= len(v); i++ {
				if v[i:i+len(p)] == p {
					return true
				}
			}
		case "elem":
			if elemPrefix(p, v) {
				return true
			}
		}
	}
	return false
}

// elemPrefix: the path elements of pattern (a trailing "/" is implied) are a
// prefix of the path elements of path: /a/b matches /a/b, /a/b/ and /a/b/c but
// not /a/bc.
func elemPrefix(pattern, path string) bool {
	pattern = strings.TrimSuffix(pattern, "/")
	pe := strings.Split(pattern, "/")
	ve := strings.Split(path, "/")
	if len(pe) > len(ve) {
		return false
	}
	for i := range pe {
		if pe[i] != ve[i] {
			return false
		}
	}
	return true
}

// hash buckets: "value after hash is 0..9999"; sections "n" or "a-b" (inclusive)
// joined by "|". The hash function itself (murmur3 64 of the - for
// case_insensitive lower-cased - text) is not under test.
func hashBucket(v string, ci bool) int {
	if ci {
		v = asciiLower(v)
	}
	return int(murmur3.Sum64([]byte(v)) % 10000)
}

func bucketIn(list string, b int) (in bool, valid bool) {
	for _, sec := range splitList(list) {
		lo, hi, ok := parseSection(sec)
		if !ok {
			return false, false
		}
		if lo <= b && b <= hi {
			in = true
		}
	}
	return in, true
}

func parseSection(sec string) (lo, hi int, ok bool) {
	parts := strings.Split(sec, "-")
	if len(parts) < 1 || len(parts) > 2 {
		return 0, 0, false
	}
	n := make([]int, len(parts))
	for i, p := range parts {
		if p == "" || len(p) > 4 {
			return 0, 0, false
		}
		for _, c := range p {
			if c < '0' || c > '9' {
				return 0, 0, false
			}
			n[i] = n[i]*10 + int(c-'0')
		}
	}
	lo, hi = n[0], n[0]
	if len(n) == 2 {
		hi = n[1]
	}
	return lo, hi, lo <= hi
}

// ---------------------------------------------------------------------------
// time (system/time.md): yyyymmddhhmmssZ and hhmmssZ with the military zone
// letters of appendix B

func zoneOffset(z byte) (int, bool) {
	switch {
	case z >= 'A' && z <= 'I':
		return int(z-'A'+1) * 3600, true
	case z >= 'K' && z <= 'M':
		return int(z-'K'+10) * 3600, true
	case z >= 'N' && z <= 'Y':
		return -int(z-'N'+1) * 3600, true
	case z == 'Z':
		return 0, true
	}
	return 0, false
}

func digits(s string) (int, bool) {
	n := 0
	if s == "" {
		return 0, false
	}
	for i := 0; i < len(s); i++ {
		if s[i] < '0' || s[i] > '9' {
			return 0, false
		}
		n = n*10 + int(s[i]-'0')
	}
	return n, true
}

func daysFromCivil(y, m, d int) int64 {
	if m <= 2 {
		y--
	}
	era := y / 400
	if y < 0 {
		era = (y - 399) / 400
	}
	yoe := y - era*400
	mp := (m + 9) % 12
	doy := (153*mp+2)/5 + d - 1
	doe := yoe*365 + yoe/4 - yoe/100 + doy
	return int64(era)*146097 + int64(doe) - 719468
}

func daysIn(y, m int) int {
	switch m {
	case 4, 6, 9, 11:
		return 30
	case 2:
		if y%4 == 0 && (y%100 != 0 || y%400 == 0) {
			return 29
		}
		return 28
	}
	return 31
}

// parseAbsTime returns the instant (unix seconds) of "yyyymmddhhmmssZ".
func parseAbsTime(s string) (int64, bool) {
	if len(s) != 15 {
		return 0, false
	}
	off, ok := zoneOffset(s[14])
	if !ok {
		return 0, false
	}
	y, ok1 := digits(s[0:4])
	mo, ok2 := digits(s[4:6])
	d, ok3 := digits(s[6:8])
	h, ok4 := digits(s[8:10])
	mi, ok5 := digits(s[10:12])
	sec, ok6 := digits(s[12:14])
	if !(ok1 && ok2 && ok3 && ok4 && ok5 && ok6) {
		return 0, false
	}
	if mo < 1 || mo > 12 || d < 1 || d > daysIn(y, mo) || h > 23 || mi > 59 || sec > 59 {
		return 0, false
	}
	return daysFromCivil(y, mo, d)*86400 + int64(h*3600+mi*60+sec) - int64(off), true
}

// parseDayTime returns seconds of day and zone offset of "hhmmssZ".
func parseDayTime(s string) (sod, off int, ok bool) {
	if len(s) != 7 {
		return 0, 0, false
	}
	off, ok = zoneOffset(s[6])
	if !ok {
		return 0, 0, false
	}
	h, ok1 := digits(s[0:2])
	mi, ok2 := digits(s[2:4])
	sec, ok3 := digits(s[4:6])
	if !(ok1 && ok2 && ok3) || h > 23 || mi > 59 || sec > 59 {
		return 0, 0, false
	}
	return h*3600 + mi*60 + sec, off, true
}

// ---------------------------------------------------------------------------
// verdict of one primitive call on one request specification

type verdict int

const (
	vFalse verdict = iota
	vTrue
	vUnspec // the documentation does not decide this case: not judged
)

func vb(b bool) verdict {
	if b {
		return vTrue
	}
	return vFalse
}

// anyAll: several candidate values (repeated key): judged only if they agree.
func anyAll(vals []string, f func(string) bool) verdict {
	if len(vals) == 0 {
		return vFalse // missing attribute
	}
	r := f(vals[0])
	for _, v := range vals[1:] {
		if f(v) != r {
			return vUnspec
		}
	}
	return vb(r)
}

func refEval(c *pcall, s *reqSpec) verdict {
	d := catalogueByName[c.Name]
	if d == nil || len(c.Args) != len(d.sig) {
		return vUnspec
	}
	ci := false
	switch d.ci {
	case "arg":
		ci = c.Args[len(c.Args)-1] == "true"
	case "fold":
		ci = true
	}
	// pattern argument: last string parameter
	pat := ""
	key := ""
	switch d.sig {
	case "S", "SB":
		pat = c.Args[0]
	case "SS", "SSB", "SSS":
		key, pat = c.Args[0], c.Args[1]
	}
	strJudge := func(v string) bool {
		switch d.test {
		case "regex":
			return c.rx.search(v)
		case "hash":
			in, _ := bucketIn(pat, hashBucket(v, ci))
			return in
		case "contain1":
			return strTest("contain", []string{pat}, ci, v)
		case "in1":
			return strTest("in", []string{pat}, ci, v)
		}
		return strTest(d.test, splitList(pat), ci, v)
	}
	// case variants of an attribute whose case handling is not documented
	unspecCase := func(v string) bool {
		if d.ci != "unspec" {
			return false
		}
		// would a case-insensitive comparison decide differently?
		var a, b bool
		if d.test == "in1" {
			a, b = strTest("in", []string{pat}, false, v), strTest("in", []string{pat}, true, v)
		} else {
			a, b = strTest(d.test, splitList(pat), false, v), strTest(d.test, splitList(pat), true, v)
		}
		return a != b
	}
	strAttr := func(vals []string) verdict {
		for _, v := range vals {
			if unspecCase(v) {
				return vUnspec
			}
		}
		if len(vals) == 0 && !d.doc && strJudge("") {
			// primitive without a documentation page, attribute missing, test
			// accepts "": only the general rule of the property would decide; not judged
			return vUnspec
		}
		return anyAll(vals, strJudge)
	}

	switch d.attr {
	case "none":
		return vTrue
	case "trusted":
		return vb(s.Trusted)
	case "secure":
		return vb(s.Secure)
	case "clientauth":
		return vb(s.Secure && !s.NoTlsState && s.ClientAuth)
	case "proto":
		if s.Secure {
			return strAttr([]string{s.SesProto})
		}
		return strAttr([]string{s.Version})
	case "host":
		h, _, _, ok := s.hostPort()
		if !ok {
			return vFalse
		}
		if h == "" {
			return vUnspec // empty Host header: present or missing? not decided by the docs
		}
		return strAttr([]string{h})
	case "port":
		_, p, has, ok := s.hostPort()
		if !ok {
			return vUnspec
		}
		if !has {
			if s.Secure {
				return vUnspec // default port of a TLS request is not documented
			}
			p = "80"
		}
		return strAttr([]string{p})
	case "hosttag":
		if s.HostTag == "" {
			return strAttr(nil)
		}
		return strAttr([]string{s.HostTag})
	case "path":
		return strAttr([]string{s.Path})
	case "url":
		return strAttr([]string{s.requestURI()})
	case "method":
		return strAttr([]string{s.Method})
	case "query":
		switch d.test {
		case "exist":
			return vb(len(s.Query) > 0)
		case "keyin":
			for _, q := range s.Query {
				if strTest("in", splitList(pat), false, q.K) {
					return vTrue
				}
			}
			return vFalse
		case "keyprefix":
			for _, q := range s.Query {
				if strTest("prefix", splitList(pat), false, q.K) {
					return vTrue
				}
			}
			return vFalse
		}
	case "queryval":
		return strAttr(kvValues(s.Query, key))
	case "cookie":
		for _, ck := range s.Cookies {
			if strTest("in", splitList(pat), false, ck.K) {
				return vTrue
			}
		}
		return vFalse
	case "cookieval":
		return strAttr(kvValues(s.Cookies, key))
	case "header", "resheader":
		hs := s.Headers
		if d.attr == "resheader" {
			if s.Resp == nil {
				return vFalse
			}
			hs = s.Resp.Headers
		}
		emptyOnly := false
		for _, k := range splitList(pat) {
			for _, v := range headerValues(hs, k) {
				if v != "" {
					return vTrue
				}
				emptyOnly = true
			}
		}
		if emptyOnly {
			// header present with an empty value: "present" or "missing" is not
			// decided by the docs
			return vUnspec
		}
		return vFalse
	case "headerval":
		return strAttr(headerValues(s.Headers, key))
	case "resheaderval":
		if s.Resp == nil {
			return vFalse
		}
		return strAttr(headerValues(s.Resp.Headers, key))
	case "ua":
		return strAttr(headerValues(s.Headers, "User-Agent"))
	case "rescode":
		if s.Resp == nil {
			return vFalse
		}
		return strAttr([]string{itoa(s.Resp.Code)})
	case "tag":
		// req_tag_match(tagName, tagValue): "match: exact match"
		for _, t := range s.Tags {
			if t.K == c.Args[0] && t.V == c.Args[1] {
				return vTrue
			}
		}
		return vFalse
	case "ctxval":
		return strAttr(kvValues(s.Context, key))
	case "sni":
		if !s.Secure || s.NoTlsState || s.SNI == "" {
			return vFalse
		}
		return strAttr([]string{s.SNI})
	case "clientca":
		if !s.Secure || s.NoTlsState || !s.ClientAuth || s.ClientCA == "" {
			return vFalse
		}
		return strAttr([]string{s.ClientCA})
	case "cip", "vip", "sip":
		var a netip.Addr
		var ok bool
		switch d.attr {
		case "cip":
			a, ok = s.clientIP()
		case "sip":
			a, ok = parseAddr(s.Remote)
		case "vip":
			if s.Vip != "" {
				a, ok = parseAddr(s.Vip)
			}
		}
		if !ok {
			return vFalse
		}
		switch d.test {
		case "ipin":
			for _, p := range splitList(pat) {
				if pa, ok := parseAddr(p); ok && pa == a {
					return vTrue
				}
			}
			return vFalse
		case "iprange":
			lo, ok1 := parseAddr(c.Args[0])
			hi, ok2 := parseAddr(c.Args[1])
			if !ok1 || !ok2 || lo.Is4() != hi.Is4() {
				return vUnspec
			}
			if lo.Is4() != a.Is4() {
				if !lo.Is4() {
					// IPv6 range that spans the IPv4-mapped block ::ffff:0:0/96
					// and an IPv4 address: not decided by the docs
					m := netip.AddrFrom16(a.As16())
					if lo.Compare(m) <= 0 && m.Compare(hi) <= 0 {
						return vUnspec
					}
				}
				return vFalse
			}
			return vb(lo.Compare(a) <= 0 && a.Compare(hi) <= 0)
		case "hash":
			in, _ := bucketIn(c.Args[0], hashBucket(a.String(), false))
			return vb(in)
		}
	case "time":
		tv := headerValues(s.Headers, "X-Bfe-Debug-Time")
		if len(tv) != 1 {
			return vUnspec // real clock: not used by the checks
		}
		now, ok := parseAbsTime(tv[0])
		if !ok {
			return vUnspec
		}
		switch d.test {
		case "time":
			lo, ok1 := parseAbsTime(c.Args[0])
			hi, ok2 := parseAbsTime(c.Args[1])
			if !ok1 || !ok2 {
				return vUnspec
			}
			return vb(lo <= now && now <= hi)
		case "ptime":
			lo, o1, ok1 := parseDayTime(c.Args[0])
			hi, o2, ok2 := parseDayTime(c.Args[1])
			if !ok1 || !ok2 || o1 != o2 {
				return vUnspec
			}
			sod := int(((now+int64(o1))%86400 + 86400) % 86400)
			return vb(lo <= sod && sod <= hi)
		}
	}
	return vUnspec
}

func itoa(n int) string {
	if n == 0 {
		return "0"
	}
	neg := n < 0
	if neg {
		n = -n
	}
	var b []byte
	for n > 0 {
		b = append([]byte{byte('0' + n%10)}, b...)
		n /= 10
	}
	if neg {
		return "-" + string(b)
	}
	return string(b)
}

// ---------------------------------------------------------------------------
// a small regular-expression engine for the subset the generator emits:
// alternation of branches; branch = [^] atoms [$]; atom = literal | . | [set]
// each optionally followed by ? * +. Unanchored search semantics.

type rxAtom struct {
	Kind byte   `json:"kind"` // 'l' literal, '.' any, '[' set
	Ch   byte   `json:"ch,omitempty"`
	Set  string `json:"set,omitempty"`
	Q    byte   `json:"q,omitempty"` // 0, '?', '*', '+'
}

type rxBranch struct {
	Bol   bool     `json:"bol,omitempty"`
	Eol   bool     `json:"eol,omitempty"`
	Atoms []rxAtom `json:"atoms"`
}

type rxNode struct {
	Branches []rxBranch `json:"branches"`
}

const rxMeta = `\.+*?()|[]{}^$`

func (n *rxNode) String() string {
	var b strings.Builder
	for i, br := range n.Branches {
		if i > 0 {
			b.WriteByte('|')
		}
		if br.Bol {
			b.WriteByte('^')
		}
		for _, a := range br.Atoms {
			switch a.Kind {
			case 'l':
				if strings.IndexByte(rxMeta, a.Ch) >= 0 {
					b.WriteByte('\\')
				}
				b.WriteByte(a.Ch)
			case '.':
				b.WriteByte('.')
			case '[':
				b.WriteByte('[')
				b.WriteString(a.Set)
				b.WriteByte(']')
			}
			if a.Q != 0 {
				b.WriteByte(a.Q)
			}
		}
		if br.Eol {
			b.WriteByte('$')
		}
	}
	return b.String()
}

func (a *rxAtom) one(c byte) bool {
	switch a.Kind {
	case 'l':
		return c == a.Ch
	case '.':
		return c != '\n'
	case '[':
		return strings.IndexByte(a.Set, c) >= 0
	}
	return false
}

func rxMatchHere(atoms []rxAtom, eol bool, s string) bool {
	if len(atoms) == 0 {
		return !eol || s == ""
	}
	a := &atoms[0]
	switch a.Q {
	case 0:
		return s != "" && a.one(s[0]) && rxMatchHere(atoms[1:], eol, s[1:])
	case '?':
		if s != "" && a.one(s[0]) && rxMatchHere(atoms[1:], eol, s[1:]) {
			return true
		}
		return rxMatchHere(atoms[1:], eol, s)
	case '*', '+':
		n := 0
		for n < len(s) && a.one(s[n]) {
			n++
		}
		min := 0
		if a.Q == '+' {
			min = 1
		}
		for k := n; k >= min; k-- {
			if rxMatchHere(atoms[1:], eol, s[k:]) {
				return true
			}
		}
		return false
	}
	return false
}

func (n *rxNode) search(s string) bool {
	if n == nil {
		return false
	}
	for _, br := range n.Branches {
		last := len(s)
		if br.Bol {
			last = 0
		}
		for st := 0; st <= last; st++ {
			if rxMatchHere(br.Atoms, br.Eol, s[st:]) {
				return true
			}
		}
	}
	return false
}

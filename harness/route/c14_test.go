package route

import (
	"fmt"
	"net"
	"strings"
	"testing"

	"github.com/bfenetworks/bfe/bfe_balance"
	"github.com/bfenetworks/bfe/bfe_route"
	"pgregory.net/rapid"

	"verif/harness/internal/ev"
)

// C14: configuration interpretation is deterministic.
// Metamorphic repetition: the same six files are loaded N times in one process (Go
// randomises map iteration per range statement, so order effects show within a process);
// every load must either be rejected, or all loads must give the same product, cluster,
// sub-cluster and backend for every probe of a fixed probe set.

type c14Case struct {
	Docs           [nFiles]obj
	Hist           [2]obj // gslb, cluster_table loaded before the final ones are reloaded over them
	HistKinds      [3]int
	StickyClusters []string
	Shapes         []string
	Probes         []c14Probe
}

type c14Probe struct {
	Method string `json:"method"`
	Host   string `json:"host"`
	Path   string `json:"path"`
	Vip    string `json:"vip"`
	Client string `json:"client"`
}

// c14Cluster: WRR balancing hashed by client IP (the only combination whose first decision
// on a freshly loaded table is not random by design).
func c14Cluster(sticky bool) obj {
	return obj{{"GslbBasic", obj{{"CrossRetry", 0}, {"RetryMax", 2}, {"BalanceMode", "WRR"}, {"HashConf", obj{{"HashStrategy", 1}, {"SessionSticky", sticky}}}}}}
}

var c14ClusterNames = []string{"k1", "k2", "k3"}

// c14Draws holds every random choice of a case, so that the same case can be built with and
// without its ambiguous shape.
type c14Draws struct {
	NProd   int
	Amb     int // -1 none, 0..5 ambiguous shape
	HostIdx int
	Mask    uint64
	Benign  [5]bool // exact dup, duplicate backend, many sub-clusters, basic-rule host case dup, host with :port
	// gslb weights: Single[i] = exactly one sub-cluster of cluster i has a positive weight (the others 0)
	Single  [3]bool
	KeepIdx [3]int
	// history: the gslb/cluster_table files loaded BEFORE the final ones are reloaded over them
	HistKind [3]int // 0 same members, other weights; 1 some members missing; 2 an extra member; 3 cluster missing
	HistDrop [3]int // bit j: sub-cluster j missing in the history (kind 1)
	HistW    [3][6]int
	Sticky   [3]bool // SessionSticky (backend chosen by hash over the address-sorted list: no run-time state)
	Default  bool
	BDup     int
	NSub     [3]int
	GW       [3][6]int
	NB       [3][6]int
	BW       [3][6][4]int
}

func drawC14(rt *rapid.T) c14Draws {
	var d c14Draws
	d.NProd = rapid.IntRange(2, 3).Draw(rt, "nprod")
	d.Amb = rapid.IntRange(-1, 5).Draw(rt, "ambiguous")
	d.HostIdx = rapid.IntRange(0, 2).Draw(rt, "hostidx")
	d.Mask = rapid.Uint64().Draw(rt, "casemask")
	for i := range d.Benign {
		// the two shapes that are documented load errors (same host twice, clashing basic rules) are kept rare
		if i == 0 || i == 3 {
			d.Benign[i] = rapid.IntRange(0, 11).Draw(rt, "benign") == 7
		} else if i == 4 {
			d.Benign[i] = rapid.IntRange(0, 3).Draw(rt, "benign") == 2
		} else {
			d.Benign[i] = rapid.IntRange(0, 2).Draw(rt, "benign") == 1
		}
	}
	d.Default = rapid.Bool().Draw(rt, "default")
	d.BDup = rapid.IntRange(0, 1).Draw(rt, "bdup")
	for i := 0; i < 3; i++ {
		d.Single[i] = rapid.IntRange(0, 2).Draw(rt, "single") == 1
		d.KeepIdx[i] = rapid.IntRange(0, 5).Draw(rt, "keepidx")
		// 4 = same members, in every sub-cluster the first backend (lowest address) replaced one-for-one
		d.HistKind[i] = []int{1, 0, 4, 2, 1, 3, 4}[rapid.IntRange(0, 6).Draw(rt, "histkind")]
		d.Sticky[i] = rapid.IntRange(0, 2).Draw(rt, "sticky") == 1
		d.HistDrop[i] = rapid.IntRange(1, 62).Draw(rt, "histdrop")
		d.NSub[i] = rapid.IntRange(3, 6).Draw(rt, "nsub")
		for j := 0; j < 6; j++ {
			d.GW[i][j] = rapid.IntRange(1, 50).Draw(rt, "gw")
			d.HistW[i][j] = rapid.IntRange(0, 50).Draw(rt, "histw")
			d.NB[i][j] = rapid.IntRange(1, 3).Draw(rt, "nb")
			for x := 0; x < 4; x++ {
				d.BW[i][j][x] = rapid.IntRange(1, 5).Draw(rt, "bw")
			}
		}
	}
	return d
}

var c14AmbNames = []string{"host-case-dup-two-products", "host-case-dup-one-product", "tag-under-two-products", "vip-under-two-products", "vip-two-spellings-two-products", "host-trailing-dot-dup-two-products"}

func buildC14(d c14Draws, withAmb bool) c14Case {
	var c c14Case
	shape := func(s string) { c.Shapes = append(c.Shapes, s) }
	type prod struct {
		name, dom, tag string
		hosts          []string
		tags           []string
		vips           []string
	}
	var ps []*prod
	for i := 1; i <= d.NProd; i++ {
		p := &prod{name: fmt.Sprintf("p%d", i), dom: fmt.Sprintf("p%d.com", i), tag: fmt.Sprintf("t%d", i)}
		p.hosts = []string{p.dom, "*." + p.dom, "www." + p.dom}
		p.tags = []string{p.tag}
		p.vips = []string{fmt.Sprintf("10.0.0.%d", i), fmt.Sprintf("2001:db8::%d", i)}
		ps = append(ps, p)
	}
	var probeHosts []string
	var probeVips []string
	a, b := ps[0], ps[1]
	extraHosts := obj{}
	amb := -1
	if withAmb {
		amb = d.Amb
	}
	caseVariant := func(h string) string {
		v := flipCase(h, d.Mask)
		if v == h {
			v = strings.ToUpper(h)
		}
		return v
	}
	// the probes are the same in both variants
	{
		h := a.hosts[d.HostIdx]
		probeHosts = append(probeHosts, strings.Replace(h, "*", "x", 1), strings.Replace(caseVariant(h), "*", "x", 1), a.dom, "y."+a.dom)
		probeVips = append(probeVips, a.vips[0], "2001:db8::1")
	}
	switch amb {
	case 0: // a host of product a listed again under product b, differing only in case
		b.hosts = append(b.hosts, caseVariant(a.hosts[d.HostIdx]))
	case 1: // same, but within one product and two tags
		t2 := a.tag + "b"
		a.tags = append(a.tags, t2)
		extraHosts = append(extraHosts, kv{t2, strs([]string{caseVariant(a.hosts[d.HostIdx])})})
	case 2: // a host tag listed under two products
		b.tags = append(b.tags, a.tag)
	case 3: // a VIP listed under two products (same text)
		b.vips = append(b.vips, a.vips[0])
	case 4: // a VIP listed under two products in two spellings of the same address
		b.vips = append(b.vips, "2001:DB8:0:0::1")
	case 5: // a host of product a listed again under product b as a fully qualified name (trailing dot)
		b.hosts = append(b.hosts, a.hosts[d.HostIdx]+".")
	}
	if amb >= 0 {
		shape(c14AmbNames[amb])
	}
	if d.Benign[0] { // exactly the same host string under two tags: documented to be rejected
		b.hosts = append(b.hosts, a.hosts[0])
		shape("host-exact-dup")
	}
	if d.Benign[1] {
		shape("duplicate-backend")
	}
	if d.Benign[2] {
		shape("many-subclusters")
	}
	if d.Benign[3] {
		shape("basic-rule-host-case-dup")
	}
	if d.Benign[4] {
		// a host entry carrying an explicit port: whatever it means, it must mean the same on every load
		b.hosts = append(b.hosts, caseVariant(a.hosts[d.HostIdx])+":8443")
		shape("host-with-port-two-products")
	}
	hasShape := func(s string) bool {
		for _, x := range c.Shapes {
			if x == s {
				return true
			}
		}
		return false
	}
	hosts, tags, vips := obj{}, obj{}, obj{}
	for _, p := range ps {
		hosts = append(hosts, kv{p.tag, strs(p.hosts)})
		tags = append(tags, kv{p.name, strs(p.tags)})
		vips = append(vips, kv{p.name, strs(p.vips)})
	}
	hosts = append(hosts, extraHosts...)
	hd := obj{{"Version", "v1"}}
	if d.Default {
		hd = append(hd, kv{"DefaultProduct", ps[len(ps)-1].name})
	}
	c.Docs[fHost] = append(hd, kv{"Hosts", hosts}, kv{"HostTags", tags})
	c.Docs[fVip] = obj{{"Version", "v1"}, {"Vips", vips}}
	// routes: every product sends its hosts to its own cluster, so that a product flip is visible as a cluster flip too
	basic, adv := obj{}, obj{}
	for i, p := range ps {
		k := c14ClusterNames[i%len(c14ClusterNames)]
		k2 := c14ClusterNames[(i+1)%len(c14ClusterNames)]
		rules := []basicRule{{Hosts: []string{"*." + p.dom}, Paths: []string{"/a/*"}, Cluster: k}, {Hosts: []string{"www." + p.dom}, Paths: []string{"/a/b", "/c"}, Cluster: k2}}
		if hasShape("basic-rule-host-case-dup") && i == 0 {
			// the same host condition in two spellings: the second rule either clashes (documented error) or merges
			rules = append(rules, basicRule{Hosts: []string{"WWW." + p.dom}, Paths: []string{[]string{"/a/b", "/d"}[d.BDup]}, Cluster: k})
		}
		basic = append(basic, kv{p.name, basicRulesDoc(rules)})
		adv = append(adv, kv{p.name, []any{obj{{"Cond", `req_method_in("POST")`}, {"ClusterName", k2}}, obj{{"Cond", "default_t()"}, {"ClusterName", k}}}})
	}
	c.Docs[fRoute] = obj{{"Version", "v1"}, {"BasicRule", basic}, {"ProductRule", adv}}
	cc := obj{}
	for i, k := range c14ClusterNames {
		cc = append(cc, kv{k, c14Cluster(d.Sticky[i])})
		if d.Sticky[i] {
			c.StickyClusters = append(c.StickyClusters, k)
			if !hasShape("session-sticky-cluster") {
				shape("session-sticky-cluster")
			}
		}
	}
	c.Docs[fCluster] = obj{{"Version", "v1"}, {"Config", cc}}
	gc, ct := obj{}, obj{}
	hgc, hct := obj{}, obj{} // history
	for i, k := range c14ClusterNames {
		ns := 2
		if hasShape("many-subclusters") {
			ns = d.NSub[i]
		}
		g, t := obj{}, obj{}
		hg, ht := obj{}, obj{}
		if d.Single[i] && !hasShape("single-available-subcluster") {
			shape("single-available-subcluster")
		}
		// sub-cluster names in a non-sorted file order
		for j := 0; j < ns; j++ {
			sub := fmt.Sprintf("%c-sub.%s", 'a'+byte((j*5+i)%7), k)
			w := d.GW[i][j]
			if d.Single[i] && j != d.KeepIdx[i]%ns {
				w = 0
			}
			g = append(g, kv{sub, w})
			var bl []any
			for x := 0; x < d.NB[i][j]; x++ {
				bl = append(bl, obj{{"Addr", fmt.Sprintf("10.%d.%d.%d", i, j, x)}, {"Name", fmt.Sprintf("b-%d-%d-%d", i, j, x)}, {"Port", 8000}, {"Weight", d.BW[i][j][x]}})
			}
			if hasShape("duplicate-backend") {
				bl = append(bl, obj{{"Addr", fmt.Sprintf("10.%d.%d.0", i, j)}, {"Name", fmt.Sprintf("b-%d-%d-dup", i, j)}, {"Port", 8000}, {"Weight", d.BW[i][j][3]}})
			}
			t = append(t, kv{sub, bl})
			// history of this sub-cluster
			missing := d.HistKind[i] == 1 && d.HistDrop[i]&(1<<uint(j)) != 0
			if !missing {
				hw := d.HistW[i][j]
				if d.HistKind[i] != 0 {
					hw = w
				}
				hg = append(hg, kv{sub, hw})
				hbl := bl
				if d.HistKind[i] == 4 {
					// the backend with the lowest address is new in the final files; the history had another
					// one (higher address) in its place
					hbl = append([]any{}, bl...)
					hbl[0] = obj{{"Addr", fmt.Sprintf("10.%d.%d.200", i, j)}, {"Name", fmt.Sprintf("b-%d-%d-old", i, j)}, {"Port", 8000}, {"Weight", d.BW[i][j][0]}}
				}
				ht = append(ht, kv{sub, hbl})
			}
		}
		if d.HistKind[i] == 2 || len(hg) == 0 {
			sub := fmt.Sprintf("d-old.%s", k) // sorts into the middle of the list
			hg = append(hg, kv{sub, 30})
			ht = append(ht, kv{sub, []any{obj{{"Addr", fmt.Sprintf("10.%d.99.1", i)}, {"Name", fmt.Sprintf("b-%d-old", i)}, {"Port", 8000}, {"Weight", 1}}}})
		}
		// a history with no positive weight cannot be loaded; give the last member one
		pos := false
		for _, e := range hg {
			if e.V.(int) > 0 {
				pos = true
			}
		}
		if !pos {
			hg[len(hg)-1].V = 7
		}
		gc = append(gc, kv{k, g})
		ct = append(ct, kv{k, t})
		if d.HistKind[i] != 3 {
			hgc = append(hgc, kv{k, hg})
			hct = append(hct, kv{k, ht})
		}
	}
	c.Docs[fGslb] = obj{{"Clusters", gc}, {"Hostname", "h"}, {"Ts", "2"}}
	c.Docs[fCTable] = obj{{"Config", ct}, {"Version", "v2"}}
	c.Hist[0] = obj{{"Clusters", hgc}, {"Hostname", "h"}, {"Ts", "1"}}
	c.Hist[1] = obj{{"Config", hct}, {"Version", "v1"}}
	c.HistKinds = d.HistKind
	// probes: fixed per case
	for _, p := range ps {
		probeHosts = append(probeHosts, p.dom, "www."+p.dom, "m."+p.dom)
	}
	probeHosts = append(uniq(probeHosts), "unknown.org")
	probeVips = append(uniq(probeVips), "", "10.0.0.2", "10.9.9.9")
	for i, h := range probeHosts {
		for j, v := range probeVips {
			if h != "unknown.org" && j > 0 {
				continue // the VIP only matters when the host does not resolve
			}
			c.Probes = append(c.Probes, c14Probe{Method: []string{"GET", "POST"}[(i+j)%2], Host: h, Path: []string{"/a/b", "/a/x", "/c", "/zzz"}[(i+j)%4], Vip: v,
				Client: fmt.Sprintf("192.168.%d.%d", i, j+1)})
		}
	}
	for i, p := range ps {
		for x := 0; x < 6; x++ {
			c.Probes = append(c.Probes, c14Probe{Method: "GET", Host: "www." + p.dom, Path: []string{"/a/b", "/zzz"}[x%2], Client: fmt.Sprintf("172.16.%d.%d", i, 3*x+1)})
		}
	}
	return c
}

// c14Interpret loads the files once and returns "REJECT" or the decisions for all probes.
func c14Interpret(dir string, paths [nFiles]string, probes []c14Probe, hist *[2]string) (string, *panicInfo) {
	var out string
	pi := try(func() {
		sdc, err := bfe_route.LoadServerDataConf(paths[fHost], paths[fVip], paths[fRoute], paths[fCluster])
		if err != nil {
			out = "REJECT(server-data)"
			return
		}
		bt := bfe_balance.NewBalTable(nil)
		if hist == nil {
			if err := bt.Init(paths[fGslb], paths[fCTable]); err != nil {
				out = "REJECT(bal-table)"
				return
			}
		} else {
			// start with the history files, then reload the final files over them the way
			// BfeServer.gslbDataConfReload does
			if err := bt.Init(hist[0], hist[1]); err != nil {
				out = "REJECT(history)"
				return
			}
			bt.SetGslbBasic(sdc.ClusterTable)
			bt.SetSlowStart(sdc.ClusterTable)
			// the server is in service between start and reload: serve the probe set once
			c14Serve(sdc, bt, probes)
			gslbConf, backendConf, err := bt.BalTableConfLoad(paths[fGslb], paths[fCTable])
			if err != nil {
				out = "REJECT(bal-table)"
				return
			}
			if err := bt.BalTableReload(gslbConf, backendConf); err != nil {
				out = "REJECT(bal-table)"
				return
			}
		}
		bt.SetGslbBasic(sdc.ClusterTable)
		bt.SetSlowStart(sdc.ClusterTable)
		out = c14Serve(sdc, bt, probes)
	})
	return out, pi
}

// c14Serve sends every probe through product lookup, cluster lookup and balancing and returns the decisions.
func c14Serve(sdc *bfe_route.ServerDataConf, bt *bfe_balance.BalTable, probes []c14Probe) string {
	var sb strings.Builder
	for _, p := range probes {
		var vip net.IP
		if p.Vip != "" {
			vip = net.ParseIP(p.Vip)
		}
		req := newReq(p.Method, p.Host, p.Path, vip, sdc)
		req.ClientAddr = &net.TCPAddr{IP: net.ParseIP(p.Client), Port: 1234}
		fmt.Fprintf(&sb, "%s %s%s vip=%s -> ", p.Method, p.Host, p.Path, p.Vip)
		if err := sdc.HostTable.LookupHostTagAndProduct(req); err != nil {
			sb.WriteString("no-product\n")
			continue
		}
		fmt.Fprintf(&sb, "product=%s ", req.Route.Product)
		if err := sdc.HostTable.LookupCluster(req); err != nil {
			sb.WriteString("no-cluster\n")
			continue
		}
		fmt.Fprintf(&sb, "cluster=%s ", req.Route.ClusterName)
		bal, err := bt.Lookup(req.Route.ClusterName)
		if err != nil {
			sb.WriteString("no-balancer\n")
			continue
		}
		be, err := bal.Balance(req)
		if err != nil {
			fmt.Fprintf(&sb, "sub=%s balance-error\n", req.Backend.SubclusterName)
			continue
		}
		// the decision is the address the request is sent to (two entries may carry the same address)
		fmt.Fprintf(&sb, "sub=%s backend=%s\n", req.Backend.SubclusterName, be.AddrInfo)
	}
	return sb.String()
}

func firstDiff(a, b string) string {
	la, lb := strings.Split(a, "\n"), strings.Split(b, "\n")
	for i := range la {
		if i >= len(lb) || la[i] != lb[i] {
			o := ""
			if i < len(lb) {
				o = lb[i]
			}
			return fmt.Sprintf("%q vs %q", la[i], o)
		}
	}
	return fmt.Sprintf("%q vs %q", a, b)
}

func c14Check(tb ev.TB, rec *ev.Rec, dir string, c *c14Case, nload int, ambiguous bool) {
	var paths [nFiles]string
	var fpv strings.Builder
	for i, o := range c.Docs {
		b := mustJSON(o)
		fpv.Write(b)
		paths[i] = writeFile(dir, fileNames[i], b)
	}
	cl := []string{}
	for _, s := range c.Shapes {
		cl = append(cl, "shape:"+s)
	}
	if len(c.Shapes) == 0 {
		cl = append(cl, "shape:none")
	}
	w := map[string]any{"shapes": c.Shapes}
	for i, o := range c.Docs {
		w[fileNames[i]] = o
	}
	first, pi := c14Interpret(dir, paths, c.Probes, nil)
	if pi != nil {
		rec.Case(fpv.String(), len(c.Shapes) > 0, cl...)
		rec.Fail(tb, "panic-"+pi.Site, w, "load/lookup panicked: %s", pi.Val)
		return
	}
	if strings.HasPrefix(first, "REJECT") {
		cl = append(cl, "first-load-rejected")
	} else {
		cl = append(cl, "first-load-accepted")
	}
	rec.Case(fpv.String(), len(c.Shapes) > 0, cl...)
	for n := 1; n < nload; n++ {
		again, pi := c14Interpret(dir, paths, c.Probes, nil)
		if pi != nil {
			rec.Fail(tb, "panic-"+pi.Site, w, "load/lookup panicked: %s", pi.Val)
			return
		}
		if again != first {
			// key: the suspicious shapes present (sorted), or which stage differs when there is none
			key := c14Key(c, ambiguous)
			w["load_1"], w["load_n"], w["n"] = first, again, n+1
			if !rec.Known(key) {
				// the code under test is what is nondeterministic here, so rapid may be unable to
				// reproduce the failure while shrinking ("flaky test"); say it on stdout in any case
				fmt.Printf("VIOLATION-CANDIDATE property=C14 key=%s: load #%d differs from load #1: %s\n", key, n+1, firstDiff(first, again))
			}
			rec.Fail(tb, key, w, "load #%d of the same files is interpreted differently from load #1: %s", n+1, firstDiff(first, again))
			return
		}
	}
	// reload count: the same final files reached through a reload over a different history must be
	// interpreted like a fresh load (no request is served in between, so no balancing state differs)
	if ambiguous || strings.HasPrefix(first, "REJECT") {
		return
	}
	hist := [2]string{writeFile(dir, "hist-gslb.data", mustJSON(c.Hist[0])), writeFile(dir, "hist-cluster_table.data", mustJSON(c.Hist[1]))}
	firstReloaded := ""
	for n := 0; n < nreload; n++ {
		again, pi := c14Interpret(dir, paths, c.Probes, &hist)
		if pi != nil {
			rec.Fail(tb, "panic-"+pi.Site, w, "load/reload/lookup panicked: %s", pi.Val)
			return
		}
		if again == "REJECT(history)" {
			rec.Class("history-rejected")
			return
		}
		if n == 0 {
			rec.Class("reload-over-history")
			for i, k := range c.HistKinds {
				rec.Class(fmt.Sprintf("history-kind-%d", k))
				_ = i
			}
		}
		// (i) reload count: product, cluster and sub-cluster must be those of a fresh load. The backend inside
		// the sub-cluster is not compared with the fresh load: its round-robin position is run-time state.
		if stripBackend(again) != stripBackend(first) {
			key := "reload-differs-from-fresh-load"
			w["fresh"], w["reloaded"], w["history_gslb"], w["history_cluster_table"] = first, again, c.Hist[0], c.Hist[1]
			d := firstDiff(stripBackend(first), stripBackend(again))
			if !rec.Known(key) {
				fmt.Printf("VIOLATION-CANDIDATE property=C14 key=%s: %s\n", key, d)
			}
			rec.Fail(tb, key, w, "the final files reloaded over a history (gslb %s) are interpreted differently from a fresh load of the same files: %s", string(mustJSON(c.Hist[0])), d)
			return
		}
		// (iii) clusters with SessionSticky choose the backend by hash over the address-sorted list, which is no
		// run-time state: there the backend must be that of a fresh load too
		if sf, sa := stickyLines(first, c.StickyClusters), stickyLines(again, c.StickyClusters); sf != sa {
			key := "reload-sticky-backend-differs-from-fresh-load"
			for _, sh := range c.Shapes {
				if sh == "duplicate-backend" {
					key += "-duplicate-backend"
				}
			}
			w["fresh"], w["reloaded"], w["history_gslb"], w["history_cluster_table"] = first, again, c.Hist[0], c.Hist[1]
			d := firstDiff(sf, sa)
			if !rec.Known(key) {
				fmt.Printf("VIOLATION-CANDIDATE property=C14 key=%s: %s\n", key, d)
			}
			if rec.Fail(tb, key, w, "session-sticky cluster: the final files reloaded over a history (cluster_table %s) choose another backend than a fresh load of the same files: %s", string(mustJSON(c.Hist[1])), d) {
				return
			}
			break
		}
		// (ii) map iteration order: the same history + reload, repeated, must give the same decisions, backend included
		if n == 0 {
			firstReloaded = again
		} else if again != firstReloaded {
			key := "reload-order-dependent-backend"
			w["reloaded_1"], w["reloaded_n"], w["history_gslb"], w["history_cluster_table"] = firstReloaded, again, c.Hist[0], c.Hist[1]
			d := firstDiff(firstReloaded, again)
			if !rec.Known(key) {
				fmt.Printf("VIOLATION-CANDIDATE property=C14 key=%s: %s\n", key, d)
			}
			if rec.Fail(tb, key, w, "the same history and reload repeated (#%d vs #1) give different decisions: %s", n+1, d) {
				return
			}
			break
		}
	}
}

// stickyLines keeps the signature lines of requests routed to one of the given clusters.
func stickyLines(sig string, clusters []string) string {
	var out []string
	for _, l := range strings.Split(sig, "\n") {
		for _, k := range clusters {
			if strings.Contains(l, " cluster="+k+" ") {
				out = append(out, l)
			}
		}
	}
	return strings.Join(out, "\n")
}

// stripBackend removes the backend part of every line of a load signature.
func stripBackend(sig string) string {
	lines := strings.Split(sig, "\n")
	for i, l := range lines {
		if j := strings.Index(l, " backend="); j >= 0 {
			lines[i] = l[:j]
		}
	}
	return strings.Join(lines, "\n")
}

const nreload = 4

// c14Key names a discrepancy by the ambiguous shape of the case, else by its other shapes.
func c14Key(c *c14Case, ambiguous bool) string {
	if ambiguous {
		return "order-dependent-" + c.Shapes[0]
	}
	var l []string
	for _, s := range c.Shapes {
		if s == "host-exact-dup" || s == "basic-rule-host-case-dup" || s == "host-with-port-two-products" || s == "duplicate-backend" {
			l = append(l, s)
		}
	}
	if len(l) == 0 {
		return "order-dependent-plain"
	}
	return "order-dependent-" + strings.Join(l, "+")
}

func TestC14(t *testing.T) {
	rec := ev.New("C14", "generated six-file sets (2-3 products with exact+wildcard hosts, two VIPs each, basic+advanced rules, 3 clusters with 2-6 sub-clusters listed in unsorted order, WRR hashed by client IP) carrying 0-3 suspicious shapes: host names differing only in case under two products / under two tags of one product, a host tag under two products, a VIP under two products (same text / two spellings), the same host twice, duplicate backends, many sub-clusters, basic-rule hosts differing only in case. Each set is loaded 24x (quick) through LoadServerDataConf + BalTable.Init and a fixed probe set is evaluated (product, cluster, sub-cluster, backend); all loads must agree or all must reject. non-trivial: >=1 suspicious shape; distinct by file contents")
	dir := workDir(t, "C14")
	nload := ev.N(24, 32)
	rapid.Check(t, func(rt *rapid.T) {
		d := drawC14(rt)
		// the case without its ambiguous shape must be deterministic in any event ...
		base := buildC14(d, false)
		c14Check(rt, rec, dir, &base, nload, false)
		// ... and with it, it must be deterministic or rejected
		if d.Amb >= 0 {
			c := buildC14(d, true)
			rec.Sample(map[string]any{"shapes": c.Shapes, "host_rule": c.Docs[fHost], "vip_rule": c.Docs[fVip]})
			c14Check(rt, rec, dir, &c, nload, true)
		}
	})
}

package route

import (
	"strings"
	"testing"

	"github.com/bfenetworks/bfe/bfe_config/bfe_route_conf/route_rule_conf"
	"github.com/bfenetworks/bfe/bfe_route"
	"pgregory.net/rapid"

	"verif/harness/internal/ev"
)

// C11: basic route rules follow the documented precedence (route.md "基础规则匹配顺序").
// Rule files use the documented syntax only: exact host, "*.x.y", "*"/omitted;
// exact path, "/p/*", "/*", "*"/omitted. Loaded by RouteConfLoad (Get on the tree)
// and by LoadServerDataConf (LookupCluster, for hosts carrying a port).

var (
	c11Clusters = []string{"c1", "c2", "c3", "c4", "c5", "c6"}
	pathElemsP  = []string{"a", "b", "interface", "d", "ab"}
)

func genPathCond(rt *rapid.T) string {
	n := rapid.IntRange(0, 3).Draw(rt, "pdepth")
	var els []string
	for i := 0; i < n; i++ {
		els = append(els, rapid.SampledFrom(pathElemsP).Draw(rt, "pel"))
	}
	base := "/" + strings.Join(els, "/")
	switch rapid.IntRange(0, 5).Draw(rt, "pkind") {
	case 0, 1: // prefix
		if n == 0 {
			return "/*"
		}
		return base + "/*"
	case 2:
		return "*"
	case 3:
		if n > 0 && rapid.IntRange(0, 3).Draw(rt, "pslash") == 0 {
			return base + "/" // exact path with a trailing slash
		}
	}
	return base
}

func genHostCond(rt *rapid.T) string {
	switch rapid.IntRange(0, 6).Draw(rt, "hkind") {
	case 0:
		return "*"
	case 1, 2:
		return maybeFlip(rt, "*."+genHost(rt, rapid.IntRange(1, 3).Draw(rt, "hwdepth"), "hw"), "hwc")
	default:
		return maybeFlip(rt, genHost(rt, rapid.IntRange(2, 4).Draw(rt, "hdepth"), "hx"), "hxc")
	}
}

// genBasicRules draws a rule list without duplicate (host, path) conditions
// (the loader documents those as an error; they are not part of this property).
func genBasicRules(rt *rapid.T, clusters []string, maxRules int, hostGen func(*rapid.T) string) []basicRule {
	n := rapid.IntRange(1, maxRules).Draw(rt, "nrules")
	used := map[string]bool{}
	var rules []basicRule
	for i := 0; i < n; i++ {
		var r basicRule
		nh := rapid.IntRange(0, 3).Draw(rt, "nh")
		np := rapid.IntRange(0, 3).Draw(rt, "np")
		if nh == 0 && np == 0 {
			np = 1
		}
		for j := 0; j < nh; j++ {
			r.Hosts = append(r.Hosts, hostGen(rt))
		}
		for j := 0; j < np; j++ {
			r.Paths = append(r.Paths, genPathCond(rt))
		}
		hk, pk := r.Hosts, r.Paths
		if len(hk) == 0 {
			hk = []string{"*"}
		}
		if len(pk) == 0 {
			pk = []string{"*"}
		}
		clash := false
		var keys []string
		seen := map[string]bool{}
		for _, h := range hk {
			for _, p := range pk {
				k := strings.ToLower(h) + " " + p
				if used[k] || seen[k] {
					clash = true
				}
				seen[k] = true
				keys = append(keys, k)
			}
		}
		if clash {
			continue
		}
		for _, k := range keys {
			used[k] = true
		}
		r.Cluster = rapid.SampledFrom(clusters).Draw(rt, "cluster")
		rules = append(rules, r)
	}
	return rules
}

func basicRulesDoc(rules []basicRule) []any {
	var out []any
	for _, r := range rules {
		o := obj{}
		if len(r.Hosts) > 0 {
			o = append(o, kv{"Hostname", strs(r.Hosts)})
		}
		if len(r.Paths) > 0 {
			o = append(o, kv{"Path", strs(r.Paths)})
		}
		o = append(o, kv{"ClusterName", r.Cluster})
		out = append(out, o)
	}
	return out
}

// genProbeHost derives a request host (no port) from the rules' host conditions.
func genProbeHost(rt *rapid.T, rules []basicRule) (string, string) {
	var conds []string
	for _, r := range rules {
		for _, h := range r.Hosts {
			if h != "*" {
				conds = append(conds, strings.ToLower(h))
			}
		}
	}
	if len(conds) == 0 || rapid.IntRange(0, 7).Draw(rt, "hpool") == 0 {
		return maybeFlip(rt, genHost(rt, rapid.IntRange(1, 4).Draw(rt, "phd"), "ph"), "phc"), "h-pool"
	}
	h := conds[rapid.IntRange(0, len(conds)-1).Draw(rt, "hidx")]
	class := "h-same"
	if strings.HasPrefix(h, "*.") {
		switch rapid.IntRange(0, 4).Draw(rt, "hwmut") {
		case 0:
			h, class = h[2:], "h-wild-zero"
		case 1:
			h, class = rapid.SampledFrom(subs).Draw(rt, "hl1")+"."+rapid.SampledFrom(subs).Draw(rt, "hl2")+h[1:], "h-wild-two"
		default:
			h, class = rapid.SampledFrom(subs).Draw(rt, "hl1")+h[1:], "h-wild-one"
		}
	} else {
		switch rapid.IntRange(0, 5).Draw(rt, "hemut") {
		case 0:
			h, class = rapid.SampledFrom(subs).Draw(rt, "hpre")+"."+h, "h-extra-label"
		case 1:
			if i := strings.IndexByte(h, '.'); i >= 0 {
				h, class = rapid.SampledFrom(subs).Draw(rt, "hsib")+h[i:], "h-sibling"
			}
		case 2:
			h, class = "x"+h, "h-glued"
		}
	}
	return maybeFlip(rt, h, "phc"), class
}

func genProbePath(rt *rapid.T, rules []basicRule) (string, string) {
	var conds []string
	for _, r := range rules {
		for _, p := range r.Paths {
			if p != "*" {
				conds = append(conds, p)
			}
		}
	}
	switch rapid.IntRange(0, 14).Draw(rt, "pspecial") {
	case 5:
		return "", "p-empty"
	case 9:
		return "/", "p-root"
	}
	if len(conds) == 0 || rapid.IntRange(0, 5).Draw(rt, "ppool") == 0 {
		n := rapid.IntRange(1, 4).Draw(rt, "ppd")
		var els []string
		for i := 0; i < n; i++ {
			els = append(els, rapid.SampledFrom(pathElemsP).Draw(rt, "ppel"))
		}
		return "/" + strings.Join(els, "/"), "p-pool"
	}
	p := conds[rapid.IntRange(0, len(conds)-1).Draw(rt, "pidx")]
	class := "p-same"
	if strings.HasSuffix(p, "/*") {
		p = p[:len(p)-1] // "/a/b/"
		switch rapid.IntRange(0, 4).Draw(rt, "pwmut") {
		case 0:
			class = "p-prefix-slash"
		case 1:
			if len(p) > 1 {
				p = p[:len(p)-1]
			}
			class = "p-prefix-noslash"
		case 2:
			if len(p) > 1 {
				p = p[:len(p)-1] + "x" // "/a/bx": not an element boundary
			} else {
				p = "/x"
			}
			class = "p-prefix-glued"
		default:
			p += rapid.SampledFrom(pathElemsP).Draw(rt, "pext")
			if rapid.Bool().Draw(rt, "pext2") {
				p += "/" + rapid.SampledFrom(pathElemsP).Draw(rt, "pext3")
			}
			class = "p-prefix-deeper"
		}
	} else {
		switch rapid.IntRange(0, 4).Draw(rt, "pemut") {
		case 0:
			if !strings.HasSuffix(p, "/") {
				p += "/"
				class = "p-exact+slash"
			}
		case 1:
			p = strings.TrimSuffix(p, "/") + "/" + rapid.SampledFrom(pathElemsP).Draw(rt, "pdeeper")
			class = "p-exact-deeper"
		case 2:
			if i := strings.LastIndexByte(p, '/'); i > 0 {
				p, class = p[:i], "p-exact-shallower"
			}
		}
	}
	return p, class
}

type c11Loaded struct {
	tree *route_rule_conf.BasicRouteRuleTree
	sdc  *bfe_route.ServerDataConf // nil when the full set was not loadable
}

const c11Product = "p"

func c11RouteDoc(rules []basicRule) obj {
	return obj{{"Version", "v1"}, {"BasicRule", obj{{c11Product, basicRulesDoc(rules)}}}}
}

// c11Load loads the rule file through RouteConfLoad and the surrounding documented set
// (product "p" is the default product, so every host resolves to it) through LoadServerDataConf.
func c11Load(dir string, rules []basicRule) (c11Loaded, error, *panicInfo) {
	var l c11Loaded
	rf := writeFile(dir, "route_rule.data", mustJSON(c11RouteDoc(rules)))
	var conf *route_rule_conf.RouteTableConf
	var err error
	if pi := try(func() { conf, err = route_rule_conf.RouteConfLoad(rf) }); pi != nil || err != nil {
		return l, err, pi
	}
	l.tree = conf.BasicRuleTree[c11Product]
	hf := writeFile(dir, "host_rule.data", mustJSON(obj{{"Version", "v1"}, {"DefaultProduct", c11Product},
		{"Hosts", obj{{"t", strs([]string{"unused.invalid"})}}}, {"HostTags", obj{{c11Product, strs([]string{"t"})}}}}))
	vf := writeFile(dir, "vip_rule.data", mustJSON(obj{{"Version", "v1"}, {"Vips", obj{}}}))
	cf := writeFile(dir, "cluster_conf.data", mustJSON(clusterConfFile(c11Clusters)))
	var sdc *bfe_route.ServerDataConf
	var err2 error
	if pi := try(func() { sdc, err2 = bfe_route.LoadServerDataConf(hf, vf, rf, cf) }); pi != nil {
		return l, nil, pi
	}
	if err2 == nil {
		l.sdc = sdc
	}
	return l, nil, nil
}

func c11CheckProbe(tb ev.TB, rec *ev.Rec, l c11Loaded, rules []basicRule, cfgFP, host, path string, classes ...string) {
	want := basicLookup(rules, host, path)
	nt := len(want.Classes) >= 2
	cl := append([]string{}, classes...)
	if want.Found {
		cl = append(cl, "hit-"+want.HostClass+"/"+want.PathClass)
	} else if want.HostClass != "" {
		cl = append(cl, "miss-in-"+want.HostClass)
		if want.NMatch > 0 {
			cl = append(cl, "miss-no-fallback") // another host class would have matched host+path
		}
	} else {
		cl = append(cl, "miss-no-host")
	}
	rec.Case(cfgFP+"|"+host+"|"+path, nt, cl...)
	w := map[string]any{"basic_rules": basicRulesDoc(rules), "host": host, "path": path, "want_found": want.Found, "want_cluster": want.Cluster,
		"want_host_class": want.HostClass, "want_path_class": want.PathClass}
	var got string
	var found bool
	if pi := try(func() { got, found = l.tree.Get(host, path) }); pi != nil {
		rec.Fail(tb, "get-panic-"+pi.Site, w, "BasicRouteRuleTree.Get(%q,%q) panicked: %s", host, path, pi.Val)
		return
	}
	w["got_found"], w["got_cluster"] = found, got
	if !c11Compare(tb, rec, w, want, found, got, "get", host, path) {
		return
	}
	// the same lookup through the request path of the server, host carrying a port
	if l.sdc != nil {
		hp := host + ports[(len(host)+len(path))%len(ports)]
		req := newReq("GET", hp, path, nil, l.sdc)
		var err error
		if pi := try(func() {
			if err = l.sdc.HostTable.LookupHostTagAndProduct(req); err == nil {
				err = l.sdc.HostTable.LookupCluster(req)
			}
		}); pi != nil {
			rec.Fail(tb, "lookup-panic-"+pi.Site, w, "LookupCluster panicked: %s", pi.Val)
			return
		}
		rec.Class("via-LookupCluster+port")
		w["req_host"] = hp
		found2 := err == nil
		wantLC := want
		if want.Found && want.Cluster == advancedMode {
			wantLC.Found = false // no advanced rules in this product: falls through to an error
		}
		c11Compare(tb, rec, w, wantLC, found2, req.Route.ClusterName, "port", hp, path)
	}
}

func c11Compare(tb ev.TB, rec *ev.Rec, w map[string]any, want basicVerdict, found bool, got string, via, host, path string) bool {
	switch {
	case want.Found && !found:
		rec.Fail(tb, via+"-missed-"+want.HostClass+"/"+want.PathClass, w, "%s: host %q path %q: want cluster %q (%s, %s), got no match", via, host, path, want.Cluster, want.HostClass, want.PathClass)
		return false
	case !want.Found && found:
		key := via + "-unexpected-hit"
		if want.HostClass != "" {
			key += "-after-" + want.HostClass + "-path-miss"
		}
		rec.Fail(tb, key, w, "%s: host %q path %q: want no match (host class %q), got cluster %q", via, host, path, want.HostClass, got)
		return false
	case want.Found && got != want.Cluster:
		rec.Fail(tb, via+"-wrong-rule-"+want.HostClass+"/"+want.PathClass, w, "%s: host %q path %q: want cluster %q (%s, %s), got %q", via, host, path, want.Cluster, want.HostClass, want.PathClass, got)
		return false
	}
	return true
}

// documented example tables of route.md as fixed regression inputs
func c11Fixed(t *testing.T, rec *ev.Rec, dir string) {
	type row struct {
		cond, req string
		match     bool
	}
	hostRows := []row{{"*", "www.test1.com", true}, {"", "www.test1.com", true}, {"*.test1.com", "host.test1.com", true},
		{"*.test1.com", "vip.host.test1.com", false}, {"*.test1.com", "example.com", false}, {"*.test1.com", "test1.com", false}}
	for _, r := range hostRows {
		rule := basicRule{Paths: []string{"*"}, Cluster: "c1"}
		if r.cond != "" {
			rule.Hosts = []string{r.cond}
		}
		rules := []basicRule{rule}
		l, err, pi := c11Load(dir, rules)
		if err != nil || pi != nil {
			rec.Fail(t, "documented-example-rejected", map[string]any{"rules": basicRulesDoc(rules)}, "documented host condition %q does not load: %v %v", r.cond, err, pi)
			continue
		}
		c11CheckProbe(t, rec, l, rules, "fixed-host-"+r.cond, r.req, "/x", "fixed")
		if v := basicLookup(rules, r.req, "/x"); v.Found != r.match {
			t.Fatalf("reference model disagrees with documented host table row %+v", r)
		}
	}
	pathRows := []row{{"*", "", true}, {"", "/", true}, {"*", "/a/b", true}, {"/", "", false}, {"/", "/", true}, {"/", "/a", false},
		{"/*", "", false}, {"/*", "/", true}, {"/*", "/a", true}, {"/*", "/a/b", true}, {"/*", "/a/", true},
		{"/a/b/*", "/a/b/c", true}, {"/a/b/*", "/a/b/c/d", true}, {"/a/b/*", "/a/b", true}, {"/a/b/*", "/a/c", false}, {"/a/b/*", "/a/", false}}
	for _, r := range pathRows {
		rule := basicRule{Hosts: []string{"www.test1.com"}, Cluster: "c2"}
		if r.cond != "" {
			rule.Paths = []string{r.cond}
		}
		rules := []basicRule{rule}
		l, err, pi := c11Load(dir, rules)
		if err != nil || pi != nil {
			rec.Fail(t, "documented-example-rejected", map[string]any{"rules": basicRulesDoc(rules)}, "documented path condition %q does not load: %v %v", r.cond, err, pi)
			continue
		}
		c11CheckProbe(t, rec, l, rules, "fixed-path-"+r.cond, "www.test1.com", r.req, "fixed")
		if v := basicLookup(rules, "www.test1.com", r.req); v.Found != r.match {
			t.Fatalf("reference model disagrees with documented path table row %+v", r)
		}
	}
	// every letter: a rule host in one case must match the request host in the other case (exact and wildcard)
	for c := 'a'; c <= 'z'; c++ {
		l := string(c)
		L := strings.ToUpper(l)
		rules := []basicRule{{Hosts: []string{"h" + l + "." + l + "x.com"}, Cluster: "c1"}, {Hosts: []string{"*.W" + L + "." + L + ".org"}, Cluster: "c2"}, {Hosts: []string{"*"}, Cluster: "c3"}}
		l2, err, pi := c11Load(dir, rules)
		if err != nil || pi != nil {
			rec.Fail(t, "documented-example-rejected", map[string]any{"rules": basicRulesDoc(rules)}, "alphabet sweep rules do not load: %v %v", err, pi)
			continue
		}
		c11CheckProbe(t, rec, l2, rules, "fixed-alpha-"+l, "H"+L+"."+L+"X.COM", "/", "fixed")
		c11CheckProbe(t, rec, l2, rules, "fixed-alpha-"+l, "a"+l+".w"+l+"."+l+".org", "/", "fixed")
	}
	// the four-rule example and the demo table
	ex := []basicRule{
		{Hosts: []string{"*.test1.com"}, Cluster: "c1"},
		{Hosts: []string{"*.b.test1.com"}, Paths: []string{"/interface/*"}, Cluster: "c2"},
		{Hosts: []string{"*.b.test1.com"}, Paths: []string{"/*"}, Cluster: "c1"},
		{Hosts: []string{"www.test1.com"}, Paths: []string{"/interface/d"}, Cluster: "c2"},
	}
	if l, err, pi := c11Load(dir, ex); err != nil || pi != nil {
		rec.Fail(t, "documented-example-rejected", map[string]any{"rules": basicRulesDoc(ex)}, "route.md four-rule example does not load: %v %v", err, pi)
	} else {
		if v := basicLookup(ex, "vip.b.test1.com", "/interface/d"); !v.Found || v.Cluster != "c2" {
			t.Fatalf("reference model disagrees with the route.md example: %+v", v)
		}
		for _, pr := range [][2]string{{"vip.b.test1.com", "/interface/d"}, {"www.test1.com", "/interface/d"}, {"www.test1.com", "/other"}, {"x.test1.com", ""}, {"a.vip.b.test1.com", "/"}} {
			c11CheckProbe(t, rec, l, ex, "fixed-example", pr[0], pr[1], "fixed")
		}
	}
	demo := []basicRule{
		{Hosts: []string{"www.a.com"}, Paths: []string{"/a/*"}, Cluster: "c1"},
		{Hosts: []string{"www.a.com"}, Paths: []string{"/a/b"}, Cluster: "c2"},
		{Hosts: []string{"*.a.com"}, Paths: []string{"*"}, Cluster: "c3"},
		{Hosts: []string{"www.c.com"}, Paths: []string{"*"}, Cluster: "c4"},
	}
	if l, err, pi := c11Load(dir, demo); err != nil || pi != nil {
		rec.Fail(t, "documented-example-rejected", map[string]any{"rules": basicRulesDoc(demo)}, "route.md demo table does not load: %v %v", err, pi)
	} else {
		for _, pr := range [][2]string{{"www.a.com", "/a/b"}, {"www.a.com", "/a/b/c"}, {"www.a.com", "/a"}, {"www.a.com", "/x"}, {"m.a.com", "/x"}, {"www.c.com", "/"}, {"a.com", "/"}} {
			c11CheckProbe(t, rec, l, demo, "fixed-demo", pr[0], pr[1], "fixed")
		}
	}
}

func TestC11(t *testing.T) {
	rec := ev.New("C11", "generated BasicRule files in documented syntax (exact / *.suffix / * hosts in mixed case, exact / prefix '/p/*' / * paths, multi-valued Hostname and Path lists, overlapping by construction from small pools) loaded by RouteConfLoad; probes (host, path) derived from the rules (wildcard instantiated with 0/1/2 labels, extra/sibling/glued labels, prefix with/without slash, deeper, glued, shallower, empty, '/'); every probe also goes through LoadServerDataConf + LookupCluster with a :port. non-trivial: the probe satisfies host+path conditions in >=2 different (host class, path class) combinations; distinct by (rule file, host, path)")
	dir := workDir(t, "C11")
	if !skipFixed {
		c11Fixed(t, rec, dir)
	}
	nprobe := 40
	rapid.Check(t, func(rt *rapid.T) {
		clusters := c11Clusters
		if rapid.IntRange(0, 5).Draw(rt, "withadv") == 0 {
			clusters = append(append([]string{}, c11Clusters...), advancedMode)
		}
		rules := genBasicRules(rt, clusters, 8, genHostCond)
		if len(rules) == 0 {
			rec.Excluded("all-rules-clashed")
			return
		}
		l, err, pi := c11Load(dir, rules)
		if pi != nil {
			rec.Fail(rt, "load-panic-"+pi.Site, map[string]any{"basic_rules": basicRulesDoc(rules)}, "loader panicked: %s", pi.Val)
			return
		}
		if err != nil {
			rec.Excluded("load-rejected")
			rec.Set("last_load_error", err.Error())
			return
		}
		if l.sdc == nil {
			rec.Class("full-set-not-loadable")
		}
		cfgFP := string(mustJSON(basicRulesDoc(rules)))
		rec.Sample(map[string]any{"basic_rules": basicRulesDoc(rules)})
		for i := 0; i < nprobe; i++ {
			host, hc := genProbeHost(rt, rules)
			path, pc := genProbePath(rt, rules)
			c11CheckProbe(rt, rec, l, rules, cfgFP, host, path, hc, pc)
		}
	})
}

package route

import (
	"encoding/json"
	"fmt"
	"os"
	"path/filepath"
	"strings"
	"sync"
	"testing"

	"github.com/bfenetworks/bfe/bfe_balance"
	"github.com/bfenetworks/bfe/bfe_config/bfe_cluster_conf/cluster_conf"
	"github.com/bfenetworks/bfe/bfe_config/bfe_cluster_conf/cluster_table_conf"
	"github.com/bfenetworks/bfe/bfe_config/bfe_cluster_conf/gslb_conf"
	"github.com/bfenetworks/bfe/bfe_config/bfe_route_conf/host_rule_conf"
	"github.com/bfenetworks/bfe/bfe_config/bfe_route_conf/route_rule_conf"
	"github.com/bfenetworks/bfe/bfe_config/bfe_route_conf/vip_rule_conf"
	"github.com/bfenetworks/bfe/bfe_route"
	"pgregory.net/rapid"

	"verif/harness/internal/ev"
)

// C13: documented configs load (a), loaded configs are closed (b), loaders never panic (c).

const (
	fHost = iota
	fVip
	fRoute
	fCluster
	fGslb
	fCTable
	nFiles
)

var fileNames = [nFiles]string{"host_rule.data", "vip_rule.data", "route_rule.data", "cluster_conf.data", "gslb.data", "cluster_table.data"}
var loaderNames = [nFiles]string{"host_rule", "vip_rule", "route_rule", "cluster_conf", "gslb", "cluster_table"}

func loadOne(i int, path string) error {
	var err error
	switch i {
	case fHost:
		_, err = host_rule_conf.HostRuleConfLoad(path)
	case fVip:
		_, err = vip_rule_conf.VipRuleConfLoad(path)
	case fRoute:
		_, err = route_rule_conf.RouteConfLoad(path)
	case fCluster:
		_, err = cluster_conf.ClusterConfLoad(path)
	case fGslb:
		_, err = gslb_conf.GslbConfLoad(path)
	case fCTable:
		_, err = cluster_table_conf.ClusterTableLoad(path)
	}
	return err
}

type docSet struct {
	Docs     [nFiles]obj
	Features []string // optional documented features used
	UsesAdv  bool     // a basic rule targets ADVANCED_MODE
	Dangling []string // closure violations planted by the generator
}

func (d *docSet) feat(f string) { d.Features = append(d.Features, f) }

func optInt(rt *rapid.T, d *docSet, o *obj, key string, vals ...int) {
	if rapid.Bool().Draw(rt, "opt-"+key) {
		*o = append(*o, kv{key, vals[rapid.IntRange(0, len(vals)-1).Draw(rt, "v-"+key)]})
		d.feat(key)
	}
}

func genClusterEntry(rt *rapid.T, d *docSet) obj {
	e := obj{}
	if rapid.IntRange(0, 3).Draw(rt, "has-backendconf") > 0 {
		b := obj{}
		if rapid.Bool().Draw(rt, "opt-protocol") {
			p := rapid.SampledFrom([]string{"http", "fcgi"}).Draw(rt, "protocol")
			b = append(b, kv{"Protocol", p})
			d.feat("Protocol-" + p)
			if p == "fcgi" && rapid.Bool().Draw(rt, "fcgiconf") {
				b = append(b, kv{"FCGIConf", obj{{"Root", "/home/work"}, {"EnvVars", obj{{"VarKey", "VarVal"}}}}})
				d.feat("FCGIConf")
			}
		}
		optInt(rt, d, &b, "TimeoutConnSrv", 2000, 1, 50)
		optInt(rt, d, &b, "TimeoutResponseHeader", 50000, 60000)
		optInt(rt, d, &b, "MaxIdleConnsPerHost", 0, 2, 100)
		optInt(rt, d, &b, "MaxConnsPerHost", 0, 10)
		optInt(rt, d, &b, "RetryLevel", 0, 1)
		if rapid.Bool().Draw(rt, "opt-outlier") {
			b = append(b, kv{"OutlierDetectionHttpCode", rapid.SampledFrom([]string{"", "500", "5xx", "5xx|400"}).Draw(rt, "outlier")})
			d.feat("OutlierDetectionHttpCode")
		}
		e = append(e, kv{"BackendConf", b})
	}
	if rapid.IntRange(0, 3).Draw(rt, "has-checkconf") > 0 {
		c := obj{}
		schem := "http"
		if rapid.Bool().Draw(rt, "opt-schem") {
			schem = rapid.SampledFrom([]string{"http", "tcp"}).Draw(rt, "schem")
			c = append(c, kv{"Schem", schem})
			d.feat("Schem-" + schem)
		}
		if rapid.Bool().Draw(rt, "opt-uri") {
			c = append(c, kv{"Uri", rapid.SampledFrom([]string{"/healthcheck", "/", "/health_check?x=1"}).Draw(rt, "uri")})
		}
		if rapid.Bool().Draw(rt, "opt-chost") {
			c = append(c, kv{"Host", "example.org"})
		}
		optInt(rt, d, &c, "StatusCode", 200, 0, 204, 404)
		optInt(rt, d, &c, "FailNum", 10, 5, 1)
		optInt(rt, d, &c, "SuccNum", 1, 3)
		optInt(rt, d, &c, "CheckTimeout", 0, 500)
		optInt(rt, d, &c, "CheckInterval", 1000, 1)
		e = append(e, kv{"CheckConf", c})
	}
	if rapid.IntRange(0, 3).Draw(rt, "has-gslbbasic") > 0 {
		g := obj{}
		optInt(rt, d, &g, "CrossRetry", 0, 1)
		optInt(rt, d, &g, "RetryMax", 2, 0, 3)
		if rapid.Bool().Draw(rt, "opt-balmode") {
			m := rapid.SampledFrom([]string{"WRR", "WLC"}).Draw(rt, "balmode")
			g = append(g, kv{"BalanceMode", m})
			d.feat("BalanceMode-" + m)
		}
		if rapid.Bool().Draw(rt, "opt-hashconf") {
			h := obj{}
			st := -1
			if rapid.Bool().Draw(rt, "opt-strategy") {
				st = rapid.IntRange(0, 2).Draw(rt, "strategy")
				h = append(h, kv{"HashStrategy", st})
				d.feat(fmt.Sprintf("HashStrategy-%d", st))
			}
			if st == 0 || st == 2 || rapid.Bool().Draw(rt, "opt-hashheader") {
				h = append(h, kv{"HashHeader", rapid.SampledFrom([]string{"Cookie:UID", "X-Client-Id"}).Draw(rt, "hashheader")})
			}
			if rapid.Bool().Draw(rt, "opt-sticky") {
				h = append(h, kv{"SessionSticky", rapid.Bool().Draw(rt, "sticky")})
			}
			g = append(g, kv{"HashConf", h})
		}
		e = append(e, kv{"GslbBasic", g})
	}
	if rapid.IntRange(0, 3).Draw(rt, "has-clusterbasic") > 0 {
		c := obj{}
		optInt(rt, d, &c, "TimeoutReadClient", 30000, 1)
		optInt(rt, d, &c, "TimeoutWriteClient", 60000)
		optInt(rt, d, &c, "TimeoutReadClientAgain", 30000, 60000)
		optInt(rt, d, &c, "ReqWriteBufferSize", 512, 0)
		optInt(rt, d, &c, "ReqFlushInterval", 0, 10)
		optInt(rt, d, &c, "ResFlushInterval", -1, 0, 20)
		if rapid.Bool().Draw(rt, "opt-cancel") {
			c = append(c, kv{"CancelOnClientClose", rapid.Bool().Draw(rt, "cancel")})
		}
		e = append(e, kv{"ClusterBasic", c})
	}
	return e
}

// genDocSet draws a consistent set of the six documented files; `dangle` plants closure violations.
func genDocSet(rt *rapid.T, dangle []string) *docSet {
	d := &docSet{Dangling: dangle}
	has := func(k string) bool {
		for _, x := range dangle {
			if x == k {
				return true
			}
		}
		return false
	}
	np := rapid.IntRange(1, 3).Draw(rt, "nprod")
	nc := rapid.IntRange(1, 4).Draw(rt, "nclusters")
	var products, clusters []string
	for i := 0; i < np; i++ {
		products = append(products, fmt.Sprintf("product_%d", i))
	}
	for i := 0; i < nc; i++ {
		clusters = append(clusters, fmt.Sprintf("cluster_%d", i))
	}
	// host_rule
	hosts, tags := obj{}, obj{}
	usedHost := map[string]bool{}
	for i, p := range products {
		nt := rapid.IntRange(1, 2).Draw(rt, "ntags")
		var tl []string
		for j := 0; j < nt; j++ {
			t := fmt.Sprintf("tag_%d_%d", i, j)
			tl = append(tl, t)
			var hl []string
			for k := rapid.IntRange(0, 2).Draw(rt, "nhosts"); k > 0; k-- {
				h := fmt.Sprintf("%s.p%d.%s", rapid.SampledFrom(subs).Draw(rt, "hl"), i, rapid.SampledFrom(tlds).Draw(rt, "ht"))
				if rapid.IntRange(0, 3).Draw(rt, "hwild") == 0 {
					h = fmt.Sprintf("*.t%d.p%d.com", j, i)
					d.feat("wildcard-host")
				}
				if !usedHost[h] {
					usedHost[h] = true
					hl = append(hl, h)
				}
			}
			hosts = append(hosts, kv{t, strs(hl)})
		}
		tags = append(tags, kv{p, strs(tl)})
	}
	hd := obj{{"Version", "20190101000000"}}
	switch dk := rapid.IntRange(0, 2).Draw(rt, "default"); {
	case has("default-product"):
		hd = append(hd, kv{"DefaultProduct", "ghost_product"})
	case dk == 0:
		hd = append(hd, kv{"DefaultProduct", nil})
	case dk == 1:
		hd = append(hd, kv{"DefaultProduct", pick(rt, products, "defprod")})
		d.feat("DefaultProduct")
	}
	d.Docs[fHost] = append(hd, kv{"Hosts", hosts}, kv{"HostTags", tags})
	// vip_rule
	vips := obj{}
	vi := 0
	for _, p := range products {
		if rapid.Bool().Draw(rt, "hasvip") {
			var l []string
			for k := rapid.IntRange(1, 2).Draw(rt, "nvips"); k > 0 && vi < len(vipPool); k-- {
				ip := spellVip(rt, vipPool[vi])
				if ip != vipPool[vi] {
					d.feat("vip-other-spelling")
				}
				l = append(l, ip)
				vi++
			}
			vips = append(vips, kv{p, strs(l)})
			d.feat("vips")
		}
	}
	if has("vip-product") {
		vips = append(vips, kv{"ghost_product", strs([]string{"10.77.0.1"})})
	}
	d.Docs[fVip] = obj{{"Version", "20190101000000"}, {"Vips", vips}}
	// route_rule
	basic, adv := obj{}, obj{}
	for i, p := range products {
		dom := fmt.Sprintf("p%d.com", i)
		if rapid.IntRange(0, 2).Draw(rt, "hasbasic") > 0 {
			cl := append([]string{}, clusters...)
			cl = append(cl, advancedMode)
			hostGen := func(rt *rapid.T) string {
				switch rapid.IntRange(0, 3).Draw(rt, "bh") {
				case 0:
					return "*"
				case 1:
					return "*." + dom
				default:
					return rapid.SampledFrom(subs).Draw(rt, "bhs") + "." + dom
				}
			}
			rules := genBasicRules(rt, cl, 4, hostGen)
			if len(rules) > 0 {
				for _, r := range rules {
					if r.Cluster == advancedMode {
						d.UsesAdv = true
						d.feat("basic->ADVANCED_MODE")
					}
				}
				basic = append(basic, kv{p, basicRulesDoc(rules)})
				d.feat("BasicRule")
			}
		}
		if rapid.IntRange(0, 3).Draw(rt, "hasadv") > 0 {
			var l []any
			for k := rapid.IntRange(1, 3).Draw(rt, "nadv"); k > 0; k-- {
				l = append(l, obj{{"Cond", genCond(rt).text()}, {"ClusterName", pick(rt, clusters, "advc")}})
			}
			adv = append(adv, kv{p, l})
		}
	}
	if has("basic-product") {
		basic = append(basic, kv{"ghost_product", []any{obj{{"Hostname", strs([]string{"ghost.com"})}, {"ClusterName", clusters[0]}}}})
	}
	if has("adv-product") {
		adv = append(adv, kv{"ghost_product", []any{obj{{"Cond", "default_t()"}, {"ClusterName", clusters[0]}}}})
	}
	if has("basic-cluster") {
		rule := obj{{"Hostname", strs([]string{"dangling.p0.com"})}, {"Path", strs([]string{"/dangling-basic"})}, {"ClusterName", "ghost_cluster"}}
		if i := indexKey(basic, products[0]); i >= 0 {
			basic[i].V = append(basic[i].V.([]any), rule)
		} else {
			basic = append(basic, kv{products[0], []any{rule}})
		}
	}
	if has("adv-cluster") {
		rule := obj{{"Cond", `req_path_in("/dangling-adv", false)`}, {"ClusterName", "ghost_cluster"}}
		if i := indexKey(adv, products[0]); i >= 0 {
			adv[i].V = append(adv[i].V.([]any), rule)
		} else {
			adv = append(adv, kv{products[0], []any{rule}})
		}
	}
	rd := obj{{"Version", "20190101000000"}}
	if len(basic) > 0 {
		rd = append(rd, kv{"BasicRule", basic})
	}
	if len(adv) > 0 || len(basic) == 0 {
		rd = append(rd, kv{"ProductRule", adv})
	}
	d.Docs[fRoute] = rd
	// cluster_conf
	cc := obj{}
	for _, c := range clusters {
		if rapid.IntRange(0, 4).Draw(rt, "docentry") == 0 {
			cc = append(cc, kv{c, docCluster()})
		} else {
			cc = append(cc, kv{c, genClusterEntry(rt, d)})
		}
	}
	d.Docs[fCluster] = obj{{"Version", "20190101000000"}, {"Config", cc}}
	// gslb + cluster_table
	gc, ct := obj{}, obj{}
	for i, c := range clusters {
		ns := rapid.IntRange(1, 3).Draw(rt, "nsub")
		g, t := obj{}, obj{}
		if rapid.Bool().Draw(rt, "blackhole") {
			g = append(g, kv{"GSLB_BLACKHOLE", 0})
			d.feat("GSLB_BLACKHOLE")
		}
		rest := 100
		for j := 0; j < ns; j++ {
			sub := fmt.Sprintf("sub%d.c%d", j, i)
			w := rest
			if j < ns-1 {
				w = rapid.IntRange(0, rest).Draw(rt, "gw")
			}
			rest -= w
			g = append(g, kv{sub, w})
			var bl []any
			for k := rapid.IntRange(1, 3).Draw(rt, "nbackend"); k > 0; k-- {
				bl = append(bl, obj{{"Addr", fmt.Sprintf("10.%d.%d.%d", i, j, k)}, {"Name", fmt.Sprintf("inst-%d-%d-%d", i, j, k)}, {"Port", 8000 + k}, {"Weight", rapid.IntRange(1, 10).Draw(rt, "bw")}})
			}
			t = append(t, kv{sub, bl})
		}
		gc = append(gc, kv{c, g})
		ct = append(ct, kv{c, t})
	}
	if has("gslb-cluster") {
		gc = append(gc, kv{"ghost_cluster", obj{{"sub0.ghost", 100}}})
	}
	d.Docs[fGslb] = obj{{"Clusters", gc}, {"Hostname", "gslb-sch.example.com"}, {"Ts", "20190101000000"}}
	d.Docs[fCTable] = obj{{"Config", ct}, {"Version", "20190101000000"}}
	return d
}

func indexKey(o obj, k string) int {
	for i, e := range o {
		if e.K == k {
			return i
		}
	}
	return -1
}

type setResult struct {
	single   [nFiles]error
	sdcErr   error
	balErr   error
	sdc      *bfe_route.ServerDataConf
	panicked *panicInfo
	where    string
}

// loadSet writes the six files and runs every loader the server runs on them.
func loadSet(dir string, docs [nFiles][]byte) setResult {
	var paths [nFiles]string
	for i := range docs {
		paths[i] = writeFile(dir, fileNames[i], docs[i])
	}
	return runLoaders(paths, -1)
}

// runLoaders runs the per-file loaders (all, or only file `only`) and the two combined loaders
// (only the one that reads file `only`, when given).
func runLoaders(paths [nFiles]string, only int) setResult {
	var r setResult
	for i := range paths {
		i := i
		if only >= 0 && i != only {
			continue
		}
		if pi := try(func() { r.single[i] = loadOne(i, paths[i]) }); pi != nil {
			r.panicked, r.where = pi, loaderNames[i]
			return r
		}
	}
	if only < 0 || only <= fCluster {
		if pi := try(func() {
			r.sdc, r.sdcErr = bfe_route.LoadServerDataConf(paths[fHost], paths[fVip], paths[fRoute], paths[fCluster])
		}); pi != nil {
			r.panicked, r.where = pi, "LoadServerDataConf"
			return r
		}
	}
	if only < 0 || only > fCluster {
		if pi := try(func() {
			bt := bfe_balance.NewBalTable(nil)
			r.balErr = bt.Init(paths[fGslb], paths[fCTable])
			if r.balErr == nil && r.sdc != nil {
				bt.SetGslbBasic(r.sdc.ClusterTable)
				bt.SetSlowStart(r.sdc.ClusterTable)
			}
		}); pi != nil {
			r.panicked, r.where = pi, "BalTable.Init"
		}
	}
	return r
}

func (d *docSet) bytes() [nFiles][]byte {
	var b [nFiles][]byte
	for i, o := range d.Docs {
		b[i] = mustJSON(o)
	}
	return b
}

func (d *docSet) witness() map[string]any {
	w := map[string]any{}
	for i, o := range d.Docs {
		w[fileNames[i]] = o
	}
	return w
}

// replaceAdvancedMode returns the route doc with every ADVANCED_MODE target replaced by a real cluster.
func replaceAdvancedMode(v any, with string) any {
	switch t := v.(type) {
	case obj:
		out := make(obj, len(t))
		for i, e := range t {
			if e.K == "ClusterName" && e.V == advancedMode {
				out[i] = kv{e.K, with}
			} else {
				out[i] = kv{e.K, replaceAdvancedMode(e.V, with)}
			}
		}
		return out
	case []any:
		out := make([]any, len(t))
		for i, e := range t {
			out[i] = replaceAdvancedMode(e, with)
		}
		return out
	}
	return v
}

func c13Positive(tb ev.TB, rec *ev.Rec, dir string, d *docSet, classes ...string) {
	docs := d.bytes()
	r := loadSet(dir, docs)
	fpv := string(docs[0]) + string(docs[1]) + string(docs[2]) + string(docs[3]) + string(docs[4]) + string(docs[5])
	cl := append([]string{"positive"}, classes...)
	for _, f := range uniq(d.Features) {
		cl = append(cl, "feature:"+f)
	}
	rec.Case("pos|"+fpv, len(d.Features) > 0, cl...)
	w := d.witness()
	if r.panicked != nil {
		rec.Fail(tb, "panic-"+r.panicked.Site, w, "%s panicked on a documented file: %s", r.where, r.panicked.Val)
		return
	}
	for i, err := range r.single {
		if err != nil {
			w["error"] = err.Error()
			rec.Fail(tb, "documented-rejected-"+loaderNames[i], w, "documented %s rejected: %v", fileNames[i], err)
			return
		}
	}
	if r.sdcErr != nil {
		w["error"] = r.sdcErr.Error()
		handled := false
		if d.UsesAdv {
			// is the ADVANCED_MODE target the discriminating feature?
			alt := docs
			alt[fRoute] = mustJSON(replaceAdvancedMode(d.Docs[fRoute], "cluster_0"))
			if r2 := loadSet(dir, alt); r2.panicked == nil && r2.sdcErr == nil {
				if rec.Fail(tb, "advanced-mode-basic-rule-rejected", w, "a server data set whose basic rules target ADVANCED_MODE is rejected (%v); the same set with a real cluster instead loads", r.sdcErr) {
					return
				}
				// known finding: go on with the rest of the set
				r, handled = r2, true
			}
		}
		if !handled {
			rec.Fail(tb, "documented-rejected-server-data-set", w, "documented host/vip/route/cluster_conf set rejected: %v", r.sdcErr)
			return
		}
	}
	if r.balErr != nil {
		w["error"] = r.balErr.Error()
		rec.Fail(tb, "documented-rejected-bal-table", w, "documented gslb/cluster_table pair rejected: %v", r.balErr)
	}
}

func c13Closure(tb ev.TB, rec *ev.Rec, dir string, d *docSet) {
	// no ADVANCED_MODE targets here, so that a rejection is attributable to the planted reference
	rd := d.Docs[fRoute]
	if i := indexKey(rd, "BasicRule"); i >= 0 {
		rd[i].V = replaceAdvancedMode(rd[i].V, "cluster_0")
	}
	d.UsesAdv = false
	for _, k := range d.Dangling {
		if k == "adv-cluster-ADVANCED_MODE" {
			// ADVANCED_MODE is only meaningful as the target of a BASIC rule; as the cluster of an
			// advanced rule it is just the name of a cluster that does not exist
			rule := obj{{"Cond", `req_path_in("/dangling-adv-mode", false)`}, {"ClusterName", advancedMode}}
			if i := indexKey(rd, "ProductRule"); i >= 0 {
				adv := rd[i].V.(obj)
				if j := indexKey(adv, "product_0"); j >= 0 {
					adv[j].V = append(adv[j].V.([]any), rule)
				} else {
					rd[i].V = append(adv, kv{"product_0", []any{rule}})
				}
			} else {
				rd = append(rd, kv{"ProductRule", obj{{"product_0", []any{rule}}}})
			}
		}
	}
	d.Docs[fRoute] = rd
	docs := d.bytes()
	r := loadSet(dir, docs)
	fpv := string(docs[0]) + string(docs[1]) + string(docs[2]) + string(docs[4])
	cl := []string{"closure"}
	for _, k := range d.Dangling {
		cl = append(cl, "dangling:"+k)
	}
	rec.Case("clo|"+fpv, true, cl...)
	w := d.witness()
	w["dangling"] = d.Dangling
	if r.panicked != nil {
		rec.Fail(tb, "panic-"+r.panicked.Site, w, "%s panicked: %s", r.where, r.panicked.Val)
		return
	}
	for _, k := range d.Dangling {
		accepted := false
		switch k {
		case "gslb-cluster":
			accepted = r.balErr == nil
		default:
			accepted = r.sdcErr == nil
		}
		if accepted {
			rec.Fail(tb, "dangling-"+k+"-accepted", w, "configuration set accepted although it references a non-existent name (%s)", k)
			return
		}
	}
}

// ---------- structural mutation ----------

type rawJSON = json.RawMessage

var wrongValues = []any{nil, "str", "", 12345, -1, 0, true, []any{}, obj{}, []any{nil}, obj{{"x", nil}}, []any{obj{}}, []any{[]any{}},
	rawJSON("1e30"), rawJSON("9223372036854775808"), rawJSON("-9223372036854775809"), rawJSON("1e400"), rawJSON("0.5"), "*", "ADVANCED_MODE"}

type mutation struct {
	op   string // drop | replace | dup | rename | insert-null
	val  any
	slot int
	path string
}

func countSlots(v any) int {
	n := 0
	switch t := v.(type) {
	case obj:
		for _, e := range t {
			n += 1 + countSlots(e.V)
		}
	case []any:
		for _, e := range t {
			n += 1 + countSlots(e)
		}
	}
	return n
}

func swapCase(s string) string {
	b := []byte(s)
	for i, c := range b {
		if c >= 'a' && c <= 'z' {
			b[i] = c - 32
		} else if c >= 'A' && c <= 'Z' {
			b[i] = c + 32
		}
	}
	return string(b)
}

func applyMutation(v any, m *mutation, left *int, prefix string) any {
	switch t := v.(type) {
	case obj:
		out := make(obj, 0, len(t)+1)
		for _, e := range t {
			if *left == 0 {
				*left = -1
				m.path = prefix + "/" + e.K
				switch m.op {
				case "drop":
				case "replace":
					out = append(out, kv{e.K, m.val})
				case "dup":
					out = append(out, e, kv{e.K, m.val})
				case "rename":
					out = append(out, kv{swapCase(e.K), e.V})
				default:
					out = append(out, kv{e.K, nil})
				}
				continue
			}
			if *left > 0 {
				*left--
			}
			out = append(out, kv{e.K, applyMutation(e.V, m, left, prefix+"/"+e.K)})
		}
		return out
	case []any:
		out := make([]any, 0, len(t)+1)
		for _, e := range t {
			if *left == 0 {
				*left = -1
				m.path = prefix + "[]"
				switch m.op {
				case "drop":
				case "replace":
					out = append(out, m.val)
				case "dup":
					out = append(out, e, e)
				default:
					out = append(out, e, nil)
				}
				continue
			}
			if *left > 0 {
				*left--
			}
			out = append(out, applyMutation(e, m, left, prefix+"[]"))
		}
		return out
	}
	return v
}

// pathPattern drops cluster/product specific key names from a mutation path.
func pathPattern(p string) string {
	parts := strings.Split(p, "/")
	for i, s := range parts {
		b := strings.TrimSuffix(s, "[]")
		if strings.ContainsAny(b, "_.0123456789") && !strings.HasPrefix(b, "GSLB") {
			parts[i] = "{k}" + s[len(b):]
		}
	}
	return strings.Join(parts, "/")
}

func c13Negative(rt *rapid.T, rec *ev.Rec, dir string) {
	d := genDocSet(rt, nil)
	which := rapid.IntRange(0, nFiles-1).Draw(rt, "file")
	docs := d.bytes()
	var desc string
	wellFormed := true
	if rapid.IntRange(0, 7).Draw(rt, "truncate") == 0 {
		full := docs[which]
		cut := rapid.IntRange(0, len(full)-1).Draw(rt, "cut")
		docs[which] = full[:cut]
		desc = "truncate"
		wellFormed = false
	} else {
		n := countSlots(d.Docs[which])
		m := &mutation{op: rapid.SampledFrom([]string{"drop", "replace", "replace", "replace", "dup", "rename", "insert-null"}).Draw(rt, "op"),
			val: wrongValues[rapid.IntRange(0, len(wrongValues)-1).Draw(rt, "val")], slot: rapid.IntRange(0, n-1).Draw(rt, "slot")}
		left := m.slot
		mut := applyMutation(d.Docs[which], m, &left, "")
		docs[which] = mustJSON(mut)
		vs := ""
		if m.op == "replace" || m.op == "dup" {
			vs = "=" + string(mustJSON(m.val))
		}
		desc = m.op + ":" + pathPattern(m.path) + vs
	}
	r := loadSet(dir, docs)
	rec.Case("neg|"+loaderNames[which]+"|"+string(docs[which]), wellFormed, "negative", "neg-file:"+loaderNames[which], "neg-op:"+strings.SplitN(desc, ":", 2)[0])
	accepted := r.single[which] == nil
	if r.panicked == nil {
		if accepted {
			rec.Class("neg-accepted")
		} else {
			rec.Class("neg-rejected")
		}
	}
	w := map[string]any{"file": fileNames[which], "mutation": desc, "content": string(docs[which])}
	if which <= fCluster {
		for i := 0; i <= fCluster; i++ {
			if i != which {
				w[fileNames[i]] = d.Docs[i]
			}
		}
	} else {
		w[fileNames[fGslb+fCTable-which]] = d.Docs[fGslb+fCTable-which]
	}
	if r.panicked != nil {
		rec.Fail(rt, "panic-"+r.panicked.Site, w, "%s panicked on mutated %s (%s): %s", r.where, fileNames[which], desc, r.panicked.Val)
		return
	}
	if !wellFormed && accepted {
		rec.Fail(rt, "truncated-accepted-"+loaderNames[which], w, "truncated %s (%d of %d bytes) accepted", fileNames[which], len(docs[which]), len(d.bytes()[which]))
	}
}

// ---------- malformed conditions ----------

// calls that contradict the documented prototype of the primitive (docs/en_us/condition/**)
var malformedCalls = []struct{ text, kind string }{
	{`req_path_in("/a")`, "too-few-args"},
	{`req_path_prefix_in("/a")`, "too-few-args"},
	{`req_host_in()`, "too-few-args"},
	{`req_method_in()`, "too-few-args"},
	{`req_vip_in()`, "too-few-args"},
	{`req_query_value_in("k")`, "too-few-args"},
	{`req_cookie_value_prefix_in("deviceid", "x")`, "too-few-args"},
	{`req_header_value_in("X-A")`, "too-few-args"},
	{`default_t("x")`, "too-many-args"},
	{`req_host_in("a.com", "b.com")`, "too-many-args"},
	{`req_path_in("/a", "yes")`, "wrong-arg-type"},
	{`req_path_in(true, false)`, "wrong-arg-type"},
	{`req_nonsense_in("a")`, "unknown-primitive"},
}

var condContexts = []struct {
	name string
	wrap func(x string) string
}{
	{"bare", func(x string) string { return x }},
	{"negated", func(x string) string { return "!" + x }},
	{"paren", func(x string) string { return "(" + x + ")" }},
	{"negated-paren", func(x string) string { return "!(" + x + ")" }},
	{"double-paren", func(x string) string { return "((" + x + "))" }},
	{"and-left", func(x string) string { return x + " && default_t()" }},
	{"or-right", func(x string) string { return `req_method_in("GET") || ` + x }},
	{"paren-or-and", func(x string) string { return `(req_host_in("a.com") || ` + x + `) && default_t()` }},
	{"negated-paren-and", func(x string) string { return `!(default_t() && ` + x + `)` }},
	{"and-paren-right", func(x string) string { return `default_t() && (` + x + `)` }},
}

// c13MalformedCond puts one malformed primitive call, wrapped in an expression context, into an otherwise
// documented route_rule.data: the loaders must reject the file with an error (no panic, no acceptance).
func c13MalformedCond(tb ev.TB, rec *ev.Rec, dir string, d *docSet, call, ctx int) {
	mc, cc := malformedCalls[call], condContexts[ctx]
	cond := cc.wrap(mc.text)
	rule := obj{{"Cond", cond}, {"ClusterName", "cluster_0"}}
	rd := d.Docs[fRoute]
	if i := indexKey(rd, "ProductRule"); i >= 0 {
		adv := rd[i].V.(obj)
		if j := indexKey(adv, "product_0"); j >= 0 {
			adv[j].V = append(append([]any{}, adv[j].V.([]any)...), rule)
		} else {
			rd[i].V = append(adv, kv{"product_0", []any{rule}})
		}
	} else {
		rd = append(rd, kv{"ProductRule", obj{{"product_0", []any{rule}}}})
	}
	d.Docs[fRoute] = rd
	docs := d.bytes()
	r := loadSet(dir, docs)
	rec.Case("badcond|"+cond+"|"+string(docs[fRoute]), true, "negative", "malformed-cond", "badcond:"+mc.kind, "badcond-context:"+cc.name)
	w := map[string]any{"cond": cond, "route_rule.data": d.Docs[fRoute]}
	if r.panicked != nil {
		rec.Fail(tb, "panic-"+r.panicked.Site, w, "%s panicked on condition %s: %s", r.where, cond, r.panicked.Val)
		return
	}
	if r.single[fRoute] == nil || r.sdcErr == nil {
		rec.Fail(tb, "malformed-cond-accepted-"+mc.kind+"-"+cc.name, w, "route_rule.data with the malformed condition %s is accepted", cond)
	}
}

// c13CondSweep: every malformed call in every context on a minimal documented set.
func c13CondSweep(t *testing.T, rec *ev.Rec, dir string) {
	for call := range malformedCalls {
		for ctx := range condContexts {
			d := &docSet{}
			d.Docs[fHost] = obj{{"Version", "1"}, {"Hosts", obj{{"t", strs([]string{"example.org"})}}}, {"HostTags", obj{{"product_0", strs([]string{"t"})}}}}
			d.Docs[fVip] = obj{{"Version", "1"}, {"Vips", obj{}}}
			d.Docs[fRoute] = obj{{"Version", "1"}, {"ProductRule", obj{{"product_0", []any{obj{{"Cond", "default_t()"}, {"ClusterName", "cluster_0"}}}}}}}
			d.Docs[fCluster] = clusterConfFile([]string{"cluster_0"})
			d.Docs[fGslb] = obj{{"Clusters", obj{{"cluster_0", obj{{"s", 100}}}}}, {"Hostname", "h"}, {"Ts", "1"}}
			d.Docs[fCTable] = obj{{"Config", obj{{"cluster_0", obj{{"s", []any{obj{{"Addr", "10.0.0.1"}, {"Name", "n"}, {"Port", 80}, {"Weight", 1}}}}}}}}, {"Version", "1"}}
			c13MalformedCond(t, rec, dir, d, call, ctx)
		}
	}
}

var danglingKinds = []string{"adv-product", "basic-product", "adv-cluster", "basic-cluster", "vip-product", "default-product", "gslb-cluster", "adv-cluster-ADVANCED_MODE"}

func TestC13(t *testing.T) {
	rec := ev.New("C13", "three generators over the six documented files (host_rule, vip_rule, route_rule incl. BasicRule with ADVANCED_MODE targets, cluster_conf with every documented optional field, gslb, cluster_table): (a) positive sets must load through each *Load function, LoadServerDataConf and BalTable.Init; (b) sets with one or two planted dangling references (product in route/vip/default not in host table, cluster in route not in cluster_conf, gslb cluster not in cluster_table) must be rejected; (c) one structural mutation (drop / wrong type / null / huge number / duplicate key / renamed key / inserted null element) or truncation of one file, all loaders run under recover. non-trivial: (a) >=1 optional documented feature used, (b) always, (c) mutation keeps the JSON well-formed; distinct by file contents")
	dir := workDir(t, "C13")
	if !skipFixed {
		c13FixedDocs(t, rec, dir)
		c13Hostile(t, rec, dir)
		c13CondSweep(t, rec, dir)
	}
	rapid.Check(t, func(rt *rapid.T) {
		switch k := rapid.IntRange(0, 9).Draw(rt, "generator"); {
		case k <= 2:
			d := genDocSet(rt, nil)
			rec.Sample(map[string]any{"generator": "positive", "route_rule": d.Docs[fRoute], "features": uniq(d.Features)})
			c13Positive(rt, rec, dir, d)
		case k <= 4:
			n := rapid.IntRange(1, 2).Draw(rt, "ndangling")
			var dk []string
			for i := 0; i < n; i++ {
				dk = append(dk, rapid.SampledFrom(danglingKinds).Draw(rt, "dangling"))
			}
			d := genDocSet(rt, uniq(dk))
			c13Closure(rt, rec, dir, d)
		case k == 5:
			d := genDocSet(rt, nil)
			c13MalformedCond(rt, rec, dir, d, rapid.IntRange(0, len(malformedCalls)-1).Draw(rt, "badcall"), rapid.IntRange(0, len(condContexts)-1).Draw(rt, "badctx"))
		default:
			c13Negative(rt, rec, dir)
		}
	})
}

// the examples printed in docs/en_us/configuration, verbatim in structure
func c13FixedDocs(t *testing.T, rec *ev.Rec, dir string) {
	d := &docSet{}
	d.Docs[fHost] = obj{{"Version", "20190101000000"}, {"DefaultProduct", nil}, {"Hosts", obj{{"exampleTag", strs([]string{"example.org"})}}}, {"HostTags", obj{{"example_product", strs([]string{"exampleTag"})}}}}
	d.Docs[fVip] = obj{{"Version", "20190101000000"}, {"Vips", obj{{"example_product", strs([]string{"111.111.111.111"})}}}}
	d.Docs[fRoute] = obj{{"Version", "20190101000000"}, {"ProductRule", obj{{"example_product", []any{
		obj{{"Cond", `req_host_in("example.org")`}, {"ClusterName", "cluster_example"}}, obj{{"Cond", "default_t()"}, {"ClusterName", "fcgi_cluster_example"}}}}}}}
	fcgi := docCluster()
	fcgi[0].V = obj{{"Protocol", "fcgi"}, {"TimeoutConnSrv", 2000}, {"TimeoutResponseHeader", 50000}, {"MaxIdleConnsPerHost", 0}, {"RetryLevel", 0},
		{"FCGIConf", obj{{"Root", "/home/work"}, {"EnvVars", obj{{"VarKey", "VarVal"}}}}}}
	d.Docs[fCluster] = obj{{"Version", "20190101000000"}, {"Config", obj{{"cluster_example", docCluster()}, {"fcgi_cluster_example", fcgi}}}}
	d.Docs[fGslb] = obj{{"Clusters", obj{{"cluster_example", obj{{"GSLB_BLACKHOLE", 0}, {"example.bfe.bj", 100}}}}}, {"Hostname", "gslb-sch.example.com"}, {"Ts", "20190101000000"}}
	d.Docs[fCTable] = obj{{"Config", obj{{"cluster_example", obj{{"example.bfe.bj", []any{obj{{"Addr", "10.199.189.26"}, {"Name", "example_hostname"}, {"Port", 10257}, {"Weight", 10}}}}}}}}, {"Version", "20190101000000"}}
	d.feat("doc-examples")
	c13Positive(t, rec, dir, d, "fixed")
	// route.md demo table: basic rules with an ADVANCED_MODE hand-over
	d2 := *d
	d2.UsesAdv = true
	d2.Features = []string{"basic->ADVANCED_MODE"}
	d2.Docs[fCluster] = clusterConfFile([]string{"cluster_0", "Demo-A", "Demo-B", "Demo-C", "Demo-D", "Demo-D1", "Demo-E"})
	d2.Docs[fHost] = obj{{"Version", "1"}, {"Hosts", obj{{"demoTag", strs([]string{"www.a.com", "*.a.com", "www.c.com"})}}}, {"HostTags", obj{{"demo", strs([]string{"demoTag"})}}}}
	d2.Docs[fVip] = obj{{"Version", "1"}, {"Vips", obj{}}}
	d2.Docs[fRoute] = obj{{"Version", "1"},
		{"BasicRule", obj{{"demo", []any{
			obj{{"Hostname", strs([]string{"www.a.com"})}, {"Path", strs([]string{"/a/*"})}, {"ClusterName", "Demo-A"}},
			obj{{"Hostname", strs([]string{"www.a.com"})}, {"Path", strs([]string{"/a/b"})}, {"ClusterName", "Demo-B"}},
			obj{{"Hostname", strs([]string{"*.a.com"})}, {"Path", strs([]string{"*"})}, {"ClusterName", "Demo-C"}},
			obj{{"Hostname", strs([]string{"www.c.com"})}, {"Path", strs([]string{"*"})}, {"ClusterName", advancedMode}}}}}},
		{"ProductRule", obj{{"demo", []any{
			obj{{"Cond", `req_host_in("www.c.com") && req_cookie_value_prefix_in("deviceid", "x", false)`}, {"ClusterName", "Demo-D1"}},
			obj{{"Cond", `req_host_in("www.c.com")`}, {"ClusterName", "Demo-D"}},
			obj{{"Cond", "default_t()"}, {"ClusterName", "Demo-E"}}}}}}}
	c13Positive(t, rec, dir, &d2, "fixed")
}

// hostile constants (the same as in corpus/FuzzC13): one file replaced, the other five valid
func c13Hostile(t *testing.T, rec *ev.Rec, dir string) {
	fuzzSetup()
	for _, h := range []struct {
		which int
		data  string
	}{
		{fCTable, `{"Version":"1","Config":{"c":{"s":[null]}}}`},
		{fCTable, `{"Version":"1","Config":{"c":{"s":null}}}`},
		{fCTable, `{"Version":"1","Config":{"c":null}}`},
		{fCluster, `null`},
		{fCluster, `{"Version":"1","Config":{"c":null}}`},
		{fCluster, `{"Version":"1","Config":{"c":{"GslbBasic":{"HashConf":null},"BackendConf":null}}}`},
		{fGslb, `{"Clusters":{"c":null},"Hostname":"h","Ts":"1"}`},
		{fGslb, `{"Clusters":null,"Hostname":"h","Ts":"1"}`},
		{fHost, `{"Version":"1","Hosts":{"t":null},"HostTags":{"p":null}}`},
		{fHost, `{"Version":"1","Hosts":{"t":[null]},"HostTags":{"p":[null,"t"]}}`},
		{fVip, `{"Version":"1","Vips":{"p":null}}`},
		{fVip, `{"Version":"1","Vips":{"p":["1.2.3.4.5",""]}}`},
		{fRoute, `{"Version":"1","BasicRule":{"p":[null]},"ProductRule":{"p":[null]}}`},
		{fRoute, `{"Version":"1","BasicRule":{"p":null},"ProductRule":null}`},
		{fRoute, `{"Version":"1","BasicRule":{"p":[{"Hostname":[null],"Path":[null],"ClusterName":"c"}]}}`},
		{fRoute, `{"Version":"1","ProductRule":{"p":[{"Cond":"req_host_in(","ClusterName":"c"}]}}`},
		{fCluster, strings.Repeat("[", 3000)},
	} {
		docs := fuzzBase
		docs[h.which] = []byte(h.data)
		r := loadSet(dir, docs)
		rec.Case("hostile|"+loaderNames[h.which]+"|"+h.data, true, "hostile-constant", "neg-file:"+loaderNames[h.which])
		if r.panicked != nil {
			c := h.data
			if len(c) > 200 {
				c = c[:200] + "..."
			}
			rec.Fail(t, "panic-"+r.panicked.Site, map[string]any{"file": fileNames[h.which], "content": c}, "%s panicked on %s = %s: %s", r.where, fileNames[h.which], c, r.panicked.Val)
		}
	}
}

// ---------- native fuzzing of the raw bytes of each loader (thorough tier) ----------

var fuzzDirOnce sync.Once
var fuzzDir string
var fuzzBase [nFiles][]byte
var fuzzPaths [nFiles]string

func fuzzSetup() {
	fuzzDirOnce.Do(func() {
		base := os.Getenv("VERIF_WORK")
		if base == "" {
			base = os.TempDir()
		}
		fuzzDir = filepath.Join(base, fmt.Sprintf("fuzzC13-%d", os.Getpid()))
		os.MkdirAll(fuzzDir, 0o755)
		d := &docSet{}
		d.Docs[fHost] = obj{{"Version", "1"}, {"DefaultProduct", "p"}, {"Hosts", obj{{"t", strs([]string{"example.org", "*.example.org"})}}}, {"HostTags", obj{{"p", strs([]string{"t"})}}}}
		d.Docs[fVip] = obj{{"Version", "1"}, {"Vips", obj{{"p", strs([]string{"111.111.111.111", "2001:db8::1"})}}}}
		d.Docs[fRoute] = obj{{"Version", "1"},
			{"BasicRule", obj{{"p", []any{obj{{"Hostname", strs([]string{"*.example.org"})}, {"Path", strs([]string{"/a/*", "/b"})}, {"ClusterName", "c"}}}}}},
			{"ProductRule", obj{{"p", []any{obj{{"Cond", `req_method_in("GET") && !req_path_prefix_in("/x", false)`}, {"ClusterName", "c"}}, obj{{"Cond", "default_t()"}, {"ClusterName", "c"}}}}}}}
		d.Docs[fCluster] = clusterConfFile([]string{"c"})
		d.Docs[fGslb] = obj{{"Clusters", obj{{"c", obj{{"GSLB_BLACKHOLE", 0}, {"s", 100}}}}}, {"Hostname", "h"}, {"Ts", "1"}}
		d.Docs[fCTable] = obj{{"Config", obj{{"c", obj{{"s", []any{obj{{"Addr", "10.0.0.1"}, {"Name", "n"}, {"Port", 80}, {"Weight", 1}}}}}}}}, {"Version", "1"}}
		fuzzBase = d.bytes()
		for i, b := range fuzzBase {
			fuzzPaths[i] = writeFile(fuzzDir, fileNames[i], b)
		}
	})
}

func FuzzC13(f *testing.F) {
	fuzzSetup()
	rec := ev.New("C13", "native fuzzing of raw bytes of each loader")
	for i, b := range fuzzBase {
		f.Add(byte(i), b)
	}
	f.Add(byte(fCTable), []byte(`{"Version":"1","Config":{"c":{"s":[null]}}}`))
	f.Add(byte(fCluster), []byte(`null`))
	f.Add(byte(fGslb), []byte(`{"Clusters":{"c":null},"Hostname":"h","Ts":"1"}`))
	f.Add(byte(fRoute), []byte(`{"Version":"1","BasicRule":{"p":[{"Hostname":["*"],"Path":["*"],"ClusterName":"ADVANCED_MODE"}]}}`))
	f.Fuzz(func(t *testing.T, which byte, data []byte) {
		i := int(which) % nFiles
		paths := fuzzPaths
		paths[i] = writeFile(fuzzDir, "fuzzed-"+fileNames[i], data)
		r := runLoaders(paths, i)
		rec.Case("", false, "fuzz-exec")
		if r.panicked != nil {
			w := map[string]any{"file": fileNames[i], "content": string(data)}
			rec.Fail(t, "panic-"+r.panicked.Site, w, "%s panicked on fuzzed %s: %s", r.where, fileNames[i], r.panicked.Val)
		}
	})
}

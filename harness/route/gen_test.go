package route

// Shared helpers of the route area: ordered JSON writer (configuration files are
// always written to disk and read back by the real bfe loaders), work directory,
// request construction (the way bfe_server builds a bfe_basic.Request), small
// name pools that force overlaps between generated rules, panic capture.

import (
	"bytes"
	"encoding/json"
	"fmt"
	"net"
	"net/url"
	"os"
	"path/filepath"
	"runtime/debug"
	"strings"
	"testing"
	"time"

	"github.com/bfenetworks/bfe/bfe_basic"
	"github.com/bfenetworks/bfe/bfe_http"
	"pgregory.net/rapid"
)

// ---------- ordered JSON ----------

type kv struct {
	K string
	V any
}

// obj is a JSON object with a fixed key order (duplicate keys possible).
type obj []kv

func (o obj) MarshalJSON() ([]byte, error) {
	var b bytes.Buffer
	b.WriteByte('{')
	for i, e := range o {
		if i > 0 {
			b.WriteByte(',')
		}
		k, _ := json.Marshal(e.K)
		b.Write(k)
		b.WriteByte(':')
		v, err := json.Marshal(e.V)
		if err != nil {
			return nil, err
		}
		b.Write(v)
	}
	b.WriteByte('}')
	return b.Bytes(), nil
}

func (o obj) get(k string) (any, bool) {
	for _, e := range o {
		if e.K == k {
			return e.V, true
		}
	}
	return nil, false
}

func mustJSON(v any) []byte {
	b, err := json.Marshal(v)
	if err != nil {
		panic(err)
	}
	return b
}

func strs(ss []string) []any {
	out := make([]any, len(ss))
	for i, s := range ss {
		out[i] = s
	}
	return out
}

// skipFixed (development aid for mutant testing): leave out the fixed regression inputs, so
// that a mutant has to be found by the generated cases.
var skipFixed = os.Getenv("VERIF_SKIP_FIXED") != ""

// ---------- files ----------

func workDir(t testing.TB, id string) string {
	base := os.Getenv("VERIF_WORK")
	if base == "" {
		base = t.TempDir()
	}
	d := filepath.Join(base, id)
	if err := os.MkdirAll(d, 0o755); err != nil {
		t.Fatalf("mkdir %s: %v", d, err)
	}
	return d
}

func writeFile(dir, name string, data []byte) string {
	p := filepath.Join(dir, name)
	if err := os.WriteFile(p, data, 0o644); err != nil {
		panic(err)
	}
	return p
}

// ---------- requests ----------

// newReq builds a request the way bfe_server/http_conn.go does: a parsed
// bfe_http.Request wrapped by bfe_basic.NewRequest with a session carrying the VIP.
func newReq(method, host, path string, vip net.IP, sdc bfe_basic.ServerDataConfInterface) *bfe_basic.Request {
	hr := &bfe_http.Request{
		Method:     method,
		URL:        &url.URL{Path: path},
		Proto:      "HTTP/1.1",
		ProtoMajor: 1,
		ProtoMinor: 1,
		Header:     make(bfe_http.Header),
		Host:       host,
		RequestURI: path,
	}
	sess := bfe_basic.NewSession(nil)
	sess.Vip = vip
	req := bfe_basic.NewRequest(hr, nil, bfe_basic.NewRequestStat(time.Now()), sess, sdc)
	req.ClientAddr = &net.TCPAddr{IP: net.IPv4(10, 1, 2, 3), Port: 40000}
	return req
}

// ---------- panic capture ----------

type panicInfo struct {
	Val   string
	Site  string // first bfe (or json-iterator) function on the panicking stack
	Stack string
}

func try(f func()) (pi *panicInfo) {
	defer func() {
		if r := recover(); r != nil {
			st := string(debug.Stack())
			pi = &panicInfo{Val: fmt.Sprint(r), Site: panicSite(st), Stack: st}
		}
	}()
	f()
	return nil
}

// panicSite returns the innermost function of bfe on the stack below the panic.
func panicSite(stack string) string {
	lines := strings.Split(stack, "\n")
	seenPanic := false
	for _, l := range lines {
		if strings.HasPrefix(l, "panic(") {
			seenPanic = true
			continue
		}
		if !seenPanic || strings.HasPrefix(l, "\t") {
			continue
		}
		if i := strings.Index(l, "github.com/bfenetworks/bfe/"); i >= 0 {
			fn := l[i+len("github.com/bfenetworks/bfe/"):]
			if j := strings.LastIndex(fn, "("); j > 0 {
				fn = fn[:j]
			}
			if j := strings.LastIndex(fn, "/"); j >= 0 {
				fn = fn[j+1:]
			}
			fn = strings.NewReplacer("(", "", ")", "", "*", "").Replace(fn)
			return fn
		}
	}
	return "unknown"
}

// ---------- name pools ----------

var (
	// the labels cover the ends of the alphabet (a, z), a digit and a hyphen: case-insensitive
	// comparison must hold for every letter and leave the other characters alone
	tlds = []string{"com", "org", "biz"}
	// ... and raw UTF-8 labels (an IDN written without punycode; bfe does not validate Host bytes) in pairs
	// that differ only in one multi-byte character
	slds    = []string{"a", "b", "test1", "zone-9", "例", "测"}
	subs    = []string{"www", "api", "m", "vip", "x", "quiz", "az", "müller", "möller"}
	ports   = []string{":80", ":8080", ":443", ":1"}
	vipPool = []string{"10.0.0.1", "10.0.0.2", "192.168.7.9", "111.111.111.111", "2001:db8::1", "2001:db8::2", "fe80::1"}
	// other valid spellings of the pool addresses (not what net.IP.String() prints)
	vipSpelling = map[string][]string{
		"10.0.0.1":    {"::ffff:10.0.0.1"},
		"2001:db8::1": {"2001:DB8:0:0::1", "2001:0db8:0000:0000:0000:0000:0000:0001"},
		"2001:db8::2": {"2001:DB8::2", "2001:db8:0:0:0:0:0:2"},
		"fe80::1":     {"FE80::1", "fe80:0::1"},
	}
)

// genHost draws a host name with `depth` labels (depth>=1) out of the small pools.
func genHost(rt *rapid.T, depth int, label string) string {
	var ls []string
	for i := depth; i > 2; i-- {
		ls = append(ls, rapid.SampledFrom(subs).Draw(rt, label+"-sub"))
	}
	if depth >= 2 {
		ls = append(ls, rapid.SampledFrom(slds).Draw(rt, label+"-sld"))
	}
	ls = append(ls, rapid.SampledFrom(tlds).Draw(rt, label+"-tld"))
	return strings.Join(ls, ".")
}

// flipCase upper-cases the letters selected by mask bits.
func flipCase(s string, mask uint64) string {
	b := []byte(s)
	for i := range b {
		if b[i] >= 'a' && b[i] <= 'z' && mask&(1<<(uint(i)%64)) != 0 {
			b[i] -= 'a' - 'A'
		}
	}
	return string(b)
}

func maybeFlip(rt *rapid.T, s string, label string) string {
	switch rapid.IntRange(0, 5).Draw(rt, label+"-casekind") {
	case 0:
		return strings.ToUpper(s)
	case 1:
		return flipCase(s, rapid.Uint64().Draw(rt, label+"-casemask"))
	}
	return s
}

// spellVip returns the pool address or one of its other spellings.
func spellVip(rt *rapid.T, ip string) string {
	if alts := vipSpelling[ip]; len(alts) > 0 {
		if k := rapid.IntRange(0, 2*len(alts)).Draw(rt, "vipspelling"); k >= 1 && k <= len(alts) {
			return alts[k-1]
		}
	}
	return ip
}

func pick[T any](rt *rapid.T, xs []T, label string) T {
	return xs[rapid.IntRange(0, len(xs)-1).Draw(rt, label)]
}

func uniq(ss []string) []string {
	seen := map[string]bool{}
	var out []string
	for _, s := range ss {
		if !seen[s] {
			seen[s] = true
			out = append(out, s)
		}
	}
	return out
}

// docCluster is the documented cluster_conf.data example entry (all four sections).
func docCluster() obj {
	return obj{
		{"BackendConf", obj{{"TimeoutConnSrv", 2000}, {"TimeoutResponseHeader", 50000}, {"MaxIdleConnsPerHost", 0}, {"RetryLevel", 0}}},
		{"CheckConf", obj{{"Schem", "http"}, {"Uri", "/healthcheck"}, {"Host", "example.org"}, {"StatusCode", 200}, {"FailNum", 10}, {"CheckInterval", 1000}}},
		{"GslbBasic", obj{{"CrossRetry", 0}, {"RetryMax", 2}, {"HashConf", obj{{"HashStrategy", 0}, {"HashHeader", "Cookie:UID"}, {"SessionSticky", false}}}}},
		{"ClusterBasic", obj{{"TimeoutReadClient", 30000}, {"TimeoutWriteClient", 60000}, {"TimeoutReadClientAgain", 30000}, {"ReqWriteBufferSize", 512}, {"ReqFlushInterval", 0}, {"ResFlushInterval", -1}, {"CancelOnClientClose", false}}},
	}
}

func clusterConfFile(names []string) obj {
	cfg := obj{}
	for _, n := range names {
		cfg = append(cfg, kv{n, docCluster()})
	}
	return obj{{"Version", "20190101000000"}, {"Config", cfg}}
}

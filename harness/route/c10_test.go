package route

import (
	"fmt"
	"net"
	"sort"
	"strings"
	"testing"

	"github.com/bfenetworks/bfe/bfe_route"
	"pgregory.net/rapid"

	"verif/harness/internal/ev"
)

// C10: host -> product resolution follows the host table.
// Configurations are generated files loaded by bfe_route.LoadServerDataConf;
// lookups go through HostTable.LookupHostTagAndProduct with requests built like
// bfe_server does. Oracle: hostModel.resolve (model_test.go).

type hostTableCase struct {
	Model   hostModel
	HostDoc obj
	VipDoc  obj
	// names for the fixed route/cluster files
	Products []string
}

// genHostTable draws an unambiguous host table (every lower-cased host once, every
// tag under one product, every VIP under one product - the ambiguous shapes belong to C14).
func genHostTable(rt *rapid.T) hostTableCase {
	nprod := rapid.IntRange(1, 4).Draw(rt, "nprod")
	var products []string
	for i := 0; i < nprod; i++ {
		products = append(products, fmt.Sprintf("prod%d", i))
	}
	// tags: 0..2 per product
	type tagT struct {
		name, product string
		hosts         []string
	}
	var tags []*tagT
	prodTags := map[string][]string{}
	for _, p := range products {
		n := rapid.IntRange(0, 2).Draw(rt, "ntags")
		for j := 0; j < n; j++ {
			t := &tagT{name: fmt.Sprintf("%s-tag%d", p, j), product: p}
			tags = append(tags, t)
			prodTags[p] = append(prodTags[p], t.name)
		}
	}
	var m hostModel
	used := map[string]bool{}
	if len(tags) > 0 {
		nhost := rapid.IntRange(0, 9).Draw(rt, "nhost")
		for i := 0; i < nhost; i++ {
			var h string
			if rapid.IntRange(0, 2).Draw(rt, "wild") == 0 {
				h = "*." + genHost(rt, rapid.IntRange(1, 3).Draw(rt, "wdepth"), "whost")
			} else {
				h = genHost(rt, rapid.IntRange(2, 4).Draw(rt, "depth"), "host")
			}
			if used[h] {
				continue
			}
			used[h] = true
			h = maybeFlip(rt, h, "cfg")
			t := tags[rapid.IntRange(0, len(tags)-1).Draw(rt, "tagidx")]
			t.hosts = append(t.hosts, h)
			m.Hosts = append(m.Hosts, hostEntry{Host: h, Tag: t.name, Product: t.product})
		}
	}
	hostsDoc := obj{}
	for _, t := range tags {
		hostsDoc = append(hostsDoc, kv{t.name, strs(t.hosts)})
	}
	tagsDoc := obj{}
	for _, p := range products {
		tagsDoc = append(tagsDoc, kv{p, strs(prodTags[p])})
	}
	hostDoc := obj{{"Version", "v1"}}
	switch rapid.IntRange(0, 3).Draw(rt, "defkind") {
	case 0:
		hostDoc = append(hostDoc, kv{"DefaultProduct", nil})
	case 1:
		// absent
	default:
		m.Default = products[rapid.IntRange(0, len(products)-1).Draw(rt, "defprod")]
		hostDoc = append(hostDoc, kv{"DefaultProduct", m.Default})
	}
	hostDoc = append(hostDoc, kv{"Hosts", hostsDoc}, kv{"HostTags", tagsDoc})

	// vips
	vipsDoc := obj{}
	usedVip := map[string]bool{}
	for _, p := range products {
		if len(prodTags[p]) == 0 {
			// a product without host tags does not count as defined for the cross-file checks
			// (ServerDataConf.check); keep VIPs on products that own a tag
			continue
		}
		n := rapid.IntRange(0, 2).Draw(rt, "nvip")
		var l []string
		for j := 0; j < n; j++ {
			ip := rapid.SampledFrom(vipPool).Draw(rt, "vip")
			if usedVip[ip] {
				continue
			}
			usedVip[ip] = true
			ip = spellVip(rt, ip)
			l = append(l, ip)
			m.Vips = append(m.Vips, vipEntry{IP: ip, Product: p})
		}
		if len(l) > 0 || rapid.Bool().Draw(rt, "emptyvips") {
			vipsDoc = append(vipsDoc, kv{p, strs(l)})
		}
	}
	vipDoc := obj{{"Version", "v1"}, {"Vips", vipsDoc}}
	return hostTableCase{Model: m, HostDoc: hostDoc, VipDoc: vipDoc, Products: products}
}

// simpleRouteDoc routes every product to cluster c0 by a default rule.
func simpleRouteDoc(products []string) obj {
	pr := obj{}
	for _, p := range products {
		pr = append(pr, kv{p, []any{obj{{"Cond", "default_t()"}, {"ClusterName", "c0"}}}})
	}
	return obj{{"Version", "v1"}, {"ProductRule", pr}}
}

// genReqHost derives a request host from the table entries.
func genReqHost(rt *rapid.T, m *hostModel) (string, string) {
	var base string
	class := "derived"
	if len(m.Hosts) > 0 && rapid.IntRange(0, 9).Draw(rt, "usebase") > 0 {
		base = strings.ToLower(m.Hosts[rapid.IntRange(0, len(m.Hosts)-1).Draw(rt, "baseidx")].Host)
	} else {
		base = genHost(rt, rapid.IntRange(1, 4).Draw(rt, "rdepth"), "rhost")
		class = "pool"
	}
	h := base
	if strings.HasPrefix(h, "*.") {
		switch rapid.IntRange(0, 4).Draw(rt, "wmut") {
		case 0: // suffix alone (no extra label)
			h = h[2:]
			class = "wild-zero-label"
		case 1, 2:
			h = rapid.SampledFrom(subs).Draw(rt, "l1") + h[1:]
			class = "wild-one-label"
		default:
			h = rapid.SampledFrom(subs).Draw(rt, "l1") + "." + rapid.SampledFrom(subs).Draw(rt, "l2") + h[1:]
			class = "wild-two-labels"
		}
	} else {
		switch rapid.IntRange(0, 6).Draw(rt, "emut") {
		case 0:
			h = rapid.SampledFrom(subs).Draw(rt, "pre") + "." + h
			class = "extra-label"
		case 1:
			if i := strings.IndexByte(h, '.'); i >= 0 {
				h = h[i+1:]
				class = "drop-label"
			}
		case 2:
			if i := strings.IndexByte(h, '.'); i >= 0 {
				h = rapid.SampledFrom(subs).Draw(rt, "sib") + h[i:]
				class = "sibling"
			}
		case 3:
			h = "x" + h // not a label boundary: "xwww.a.com" must not match "*.www.a.com"... nor "www.a.com"
			class = "glued-prefix"
		}
	}
	switch rapid.IntRange(0, 40).Draw(rt, "special") {
	case 13:
		return "", "empty-host"
	case 27:
		return "nomatch.invalid", "unrelated"
	}
	h = maybeFlip(rt, h, "req")
	if rapid.IntRange(0, 3).Draw(rt, "dot") == 0 {
		h += "."
		class += "+dot"
	}
	if rapid.IntRange(0, 2).Draw(rt, "port") == 0 {
		h += rapid.SampledFrom(ports).Draw(rt, "portv")
		class += "+port"
	}
	return h, class
}

func genVip(rt *rapid.T, m *hostModel) (net.IP, string) {
	switch k := rapid.IntRange(0, 4).Draw(rt, "vipkind"); {
	case k == 0:
		return nil, "vip-nil"
	case k <= 2 && len(m.Vips) > 0:
		e := m.Vips[rapid.IntRange(0, len(m.Vips)-1).Draw(rt, "vipidx")]
		return net.ParseIP(e.IP), "vip-known"
	default:
		return net.ParseIP(rapid.SampledFrom([]string{"10.9.9.9", "2001:db8::ffff", "10.0.0.1", "2001:db8::1"}).Draw(rt, "vipother")), "vip-other"
	}
}

func c10CheckProbe(tb ev.TB, rec *ev.Rec, sdc, accept *bfe_route.ServerDataConf, tc *hostTableCase, cfgFP string, host string, vip net.IP, classes ...string) {
	want := tc.Model.resolve(host, vip)
	req := newReq("GET", host, "/", vip, sdc)
	if accept != nil && vip != nil {
		// bfe_server/http_conn.go newConn(): the session remembers the product of the VIP according to the
		// table that was live when the connection was accepted; the request is resolved against `sdc`
		if p, err := accept.HostTable.LookupProductByVip(vip.String()); err == nil {
			req.Session.Product = p
			cfgFP += "|accept-product=" + p
		}
	}
	var err error
	pi := try(func() { err = sdc.HostTable.LookupHostTagAndProduct(req) })
	vs := ""
	if vip != nil {
		vs = vip.String()
	}
	w := map[string]any{"host_rule": tc.HostDoc, "vip_rule": tc.VipDoc, "req_host": host, "vip": vs, "session_product_at_accept": req.Session.Product,
		"want_stage": want.Stage, "want_product": want.Product, "got_product": req.Route.Product, "got_tag": req.Route.HostTag, "got_err": fmt.Sprint(err)}
	rec.Case(cfgFP+"|"+host+"|"+vs, want.NMatches >= 2, append(classes, "stage-"+want.Stage)...)
	if pi != nil {
		rec.Fail(tb, "lookup-panic-"+pi.Site, w, "LookupHostTagAndProduct panicked: %s", pi.Val)
		return
	}
	if sp := req.Session.Product; sp != "" && err == nil && req.Route.Product == sp && sp != want.Product {
		rec.Fail(tb, "accept-time-vip-product-used-want-"+want.Stage, w, "host %q vip %s: the product %q the VIP had when the connection was accepted was used; by the current tables the request resolves by %s to %q", host, vs, sp, want.Stage, want.Product)
		return
	}
	if want.Stage == stageNone {
		if err == nil {
			rec.Fail(tb, "no-product-accepted", w, "host %q vip %s: no table entry applies, but product %q was chosen", host, vs, req.Route.Product)
		} else if req.Route.Error == nil {
			rec.Fail(tb, "no-product-error-not-recorded", w, "host %q: error returned but req.Route.Error is nil", host)
		}
		return
	}
	if err != nil {
		rec.Fail(tb, "rejected-"+want.Stage, w, "host %q vip %s: want product %q by %s, got error %v", host, vs, want.Product, want.Stage, err)
		return
	}
	if req.Route.Product != want.Product {
		rec.Fail(tb, "wrong-product-"+want.Stage, w, "host %q vip %s: want product %q by %s, got %q", host, vs, want.Product, want.Stage, req.Route.Product)
		return
	}
	if (want.Stage == stageExact || want.Stage == stageWildcard) && req.Route.HostTag != want.Tag {
		rec.Fail(tb, "wrong-hosttag-"+want.Stage, w, "host %q: want host tag %q, got %q", host, want.Tag, req.Route.HostTag)
	}
}

// acceptVipDoc derives the VIP table that was live when a long-lived connection was accepted: every VIP of
// the current table belongs to the next tag-owning product (or is absent), and two VIPs unknown to the current
// table belong to a product.
func acceptVipDoc(tc *hostTableCase) obj {
	prods := productsWithTags(tc)
	if len(prods) == 0 {
		return nil
	}
	lists := map[string][]string{}
	for i, e := range tc.Model.Vips {
		if i%3 == 2 {
			continue
		}
		at := 0
		for j, p := range prods {
			if p == e.Product {
				at = j
			}
		}
		np := prods[(at+1)%len(prods)]
		lists[np] = append(lists[np], e.IP)
	}
	used := map[string]bool{}
	for _, e := range tc.Model.Vips {
		if ip := net.ParseIP(e.IP); ip != nil {
			used[ip.String()] = true
		}
	}
	for i, ip := range []string{"10.9.9.9", "2001:db8::ffff"} {
		if !used[ip] {
			np := prods[i%len(prods)]
			lists[np] = append(lists[np], ip)
		}
	}
	vips := obj{}
	for _, p := range prods {
		if len(lists[p]) > 0 {
			vips = append(vips, kv{p, strs(lists[p])})
		}
	}
	return obj{{"Version", "v0"}, {"Vips", vips}}
}

func c10Load(dir string, tc *hostTableCase) (*bfe_route.ServerDataConf, error, *panicInfo) {
	return c10LoadVip(dir, tc, tc.VipDoc)
}

func c10LoadVip(dir string, tc *hostTableCase, vipDoc obj) (*bfe_route.ServerDataConf, error, *panicInfo) {
	hf := writeFile(dir, "host_rule.data", mustJSON(tc.HostDoc))
	vf := writeFile(dir, "vip_rule.data", mustJSON(vipDoc))
	rf := writeFile(dir, "route_rule.data", mustJSON(simpleRouteDoc(productsWithTags(tc))))
	cf := writeFile(dir, "cluster_conf.data", mustJSON(clusterConfFile([]string{"c0"})))
	var sdc *bfe_route.ServerDataConf
	var err error
	pi := try(func() { sdc, err = bfe_route.LoadServerDataConf(hf, vf, rf, cf) })
	return sdc, err, pi
}

// productsWithTags: only products that own a host tag may appear in the route file
// (ServerDataConf.check looks products up among the host-tag owners).
func productsWithTags(tc *hostTableCase) []string {
	set := map[string]bool{}
	for _, e := range tc.HostDoc {
		if e.K == "HostTags" {
			for _, p := range e.V.(obj) {
				if len(p.V.([]any)) > 0 {
					set[p.K] = true
				}
			}
		}
	}
	var out []string
	for p := range set {
		out = append(out, p)
	}
	sort.Strings(out)
	return out
}

func TestC10(t *testing.T) {
	rec := ev.New("C10", "generated host_rule/vip_rule files (exact hosts and *.suffix at depth 1-3, mixed case, 1-4 products, optional default product, IPv4/IPv6 VIPs) loaded by LoadServerDataConf; request hosts derived from table entries (case flip, :port, trailing dot, extra/dropped/sibling label, glued prefix, unrelated, empty) x session VIP (nil/known/other). non-trivial: >=2 table entries (over the stages exact/wildcard/vip/default) apply to the request; distinct by (files, host, vip)")
	dir := workDir(t, "C10")
	nprobe := 30

	// fixed regression table: documented example + chain order
	if !skipFixed {
		tc := hostTableCase{
			Model: hostModel{
				Hosts: []hostEntry{{"example.org", "exampleTag", "example_product"}, {"*.example.org", "wildTag", "wild_product"}, {"*.b.example.org", "wildTag2", "wild2_product"}},
				Vips:  []vipEntry{{"111.111.111.111", "vip_product"}},
			},
			HostDoc: obj{{"Version", "20190101000000"}, {"DefaultProduct", nil},
				{"Hosts", obj{{"exampleTag", strs([]string{"example.org"})}, {"wildTag", strs([]string{"*.example.org"})}, {"wildTag2", strs([]string{"*.b.example.org"})}, {"vipTag", strs(nil)}}},
				{"HostTags", obj{{"example_product", strs([]string{"exampleTag"})}, {"wild_product", strs([]string{"wildTag"})}, {"wild2_product", strs([]string{"wildTag2"})}, {"vip_product", strs([]string{"vipTag"})}}}},
			VipDoc: obj{{"Version", "20190101000000"}, {"Vips", obj{{"vip_product", strs([]string{"111.111.111.111"})}}}},
		}
		sdc, err, pi := c10Load(dir, &tc)
		if pi != nil || err != nil {
			rec.Fail(t, "documented-example-rejected", map[string]any{"err": fmt.Sprint(err)}, "documented example host table does not load: %v %v", err, pi)
		} else {
			vip := net.ParseIP("111.111.111.111")
			for _, h := range []string{"example.org", "EXAMPLE.org:8080", "example.org.", "a.example.org", "a.b.example.org", "x.a.b.example.org", "b.example.org", "other.com", ""} {
				c10CheckProbe(t, rec, sdc, sdc, &tc, "fixed", h, vip, "fixed")
				c10CheckProbe(t, rec, sdc, nil, &tc, "fixed", h, nil, "fixed")
			}
		}
	}

	rapid.Check(t, func(rt *rapid.T) {
		tc := genHostTable(rt)
		sdc, err, pi := c10Load(dir, &tc)
		if pi != nil {
			rec.Fail(rt, "load-panic-"+pi.Site, map[string]any{"host_rule": tc.HostDoc, "vip_rule": tc.VipDoc}, "LoadServerDataConf panicked: %s", pi.Val)
			return
		}
		if err != nil {
			// acceptance of documented files is C13's subject; here such a table is outside the domain
			rec.Excluded("load-rejected")
			rec.Set("last_load_error", err.Error())
			return
		}
		cfgFP := string(mustJSON(tc.HostDoc)) + string(mustJSON(tc.VipDoc))
		rec.Sample(map[string]any{"host_rule": tc.HostDoc, "vip_rule": tc.VipDoc})
		// the table of the time the connection was accepted (before a reload of vip_rule.data)
		var sdcOld *bfe_route.ServerDataConf
		if av := acceptVipDoc(&tc); av != nil {
			if o, err, pi := c10LoadVip(dir, &tc, av); err == nil && pi == nil {
				sdcOld = o
			}
		}
		for i := 0; i < nprobe; i++ {
			host, hclass := genReqHost(rt, &tc.Model)
			vip, vclass := genVip(rt, &tc.Model)
			accept, aclass := sdc, "accepted-under-current-table"
			if k := rapid.IntRange(0, 2).Draw(rt, "acceptkind"); k == 1 && sdcOld != nil {
				accept, aclass = sdcOld, "accepted-under-older-vip-table"
			} else if k == 2 {
				accept, aclass = nil, "no-accept-time-product"
			}
			c10CheckProbe(rt, rec, sdc, accept, &tc, cfgFP, host, vip, hclass, vclass, aclass)
		}
	})
}

package route

import (
	"fmt"
	"strings"
	"testing"

	"github.com/bfenetworks/bfe/bfe_route"
	"pgregory.net/rapid"

	"verif/harness/internal/ev"
)

// C12: cluster lookup combines basic and advanced rules as documented.
// Products own the domain pN.com (host table: "pN.com", "*.pN.com"); every product may have
// basic rules (some targeting ADVANCED_MODE) and an ordered list of advanced rules whose
// conditions have a known truth value on the probe. The whole set goes through
// LoadServerDataConf; a request goes through LookupHostTagAndProduct + LookupCluster like in
// the server. Oracle: clusterLookup (model_test.go).

var (
	c12Clusters = []string{"k1", "k2", "k3", "k4", "k5"}
	c12Methods  = []string{"GET", "POST", "PUT", "DELETE"}
)

func genPrim(rt *rapid.T) cond {
	switch rapid.IntRange(0, 6).Draw(rt, "prim") {
	case 0:
		return cDefault{}
	case 1, 2:
		n := rapid.IntRange(1, 2).Draw(rt, "nm")
		var l []string
		for i := 0; i < n; i++ {
			l = append(l, rapid.SampledFrom(c12Methods).Draw(rt, "m"))
		}
		return cMethod{uniq(l)}
	case 3:
		return cPathIn{[]string{genConcretePath(rt)}}
	default:
		n := rapid.IntRange(1, 2).Draw(rt, "npp")
		var l []string
		for i := 0; i < n; i++ {
			l = append(l, genConcretePath(rt))
		}
		return cPathPrefix{uniq(l)}
	}
}

func genConcretePath(rt *rapid.T) string {
	n := rapid.IntRange(1, 3).Draw(rt, "cpd")
	var els []string
	for i := 0; i < n; i++ {
		els = append(els, rapid.SampledFrom(pathElemsP).Draw(rt, "cpel"))
	}
	return "/" + strings.Join(els, "/")
}

// genCond: a primitive, its negation, one binary operator, or a parenthesised
// disjunction inside a conjunction (operator precedence itself is C16's subject,
// so && and || are never mixed without parentheses).
func genCond(rt *rapid.T) cond {
	switch rapid.IntRange(0, 7).Draw(rt, "shape") {
	case 0:
		return cNot{genPrim(rt)}
	case 1:
		return cAnd{genPrim(rt), genPrim(rt)}
	case 2:
		return cOr{genPrim(rt), genPrim(rt)}
	case 3:
		return cAnd{cParen{cOr{genPrim(rt), genPrim(rt)}}, genPrim(rt)}
	default:
		return genPrim(rt)
	}
}

type c12Case struct {
	Products []string
	Rules    map[string]productRules
	HostDoc  obj
	RouteDoc obj
	Clusters []string // names in cluster_conf
	Model    hostModel
	DummyAdv bool
	UsesAdv  bool
}

func genC12(rt *rapid.T) c12Case {
	var c c12Case
	c.Rules = map[string]productRules{}
	np := rapid.IntRange(1, 3).Draw(rt, "nprod")
	hosts, tags := obj{}, obj{}
	basicDoc, advDoc := obj{}, obj{}
	for i := 1; i <= np; i++ {
		p := fmt.Sprintf("p%d", i)
		dom := p + ".com"
		c.Products = append(c.Products, p)
		tag := p + "-tag"
		hosts = append(hosts, kv{tag, strs([]string{dom, "*." + dom})})
		tags = append(tags, kv{p, strs([]string{tag})})
		c.Model.Hosts = append(c.Model.Hosts, hostEntry{dom, tag, p}, hostEntry{"*." + dom, tag, p})
		var pr productRules
		kind := []int{3, 3, 0, 3, 1, 3, 2, 3, 3, 3}[rapid.IntRange(0, 9).Draw(rt, "pkind")] // 0: advanced only, 1: basic only, 2: neither, else both
		if kind != 0 && kind != 2 {
			pr.HasBasic = true
			clusters := append(append([]string{}, c12Clusters...), advancedMode, advancedMode)
			hostGen := func(rt *rapid.T) string {
				switch rapid.IntRange(0, 7).Draw(rt, "bh") {
				case 0:
					return "*"
				case 1, 2:
					return maybeFlip(rt, "*."+dom, "bhc")
				case 3:
					return maybeFlip(rt, "*."+rapid.SampledFrom(subs).Draw(rt, "bhs")+"."+dom, "bhc")
				case 4:
					return maybeFlip(rt, dom, "bhc")
				default:
					return maybeFlip(rt, rapid.SampledFrom(subs).Draw(rt, "bhs")+"."+dom, "bhc")
				}
			}
			pr.Basic = genBasicRules(rt, clusters, 5, hostGen)
			for _, r := range pr.Basic {
				if r.Cluster == advancedMode {
					c.UsesAdv = true
				}
			}
			if len(pr.Basic) == 0 {
				pr.HasBasic = false
			} else {
				basicDoc = append(basicDoc, kv{p, basicRulesDoc(pr.Basic)})
			}
		}
		if kind != 1 && kind != 2 {
			pr.HasAdv = true
			n := []int{2, 3, 1, 4, 0, 5}[rapid.IntRange(0, 5).Draw(rt, "nadv")]
			var l []any
			for j := 0; j < n; j++ {
				r := advRule{genCond(rt), rapid.SampledFrom(c12Clusters).Draw(rt, "advcluster")}
				pr.Adv = append(pr.Adv, r)
				l = append(l, obj{{"Cond", r.Cond.text()}, {"ClusterName", r.Cluster}})
			}
			if l == nil {
				l = []any{}
			}
			advDoc = append(advDoc, kv{p, l})
		}
		c.Rules[p] = pr
	}
	c.HostDoc = obj{{"Version", "v1"}, {"DefaultProduct", nil}, {"Hosts", hosts}, {"HostTags", tags}}
	c.RouteDoc = obj{{"Version", "v1"}}
	// both tables are optional in the file, but at least one must be present
	if len(basicDoc) > 0 || rapid.Bool().Draw(rt, "emptybasic") {
		c.RouteDoc = append(c.RouteDoc, kv{"BasicRule", basicDoc})
	}
	if len(advDoc) > 0 || len(c.RouteDoc) == 1 || rapid.Bool().Draw(rt, "emptyadv") {
		c.RouteDoc = append(c.RouteDoc, kv{"ProductRule", advDoc})
	}
	c.Clusters = append([]string{}, c12Clusters...)
	if c.UsesAdv && rapid.Bool().Draw(rt, "dummyadv") {
		// a cluster literally named ADVANCED_MODE in cluster_conf: the basic result
		// ADVANCED_MODE must still mean "go on with the advanced table"
		c.DummyAdv = true
		c.Clusters = append(c.Clusters, advancedMode)
	}
	return c
}

func genC12Probe(rt *rapid.T, c *c12Case) (probe, string) {
	p := c.Products[rapid.IntRange(0, len(c.Products)-1).Draw(rt, "pp")]
	dom := p + ".com"
	pr := c.Rules[p]
	var pb probe
	pb.Method = rapid.SampledFrom(c12Methods).Draw(rt, "method")
	class := ""
	if pr.HasBasic && rapid.IntRange(0, 3).Draw(rt, "fromrules") > 0 {
		h, hc := genProbeHost(rt, pr.Basic)
		pb.Host, class = h, hc
		if !strings.HasSuffix(strings.ToLower(h), dom) {
			pb.Host = rapid.SampledFrom(subs).Draw(rt, "ph") + "." + dom
			class = "h-domain"
		}
	} else {
		switch rapid.IntRange(0, 2).Draw(rt, "hk") {
		case 0:
			pb.Host = dom
		case 1:
			pb.Host = rapid.SampledFrom(subs).Draw(rt, "ph") + "." + dom
		default:
			pb.Host = rapid.SampledFrom(subs).Draw(rt, "ph") + "." + rapid.SampledFrom(subs).Draw(rt, "ph2") + "." + dom
		}
		class = "h-domain"
	}
	pb.Host = maybeFlip(rt, pb.Host, "pc")
	if rapid.IntRange(0, 2).Draw(rt, "port") == 0 {
		pb.Host += rapid.SampledFrom(ports).Draw(rt, "portv")
		class += "+port"
	}
	// path: from basic rules, from advanced rule conditions, or pool
	var pclass string
	if pr.HasBasic && rapid.Bool().Draw(rt, "pathfrombasic") {
		pb.Path, pclass = genProbePath(rt, pr.Basic)
	} else {
		pb.Path = genConcretePath(rt)
		if rapid.Bool().Draw(rt, "deeper") {
			pb.Path += "/" + rapid.SampledFrom(pathElemsP).Draw(rt, "dp")
		}
		pclass = "p-concrete"
	}
	return pb, class + "," + pclass
}

func c12Load(dir string, c *c12Case) (*bfe_route.ServerDataConf, error, *panicInfo) {
	hf := writeFile(dir, "host_rule.data", mustJSON(c.HostDoc))
	vf := writeFile(dir, "vip_rule.data", mustJSON(obj{{"Version", "v1"}, {"Vips", obj{}}}))
	rf := writeFile(dir, "route_rule.data", mustJSON(c.RouteDoc))
	cf := writeFile(dir, "cluster_conf.data", mustJSON(clusterConfFile(c.Clusters)))
	var sdc *bfe_route.ServerDataConf
	var err error
	pi := try(func() { sdc, err = bfe_route.LoadServerDataConf(hf, vf, rf, cf) })
	return sdc, err, pi
}

func c12CheckProbe(tb ev.TB, rec *ev.Rec, sdc *bfe_route.ServerDataConf, c *c12Case, cfgFP string, pb probe, classes ...string) {
	hv := c.Model.resolve(pb.Host, nil)
	w := map[string]any{"host_rule": c.HostDoc, "route_rule": c.RouteDoc, "cluster_conf_names": c.Clusters, "method": pb.Method, "host": pb.Host, "path": pb.Path}
	req := newReq(pb.Method, pb.Host, pb.Path, nil, sdc)
	var perr, cerr error
	pi := try(func() {
		if perr = sdc.HostTable.LookupHostTagAndProduct(req); perr == nil {
			cerr = sdc.HostTable.LookupCluster(req)
		}
	})
	if pi != nil {
		rec.Case(cfgFP+fmt.Sprint(pb), false, "panic")
		rec.Fail(tb, "lookup-panic-"+pi.Site, w, "lookup panicked: %s", pi.Val)
		return
	}
	if hv.Stage == stageNone || perr != nil || req.Route.Product != hv.Product {
		// product resolution is C10's subject
		rec.Case(cfgFP+fmt.Sprint(pb), false, "no-product")
		if (hv.Stage == stageNone) != (perr != nil) || (perr == nil && req.Route.Product != hv.Product) {
			rec.Fail(tb, "product-resolution", w, "host %q: want product %q (%s), got %q err %v", pb.Host, hv.Product, hv.Stage, req.Route.Product, perr)
		}
		return
	}
	pr := c.Rules[hv.Product]
	want := clusterLookup(pr, pb)
	cl := append([]string{}, classes...)
	cl = append(cl, "stage-"+want.Stage)
	switch {
	case pr.HasBasic && want.Basic.Found && want.Basic.Cluster == advancedMode:
		cl = append(cl, "basic-ADVANCED_MODE->"+want.Stage)
	case pr.HasBasic && !want.Basic.Found:
		cl = append(cl, "basic-miss->"+want.Stage)
	case !pr.HasBasic:
		cl = append(cl, "no-basic-table->"+want.Stage)
	}
	if !pr.HasAdv && want.Stage == "none" {
		cl = append(cl, "no-advanced-table")
	}
	if want.Stage == "advanced" {
		cl = append(cl, fmt.Sprintf("adv-true-%d", min(want.NAdvTrue, 3)))
		if want.AdvIndex > 0 {
			cl = append(cl, "adv-first-true-not-first-rule")
		}
	}
	if c.DummyAdv {
		cl = append(cl, "cluster-named-ADVANCED_MODE-defined")
	}
	rec.Case(cfgFP+fmt.Sprint(pb), want.Stage == "advanced" && want.NAdvTrue >= 2, cl...)
	w["want_cluster"], w["want_error"], w["want_stage"] = want.Cluster, want.Err, want.Stage
	w["got_cluster"], w["got_error"] = req.Route.ClusterName, fmt.Sprint(cerr)
	if want.Err {
		if cerr == nil {
			rec.Fail(tb, "forwarded-without-match", w, "%s %s%s: no rule matches, but cluster %q was chosen", pb.Method, pb.Host, pb.Path, req.Route.ClusterName)
		} else if req.Route.ClusterName != "" {
			rec.Fail(tb, "error-with-cluster", w, "%s %s%s: error %v but ClusterName=%q", pb.Method, pb.Host, pb.Path, cerr, req.Route.ClusterName)
		} else if req.Route.Error == nil {
			rec.Fail(tb, "error-not-recorded", w, "%s %s%s: error %v returned but req.Route.Error is nil", pb.Method, pb.Host, pb.Path, cerr)
		}
		return
	}
	if cerr != nil {
		rec.Fail(tb, "no-match-want-"+want.Stage, w, "%s %s%s: want cluster %q by %s rules, got error %v", pb.Method, pb.Host, pb.Path, want.Cluster, want.Stage, cerr)
		return
	}
	if req.Route.ClusterName != want.Cluster {
		key := "wrong-cluster-want-" + want.Stage
		if req.Route.ClusterName == advancedMode {
			key = "ADVANCED_MODE-as-cluster"
		}
		rec.Fail(tb, key, w, "%s %s%s: want cluster %q by %s rules, got %q", pb.Method, pb.Host, pb.Path, want.Cluster, want.Stage, req.Route.ClusterName)
	}
}

func TestC12(t *testing.T) {
	rec := ev.New("C12", "generated host_rule + route_rule (BasicRule incl. ADVANCED_MODE targets, ordered ProductRule with conditions default_t/req_method_in/req_path_in/req_path_prefix_in combined by !, &&, ||, parentheses) + cluster_conf, 1-3 products with basic only / advanced only / both / neither, loaded by LoadServerDataConf; probes (method, host with optional :port and case flips, path) derived from the rules, sent through LookupHostTagAndProduct + LookupCluster. non-trivial: the advanced table is reached and >=2 advanced rules are true for the probe; distinct by (files, probe)")
	dir := workDir(t, "C12")
	nprobe := 30

	// route.md demo: basic table + advanced table with ADVANCED_MODE hand-over
	if !skipFixed {
		demoBasic := []basicRule{
			{Hosts: []string{"www.p1.com"}, Paths: []string{"/a/*"}, Cluster: "k1"},
			{Hosts: []string{"www.p1.com"}, Paths: []string{"/a/b"}, Cluster: "k2"},
			{Hosts: []string{"*.p1.com"}, Paths: []string{"*"}, Cluster: "k3"},
			{Hosts: []string{"api.p1.com"}, Paths: []string{"*"}, Cluster: advancedMode},
		}
		demoAdv := []advRule{{cAnd{cMethod{[]string{"POST"}}, cPathPrefix{[]string{"/d"}}}, "k4"}, {cMethod{[]string{"POST"}}, "k5"}, {cDefault{}, "k1"}}
		for _, dummy := range []bool{true, false} {
			c := c12Case{Products: []string{"p1"}, Rules: map[string]productRules{"p1": {HasBasic: true, Basic: demoBasic, HasAdv: true, Adv: demoAdv}},
				Model: hostModel{Hosts: []hostEntry{{"p1.com", "t", "p1"}, {"*.p1.com", "t", "p1"}}}, DummyAdv: dummy, UsesAdv: true}
			c.HostDoc = obj{{"Version", "v1"}, {"Hosts", obj{{"t", strs([]string{"p1.com", "*.p1.com"})}}}, {"HostTags", obj{{"p1", strs([]string{"t"})}}}}
			var l []any
			for _, r := range demoAdv {
				l = append(l, obj{{"Cond", r.Cond.text()}, {"ClusterName", r.Cluster}})
			}
			c.RouteDoc = obj{{"Version", "v1"}, {"BasicRule", obj{{"p1", basicRulesDoc(demoBasic)}}}, {"ProductRule", obj{{"p1", l}}}}
			c.Clusters = append([]string{}, c12Clusters...)
			if dummy {
				c.Clusters = append(c.Clusters, advancedMode)
			}
			sdc, err, pi := c12Load(dir, &c)
			if pi != nil {
				rec.Fail(t, "load-panic-"+pi.Site, nil, "load panicked: %s", pi.Val)
				continue
			}
			if err != nil {
				if !dummy && strings.Contains(err.Error(), advancedMode) {
					rec.Excluded("ADVANCED_MODE-set-not-loadable(C13)")
					continue
				}
				rec.Fail(t, "documented-example-rejected", map[string]any{"err": err.Error()}, "route.md style demo does not load: %v", err)
				continue
			}
			for _, pb := range []probe{{"GET", "www.p1.com", "/a/b"}, {"GET", "www.p1.com:8080", "/a/b/c"}, {"GET", "WWW.P1.COM", "/x"}, {"GET", "m.p1.com", "/x"},
				{"POST", "api.p1.com", "/d/e"}, {"POST", "api.p1.com:443", "/x"}, {"GET", "api.p1.com", "/x"}, {"PUT", "p1.com", "/x"}, {"POST", "a.b.p1.com", "/d"}} {
				c12CheckProbe(t, rec, sdc, &c, fmt.Sprintf("fixed-%v", dummy), pb, "fixed")
			}
		}
	}

	rapid.Check(t, func(rt *rapid.T) {
		c := genC12(rt)
		sdc, err, pi := c12Load(dir, &c)
		if pi != nil {
			rec.Fail(rt, "load-panic-"+pi.Site, map[string]any{"host_rule": c.HostDoc, "route_rule": c.RouteDoc}, "LoadServerDataConf panicked: %s", pi.Val)
			return
		}
		if err != nil {
			if c.UsesAdv && !c.DummyAdv && strings.Contains(err.Error(), advancedMode) {
				// acceptance of documented ADVANCED_MODE targets is C13's subject
				rec.Excluded("ADVANCED_MODE-set-not-loadable(C13)")
				return
			}
			rec.Excluded("load-rejected")
			rec.Set("last_load_error", err.Error())
			return
		}
		cfgFP := string(mustJSON(c.RouteDoc)) + fmt.Sprint(c.DummyAdv)
		rec.Sample(map[string]any{"route_rule": c.RouteDoc, "cluster_named_ADVANCED_MODE": c.DummyAdv})
		for i := 0; i < nprobe; i++ {
			pb, class := genC12Probe(rt, &c)
			c12CheckProbe(rt, rec, sdc, &c, cfgFP, pb, strings.Split(class, ",")...)
		}
	})
}

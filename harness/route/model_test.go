package route

// Reference models, transcribed from the documentation (not from the code):
//   - host -> product chain: property C10 statement + docs host_rule.data.md / vip_rule.data.md
//   - basic rule precedence: docs/zh_cn/introduction/route.md, section "基础规则匹配顺序"
//   - basic + advanced combination: route.md, section "匹配顺序" / "高级规则表"
// Deliberately naive (linear scans over the configured entries).

import (
	"net"
	"strings"
)

// ---------- C10: host table ----------

type hostEntry struct {
	Host    string // as configured ("www.a.com" or "*.a.com"), any case
	Tag     string
	Product string
}

type vipEntry struct {
	IP      string // as configured
	Product string
}

type hostModel struct {
	Hosts   []hostEntry
	Vips    []vipEntry
	Default string // "" = none
}

const (
	stageExact    = "exact"
	stageWildcard = "wildcard"
	stageVip      = "vip"
	stageDefault  = "default"
	stageNone     = "none"
)

// normReqHost: "compared case-insensitively with port and trailing dot ignored".
func normReqHost(h string) string {
	h = strings.ToLower(h)
	if i := strings.IndexByte(h, ':'); i >= 0 {
		h = h[:i]
	}
	h = strings.TrimSuffix(h, ".")
	return h
}

// wildcardMatch: "*.suffix" matches hosts that end in ".suffix" with at least one more label in front.
func wildcardMatch(pattern, host string) bool {
	if !strings.HasPrefix(pattern, "*.") {
		return false
	}
	suffix := strings.ToLower(pattern[1:]) // ".suffix"
	return len(host) > len(suffix) && strings.HasSuffix(host, suffix)
}

type hostVerdict struct {
	Stage    string
	Product  string
	Tag      string
	NMatches int // number of table entries (over all stages) that match this request
}

func (m *hostModel) resolve(reqHost string, vip net.IP) hostVerdict {
	h := normReqHost(reqHost)
	var v hostVerdict
	v.Stage = stageNone
	set := func(stage, product, tag string) {
		if v.Stage == stageNone {
			v.Stage, v.Product, v.Tag = stage, product, tag
		}
	}
	// 1. exact
	for _, e := range m.Hosts {
		if !strings.HasPrefix(e.Host, "*") && strings.ToLower(e.Host) == h {
			v.NMatches++
			set(stageExact, e.Product, e.Tag)
		}
	}
	// 2. wildcard, longest suffix
	best := -1
	for i, e := range m.Hosts {
		if wildcardMatch(e.Host, h) {
			v.NMatches++
			if best < 0 || len(e.Host) > len(m.Hosts[best].Host) {
				best = i
			}
		}
	}
	if best >= 0 {
		set(stageWildcard, m.Hosts[best].Product, m.Hosts[best].Tag)
	}
	// 3. vip
	if vip != nil {
		for _, e := range m.Vips {
			if ip := net.ParseIP(e.IP); ip != nil && ip.Equal(vip) {
				v.NMatches++
				set(stageVip, e.Product, "")
			}
		}
	}
	// 4. default
	if m.Default != "" {
		v.NMatches++
		set(stageDefault, m.Default, "")
	}
	return v
}

// ---------- C11: basic rules ----------

type basicRule struct {
	Hosts   []string // empty = any host
	Paths   []string // empty = any path
	Cluster string
}

const (
	hcExact    = "host-exact"
	hcWildcard = "host-wildcard"
	hcAny      = "host-any"
	pcExact    = "path-exact"
	pcPrefix   = "path-prefix"
	pcAny      = "path-any"
)

// hostCondClass says whether host condition hc matches request host h (no port) and in which class.
func hostCondClass(hc, h string) (string, bool) {
	switch {
	case hc == "*":
		return hcAny, true
	case strings.HasPrefix(hc, "*."):
		// "*" stands for exactly one label
		suffix := strings.ToLower(hc[1:])
		lh := strings.ToLower(h)
		if len(lh) > len(suffix) && strings.HasSuffix(lh, suffix) {
			first := lh[:len(lh)-len(suffix)]
			if !strings.Contains(first, ".") {
				return hcWildcard, true
			}
		}
		return hcWildcard, false
	default:
		return hcExact, strings.EqualFold(hc, h)
	}
}

// pathElems splits a path into its elements; ok=false when the path does not start with "/".
func pathElems(p string) ([]string, bool) {
	if !strings.HasPrefix(p, "/") {
		return nil, false
	}
	p = p[1:]
	p = strings.TrimSuffix(p, "/") // trailing slash ignored
	if p == "" {
		return nil, true
	}
	return strings.Split(p, "/"), true
}

// pathCondClass says whether path condition pc matches request path p; n = number of matched elements.
func pathCondClass(pc, p string) (class string, ok bool, n int) {
	switch {
	case pc == "*":
		return pcAny, true, 0
	case strings.HasSuffix(pc, "/*"):
		want, _ := pathElems(pc[:len(pc)-1])
		got, okp := pathElems(p)
		if !okp || len(got) < len(want) {
			return pcPrefix, false, 0
		}
		for i := range want {
			if want[i] != got[i] {
				return pcPrefix, false, 0
			}
		}
		return pcPrefix, true, len(want)
	default:
		return pcExact, pc == p, 0
	}
}

type basicVerdict struct {
	Found     bool
	Cluster   string
	HostClass string
	PathClass string
	NMatch    int             // (host cond, path cond) pairs matching the request, over all classes
	Classes   map[string]bool // distinct "hostclass/pathclass" among matching pairs
}

func basicLookup(rules []basicRule, host, path string) basicVerdict {
	v := basicVerdict{Classes: map[string]bool{}}
	type cand struct {
		hclass, pclass string
		n              int
		cluster        string
	}
	var cands []cand
	for _, r := range rules {
		hs := r.Hosts
		if len(hs) == 0 {
			hs = []string{"*"}
		}
		ps := r.Paths
		if len(ps) == 0 {
			ps = []string{"*"}
		}
		for _, hc := range hs {
			hclass, hok := hostCondClass(hc, host)
			if !hok {
				continue
			}
			// remember that this host class has a rule, even if no path matches
			cands = append(cands, cand{hclass: hclass})
			for _, pc := range ps {
				pclass, pok, n := pathCondClass(pc, path)
				if pok {
					cands = append(cands, cand{hclass, pclass, n, r.Cluster})
					v.NMatch++
					v.Classes[hclass+"/"+pclass] = true
				}
			}
		}
	}
	// host class: exact, else wildcard, else any - chosen by host alone
	for _, hclass := range []string{hcExact, hcWildcard, hcAny} {
		has := false
		for _, c := range cands {
			if c.hclass == hclass {
				has = true
			}
		}
		if !has {
			continue
		}
		v.HostClass = hclass
		// within the class: exact path, else longest prefix, else any; no fallback to another host class
		for _, pclass := range []string{pcExact, pcPrefix, pcAny} {
			best := -1
			for i, c := range cands {
				if c.hclass == hclass && c.pclass == pclass && (best < 0 || c.n > cands[best].n) {
					best = i
				}
			}
			if best >= 0 {
				v.Found, v.Cluster, v.PathClass = true, cands[best].cluster, pclass
				return v
			}
		}
		return v
	}
	return v
}

// ---------- C12: conditions with known truth and the combination rule ----------

type probe struct {
	Method string
	Host   string
	Path   string
}

type cond interface {
	text() string
	eval(p probe) bool
}

type cDefault struct{}
type cMethod struct{ list []string }
type cPathPrefix struct{ list []string }
type cPathIn struct{ list []string }
type cNot struct{ c cond }
type cAnd struct{ a, b cond }
type cOr struct{ a, b cond }
type cParen struct{ c cond }

func (cDefault) text() string      { return "default_t()" }
func (cDefault) eval(p probe) bool { return true }
func (c cMethod) text() string     { return `req_method_in("` + strings.Join(c.list, "|") + `")` }
func (c cMethod) eval(p probe) bool {
	for _, m := range c.list {
		if m == p.Method {
			return true
		}
	}
	return false
}
func (c cPathPrefix) text() string {
	return `req_path_prefix_in("` + strings.Join(c.list, "|") + `", false)`
}
func (c cPathPrefix) eval(p probe) bool {
	for _, x := range c.list {
		if strings.HasPrefix(p.Path, x) {
			return true
		}
	}
	return false
}
func (c cPathIn) text() string { return `req_path_in("` + strings.Join(c.list, "|") + `", false)` }
func (c cPathIn) eval(p probe) bool {
	for _, x := range c.list {
		if p.Path == x {
			return true
		}
	}
	return false
}
func (c cNot) text() string        { return "!" + c.c.text() }
func (c cNot) eval(p probe) bool   { return !c.c.eval(p) }
func (c cAnd) text() string        { return c.a.text() + " && " + c.b.text() }
func (c cAnd) eval(p probe) bool   { return c.a.eval(p) && c.b.eval(p) }
func (c cOr) text() string         { return c.a.text() + " || " + c.b.text() }
func (c cOr) eval(p probe) bool    { return c.a.eval(p) || c.b.eval(p) }
func (c cParen) text() string      { return "(" + c.c.text() + ")" }
func (c cParen) eval(p probe) bool { return c.c.eval(p) }

type advRule struct {
	Cond    cond
	Cluster string
}

type productRules struct {
	HasBasic bool
	Basic    []basicRule
	HasAdv   bool
	Adv      []advRule
}

const advancedMode = "ADVANCED_MODE"

type clusterVerdict struct {
	Err      bool
	Cluster  string
	Stage    string // basic | advanced | none
	Basic    basicVerdict
	NAdvTrue int
	AdvIndex int
}

// stripPort: "Host comparison ... ignores the port".
func stripPort(h string) string {
	if i := strings.IndexByte(h, ':'); i >= 0 {
		return h[:i]
	}
	return h
}

func clusterLookup(pr productRules, p probe) clusterVerdict {
	v := clusterVerdict{AdvIndex: -1}
	if pr.HasBasic {
		v.Basic = basicLookup(pr.Basic, stripPort(p.Host), p.Path)
		if v.Basic.Found && v.Basic.Cluster != advancedMode {
			v.Cluster, v.Stage = v.Basic.Cluster, "basic"
			return v
		}
	}
	for i, r := range pr.Adv {
		if r.Cond.eval(p) {
			v.NAdvTrue++
			if v.AdvIndex < 0 {
				v.AdvIndex = i
			}
		}
	}
	if v.AdvIndex >= 0 {
		v.Cluster, v.Stage = pr.Adv[v.AdvIndex].Cluster, "advanced"
		return v
	}
	v.Err, v.Stage = true, "none"
	return v
}

package bal

// C01: smooth weighted round-robin gives exact weight shares.
//
// Oracle (written from the statement, nginx-style smooth WRR on the configured
// weights, independent of bfe's x100 scaling and of its "pick, then add" form):
//  (i)   from a fresh load the pick sequence equals the model sequence;
//  (ii)  every window of W consecutive picks inside one epoch contains each
//        eligible backend exactly weight times (sliding, all offsets);
//  (iii) the sequence has period W;
//  (iv)  (ii) holds from the first pick after a reload that changed the eligible
//        weights/members ("every starting point after a (re)load"); a reload
//        that leaves the eligible weights unchanged does not start a new epoch,
//        so windows spanning it must be exact as well;
//  (v)   an availability change starts a new stable phase: its pick sequence must
//        be the one the documented algorithm ("credit starts at weight; pick the
//        greatest credit, add weight to every eligible credit, subtract the sum
//        of the eligible credits from the chosen one") produces from the credits
//        it holds at the flip, and from the point where that reference run has
//        become periodic every window of W' picks must be exact and the sequence
//        must have period W'.

import (
	"encoding/json"
	"fmt"
	"os"
	"strings"
	"testing"
	"time"

	"github.com/bfenetworks/bfe/bfe_balance/backend"
	"github.com/bfenetworks/bfe/bfe_balance/bal_slb"
	"github.com/bfenetworks/bfe/bfe_basic"
	"pgregory.net/rapid"

	"verif/harness/internal/ev"
)

type swrr struct {
	ids   []string
	w     []int
	cur   []int
	total int
}

func newSWRR(ms []beSpec) *swrr {
	m := &swrr{}
	for _, b := range ms {
		m.ids = append(m.ids, b.key())
		m.w = append(m.w, b.Weight)
		m.cur = append(m.cur, 0)
		m.total += b.Weight
	}
	return m
}

func (m *swrr) next() string {
	best := -1
	for i := range m.w {
		m.cur[i] += m.w[i]
		if best < 0 || m.cur[i] > m.cur[best] {
			best = i
		}
	}
	m.cur[best] -= m.total
	return m.ids[best]
}

// c01Bal abstracts the two observation points of the property.
type c01Bal interface {
	pick() (string, error)
	update(ms []beSpec) error
	handles() map[string][]*backend.BfeBackend
	credits() []string
	order() []string
}

type c01RR struct{ brr *bal_slb.BalanceRR }

func (b *c01RR) pick() (string, error) {
	be, err := b.brr.Balance(bal_slb.WrrSmooth, nil)
	if err != nil {
		return "", err
	}
	return be.AddrInfo, nil
}
func (b *c01RR) update(ms []beSpec) error {
	conf, err := loadSub(ms)
	if err != nil {
		return err
	}
	b.brr.Update(conf)
	return nil
}
func (b *c01RR) handles() map[string][]*backend.BfeBackend { return rrHandles(b.brr) }
func (b *c01RR) credits() []string                         { return rrCredits(b.brr) }
func (b *c01RR) order() []string                           { return rrOrder(b.brr) }

type c01Gslb struct {
	r     *rig
	extra []subSpec
	req   *bfe_basic.Request
}

const c01Sub = "sub.verif.a"

func (b *c01Gslb) subs(ms []beSpec) []subSpec {
	return append([]subSpec{{Name: c01Sub, Weight: 100, Backends: ms}}, b.extra...)
}
func (b *c01Gslb) pick() (string, error) {
	b.req.RetryTime = 0
	be, err := b.r.bal.Balance(b.req)
	if err != nil {
		return "", err
	}
	return be.AddrInfo, nil
}
func (b *c01Gslb) update(ms []beSpec) error { return b.r.reload(b.subs(ms)) }
func (b *c01Gslb) handles() map[string][]*backend.BfeBackend {
	return b.r.handles()[c01Sub]
}
func (b *c01Gslb) brr() *bal_slb.BalanceRR {
	for i := 0; i < b.r.bal.SubClusterNum(); i++ {
		if n, brr := b.r.bal.VerifSubClusterAt(i); n == c01Sub {
			return brr
		}
	}
	return nil
}
func (b *c01Gslb) credits() []string { return rrCredits(b.brr()) }
func (b *c01Gslb) order() []string   { return rrOrder(b.brr()) }

func c01Eligible(ms []beSpec, avail map[string]bool) []beSpec {
	var out []beSpec
	for _, b := range ms {
		if b.Weight > 0 && avail[b.key()] {
			out = append(out, b)
		}
	}
	return out
}

func c01Same(a, b []beSpec) bool {
	if len(a) != len(b) {
		return false
	}
	m := map[string]int{}
	for _, x := range a {
		m[x.key()] = x.Weight
	}
	for _, x := range b {
		if w, ok := m[x.key()]; !ok || w != x.Weight {
			return false
		}
	}
	return true
}

func c01SameMembers(a, b []beSpec) bool {
	if len(a) != len(b) {
		return false
	}
	m := map[string]bool{}
	for _, x := range a {
		m[x.key()] = true
	}
	for _, x := range b {
		if !m[x.key()] {
			return false
		}
	}
	return true
}

type c01Epoch struct {
	startedBy string // "init", "reweight", "members", "flip"
	claimFrom int    // first pick index from which windows / period are claimed (-1: no claim)
	elig      []beSpec
	want      map[string]int
	W         int
	seq       []string
	noopAt    []int // indices in seq at which a no-op reload happened
}

func newC01Epoch(by string, elig []beSpec) *c01Epoch {
	e := &c01Epoch{startedBy: by, elig: elig, want: map[string]int{}}
	for _, b := range elig {
		e.want[b.key()] = b.Weight
		e.W += b.Weight
	}
	return e
}

// firstBadWindow returns the start of the first window of W picks whose counts
// differ from want, or -1.
func (e *c01Epoch) firstBadWindow() (int, map[string]int) {
	if e.claimFrom < 0 || len(e.seq)-e.claimFrom < e.W {
		return -1, nil
	}
	full := e.seq
	defer func() { e.seq = full }()
	off := e.claimFrom
	e.seq = full[off:]
	s, c := e.firstBadWindowAll()
	if s >= 0 {
		s += off
	}
	return s, c
}

func (e *c01Epoch) firstBadWindowAll() (int, map[string]int) {
	if len(e.seq) < e.W {
		return -1, nil
	}
	cnt := map[string]int{}
	bad := 0 // number of ids whose count differs from want
	for id, w := range e.want {
		_ = id
		if w != 0 {
			bad++
		}
	}
	bump := func(id string, d int) {
		before := cnt[id] == e.want[id]
		cnt[id] += d
		after := cnt[id] == e.want[id]
		if before && !after {
			bad++
		} else if !before && after {
			bad--
		}
	}
	for i, id := range e.seq {
		bump(id, 1)
		if i >= e.W {
			bump(e.seq[i-e.W], -1)
		}
		if i >= e.W-1 && bad != 0 {
			c := map[string]int{}
			for k, v := range cnt {
				c[k] = v
			}
			return i - e.W + 1, c
		}
	}
	return -1, nil
}

// carry is the stateful reference model of the documented algorithm of
// bal_rr.go (file header and property anchors: credit starts at weight; pick
// the greatest credit, first one wins; add weight to every eligible credit;
// subtract the sum of the eligible credits from the chosen one). Unavailable or
// weight<=0 members do not take part and keep their credit. A reload that
// changes the eligible weights/members restarts all credits at weight, one that
// does not keeps them. It carries the run across availability changes, where
// the stateless swrr model cannot be used.
type carryEntry struct {
	id     string
	w      int
	credit int
	avail  bool
}

type carry struct{ es []carryEntry }

func newCarry(ms []beSpec, avail map[string]bool) *carry {
	c := &carry{}
	for _, m := range ms {
		c.es = append(c.es, carryEntry{m.key(), m.Weight, m.Weight, avail[m.key()]})
	}
	return c
}

func (c *carry) next() string {
	best, total := -1, 0
	for i := range c.es {
		e := &c.es[i]
		if !e.avail || e.w <= 0 {
			continue
		}
		if best < 0 || e.credit > c.es[best].credit {
			best = i
		}
		total += e.credit
	}
	if best < 0 {
		return ""
	}
	for i := range c.es {
		e := &c.es[i]
		if e.avail && e.w > 0 {
			e.credit += e.w
		}
	}
	c.es[best].credit -= total
	return c.es[best].id
}

func (c *carry) setAvail(id string, v bool) {
	for i := range c.es {
		if c.es[i].id == id {
			c.es[i].avail = v
		}
	}
}

func (c *carry) state() string {
	var sb strings.Builder
	for _, e := range c.es {
		if e.avail && e.w > 0 {
			fmt.Fprintf(&sb, "%d,", e.credit)
		}
	}
	return sb.String()
}

// periodicFrom runs a copy of the model for up to limit picks and returns the
// first pick index t at which the credits equal those W picks later (from
// there on the reference run is periodic with exact windows), or -1.
func (c *carry) periodicFrom(W, limit int) int {
	cp := &carry{es: append([]carryEntry(nil), c.es...)}
	states := make([]string, 0, 4*W)
	for i := 0; i <= limit+W; i++ {
		states = append(states, cp.state())
		if i >= W && states[i-W] == states[i] {
			return i - W
		}
		cp.next()
	}
	return -1
}

// reload: survivors keep availability; credits restart at weight when the
// reload changed the eligible weights/members (reset), else they are kept
// (credit 0 when the new weight is <= 0); new members start at credit = weight;
// entries are put in the order the balancer now holds them (bfe appends new
// members in map order).
func (c *carry) reload(next []beSpec, order []string, reset bool) {
	old := map[string]carryEntry{}
	for _, e := range c.es {
		old[e.id] = e
	}
	nw := map[string]carryEntry{}
	for _, m := range next {
		if o, ok := old[m.key()]; ok {
			o.w = m.Weight
			if m.Weight <= 0 {
				o.credit = 0
			}
			if reset {
				o.credit = m.Weight
			}
			nw[m.key()] = o
		} else {
			nw[m.key()] = carryEntry{m.key(), m.Weight, m.Weight, true}
		}
	}
	c.es = c.es[:0]
	for _, id := range order {
		if e, ok := nw[id]; ok {
			c.es = append(c.es, e)
			delete(nw, id)
		}
	}
}

type c01Upd struct {
	Kind string   // "noop", "noop-perm", "reweight", "members" (reloads) or "flip"
	Next []beSpec // reloads: the new list
	Flip []string // flip: "addr:port" of the members whose availability is toggled
}

type c01Plan struct {
	Path       string // "rr" or "gslb"
	Blackhole0 bool
	Members    []beSpec
	Down       []string
	Periods    int
	OffPct     int
	Updates    []c01Upd
}

func genC01Weight(rt *rapid.T, regime string, mixZero bool, label string) int {
	if mixZero {
		switch rapid.IntRange(0, 9).Draw(rt, label+"z") {
		case 0, 1:
			return 0
		case 2:
			return -rapid.IntRange(1, 3).Draw(rt, label+"neg")
		}
	}
	switch regime {
	case "tiny":
		return rapid.IntRange(1, 3).Draw(rt, label)
	case "big":
		return rapid.IntRange(1, 100).Draw(rt, label)
	default:
		return rapid.IntRange(1, 20).Draw(rt, label)
	}
}

func genC01Plan(rt *rapid.T) (c01Plan, string) {
	var p c01Plan
	n := rapid.SampledFrom([]int{1, 2, 2, 2, 3, 3, 3, 4, 4, 5, 5, 6, 6, 7, 8, 8}).Draw(rt, "n")
	regime := rapid.SampledFrom([]string{"small", "small", "small", "small", "tiny", "tiny", "big", "equal"}).Draw(rt, "regime")
	mixZero := rapid.IntRange(0, 3).Draw(rt, "mixZero") == 0
	mixDown := rapid.IntRange(0, 3).Draw(rt, "mixDown") == 0
	p.Path = rapid.SampledFrom([]string{"rr", "gslb"}).Draw(rt, "path")
	if p.Path == "gslb" {
		p.Blackhole0 = rapid.Bool().Draw(rt, "withBlackhole0")
	}
	p.Members = genEndpoints(rt, n, "endpoints")
	eq := 0
	if regime == "equal" {
		eq = rapid.IntRange(1, 20).Draw(rt, "eqw")
	}
	for i := range p.Members {
		if regime == "equal" {
			p.Members[i].Weight = eq
		} else {
			p.Members[i].Weight = genC01Weight(rt, regime, mixZero, fmt.Sprintf("w%d", i))
		}
		if mixDown && rapid.IntRange(0, 3).Draw(rt, fmt.Sprintf("down%d", i)) == 0 {
			p.Down = append(p.Down, p.Members[i].key())
		}
	}
	p.Periods = rapid.IntRange(3, 6).Draw(rt, "periods")
	p.OffPct = rapid.IntRange(0, 99).Draw(rt, "offset%")
	nUpd := rapid.SampledFrom([]int{0, 1, 1, 2, 2, 3, 3}).Draw(rt, "nUpdates")
	r := regime
	if r == "equal" {
		r = "small"
	}
	members := p.Members
	down := map[string]bool{} // availability as the plan evolves (new members of a reload start up)
	for _, d := range p.Down {
		down[d] = true
	}
	for u := 0; u < nUpd; u++ {
		kind := rapid.SampledFrom([]string{"noop", "noop-perm", "reweight", "reweight", "members", "members", "flip", "flip", "flip"}).Draw(rt, fmt.Sprintf("upd%d", u))
		next := append([]beSpec(nil), members...)
		if kind == "flip" {
			// health checker marks members down / brings them back between two stable phases
			k := rapid.IntRange(1, 2).Draw(rt, fmt.Sprintf("nflip%d", u))
			var keys []string
			for j := 0; j < k; j++ {
				var downNow []string
				for _, m := range members {
					if down[m.key()] {
						downNow = append(downNow, m.key())
					}
				}
				key := members[rapid.IntRange(0, len(members)-1).Draw(rt, fmt.Sprintf("flip%d_%d", u, j))].key()
				if len(downNow) > 0 && rapid.Bool().Draw(rt, fmt.Sprintf("flipUp%d_%d", u, j)) {
					key = rapid.SampledFrom(downNow).Draw(rt, fmt.Sprintf("flipWho%d_%d", u, j))
				}
				keys = append(keys, key)
			}
			if len(keys) == 2 && keys[0] == keys[1] {
				keys = keys[:1]
			}
			for _, k := range keys {
				down[k] = !down[k]
			}
			p.Updates = append(p.Updates, c01Upd{Kind: kind, Flip: keys})
			continue
		}
		switch kind {
		case "noop-perm":
			next = rapid.Permutation(next).Draw(rt, fmt.Sprintf("perm%d", u))
		case "reweight":
			for i := range next {
				if rapid.Bool().Draw(rt, fmt.Sprintf("chg%d_%d", u, i)) {
					next[i].Weight = genC01Weight(rt, r, mixZero, fmt.Sprintf("nw%d_%d", u, i))
				}
			}
		case "members":
			keep := next[:0:0]
			for i := range next {
				if rapid.IntRange(0, 2).Draw(rt, fmt.Sprintf("rm%d_%d", u, i)) != 0 {
					keep = append(keep, next[i])
				}
			}
			next = keep
			add := rapid.IntRange(0, 2).Draw(rt, fmt.Sprintf("add%d", u))
			if len(next) == 0 && add == 0 {
				add = 1
			}
			used := map[string]bool{}
			for _, m := range members {
				used[m.key()] = true
			}
			for _, c := range genEndpoints(rt, len(addrPool)*len(portPool), fmt.Sprintf("newEndpoints%d", u)) {
				if add == 0 || len(next) >= 8 {
					break
				}
				if used[c.key()] {
					continue
				}
				c.Weight = genC01Weight(rt, r, false, fmt.Sprintf("addw%d_%d", u, add))
				next = append(next, c)
				add--
			}
			if rapid.Bool().Draw(rt, fmt.Sprintf("permAfter%d", u)) {
				next = rapid.Permutation(next).Draw(rt, fmt.Sprintf("permM%d", u))
			}
		}
		p.Updates = append(p.Updates, c01Upd{Kind: kind, Next: next})
		members = next
	}
	return p, regime
}

func (p c01Plan) fingerprint() string {
	var sb strings.Builder
	fmt.Fprintf(&sb, "%s|%v|%s|%v|p%d o%d", p.Path, p.Blackhole0, fmtBackends(p.Members), p.Down, p.Periods, p.OffPct)
	for _, u := range p.Updates {
		fmt.Fprintf(&sb, "|%s:%s%v", u.Kind, fmtBackends(u.Next), u.Flip)
	}
	return sb.String()
}

func TestC01(t *testing.T) {
	rec := ev.New("C01", "1..8 backends (weights 1..20, sometimes 1..3 / 1..100 / all equal, weight<=0 and unavailable members mixed in) loaded by ClusterTableLoad into BalanceRR (direct) or a single-sub-cluster BalanceGslb installed via BalTable; 3..6 periods + offset of WrrSmooth picks per epoch, up to 3 changes between stable phases: reloads (no-op, permuted no-op, reweight, member change) and availability flips of 1-2 members (down, or back up with the restart flag as the health checker does). non-trivial: >=2 eligible backends with >=2 distinct weights and >=3 periods observed; distinct by members+weights+availability+path+pick counts+reload script")
	if p := os.Getenv("VERIF_REPLAY_JSON"); p != "" {
		var doc struct {
			Witness struct {
				Plan c01Plan `json:"plan"`
			} `json:"witness"`
		}
		b, err := os.ReadFile(p)
		if err != nil || json.Unmarshal(b, &doc) != nil || len(doc.Witness.Plan.Members) == 0 {
			t.Fatalf("cannot read plan from %s", p)
		}
		c01Run(t, rec, doc.Witness.Plan, "replay")
		return
	}
	// the minimal hand-made witness of clause (iv) (kept as a regression)
	a, b := beSpec{"a", "10.0.0.1", 80, 1}, beSpec{"b", "10.0.0.2", 80, 2}
	b1 := b
	b1.Weight = 1
	c01Run(t, rec, c01Plan{Path: "rr", Members: []beSpec{a, b}, Periods: 3, Updates: []c01Upd{{Kind: "reweight", Next: []beSpec{a, b1}}}}, "witness")
	c01SlowStartFinished(t, rec)
	rapid.Check(t, func(rt *rapid.T) {
		p, regime := genC01Plan(rt)
		c01Run(rt, rec, p, "regime="+regime)
	})
}

// c01SlowStartFinished covers "slow start ... finished" with one deterministic
// history: a=1,b=3 loaded, slow start 1 s configured, reload to a=1,b=1, b goes
// down and is brought back the way the health checker does it (SetRestart(true),
// SetAvail(true)), the slow-start second passes, then 400 picks. With equal
// configured weights each backend is owed 200 of them; a generous +-20 absorbs
// the transient right after the ramp. (The sleep only lets the ramp finish; a
// longer sleep changes nothing.)
func c01SlowStartFinished(tb ev.TB, rec *ev.Rec) {
	a, b := beSpec{"a", "10.0.0.1", 80, 1}, beSpec{"b", "10.0.0.2", 80, 3}
	conf, err := loadSub([]beSpec{a, b})
	if err != nil {
		tb.Fatalf("harness: %v", err)
	}
	brr := bal_slb.NewBalanceRR("s")
	brr.Init(conf)
	brr.SetSlowStart(1)
	for i := 0; i < 8; i++ {
		brr.Balance(bal_slb.WrrSmooth, nil)
	}
	b.Weight = 1
	conf2, err := loadSub([]beSpec{a, b})
	if err != nil {
		tb.Fatalf("harness: %v", err)
	}
	brr.Update(conf2)
	hb := rrHandles(brr)[b.key()][0]
	hb.SetAvail(false)
	brr.Balance(bal_slb.WrrSmooth, nil)
	hb.SetRestart(true)
	hb.SetAvail(true)
	brr.Balance(bal_slb.WrrSmooth, nil) // starts the ramp
	time.Sleep(1200 * time.Millisecond)
	cnt := map[string]int{}
	for i := 0; i < 400; i++ {
		be, err := brr.Balance(bal_slb.WrrSmooth, nil)
		if err != nil {
			rec.Fail(tb, "error-with-eligible", map[string]any{"case": "slow-start-finished"}, "Balance failed: %v", err)
			return
		}
		cnt[be.AddrInfo]++
	}
	rec.Case("slowstart|a=1,b=3->b=1|restart b|400", true, "slow-start-finished")
	if d := cnt[b.key()] - 200; d > 20 || d < -20 {
		rec.Fail(tb, "slowstart-ends-at-old-weight", map[string]any{"counts": cnt, "credits_now": rrCredits(brr),
			"history": "Init a=1,b=3; SetSlowStart(1); Update a=1,b=1; b down; b SetRestart(true)+SetAvail(true); 1.2 s; 400 WrrSmooth picks"},
			"after slow start finished, 400 picks over a=1,b=1 gave %v (each is owed 200): the ramp ended at the weight configured before the reload", cnt)
	}
}

func c01Run(tb ev.TB, rec *ev.Rec, p c01Plan, class string) {
	members := p.Members
	avail := map[string]bool{}
	for _, m := range members {
		avail[m.key()] = true
	}
	for _, d := range p.Down {
		avail[d] = false
	}
	classes := []string{class, fmt.Sprintf("n=%d", len(members)), "path=" + p.Path}

	// build through the real loaders
	var bal c01Bal
	if p.Path == "gslb" {
		g := &c01Gslb{}
		if p.Blackhole0 {
			g.extra = []subSpec{{Name: "GSLB_BLACKHOLE", Weight: 0, NoList: true}}
		}
		r, err := newRig(g.subs(members), gbSpec{CrossRetry: 0, RetryMax: 2, Strategy: stratIPOnly, Mode: "WRR"})
		if err != nil {
			rec.Excluded("loader-rejected")
			return
		}
		g.r = r
		req, err := mkReq(reqSpec{URI: "/", IP: "1.2.3.4"})
		if err != nil {
			tb.Fatalf("harness: %v", err)
		}
		g.req = req
		bal = g
	} else {
		conf, err := loadSub(members)
		if err != nil {
			rec.Excluded("loader-rejected")
			return
		}
		brr := bal_slb.NewBalanceRR("s")
		brr.Init(conf)
		bal = &c01RR{brr: brr}
	}
	hs := bal.handles()
	hasZero := false
	for _, m := range members {
		if !avail[m.key()] {
			for _, h := range hs[m.key()] {
				h.SetAvail(false)
			}
		}
		if m.Weight <= 0 {
			hasZero = true
		}
	}
	if len(p.Down) > 0 {
		classes = append(classes, "has-unavailable")
	}
	if hasZero {
		classes = append(classes, "has-nonpositive-weight")
	}

	elig := c01Eligible(members, avail)
	ep := newC01Epoch("init", elig)
	model := newSWRR(elig)
	cm := newCarry(members, avail)
	var modelSeq, carrySeq []string
	witness := func() map[string]any {
		return map[string]any{"plan": p, "epoch_started_by": ep.startedBy, "epoch_eligible": fmtBackends(ep.elig),
			"epoch_picks": len(ep.seq), "credits_now": bal.credits()}
	}
	suffix := func(i int) string {
		if len(ep.noopAt) > 0 && i >= ep.noopAt[0] {
			return "-after-noop-reload"
		}
		return ""
	}

	// run k picks and check the epoch so far; false = stop the case
	doPicks := func(k int) bool {
		for i := 0; i < k; i++ {
			id, err := bal.pick()
			if len(ep.elig) == 0 {
				if err == nil {
					w := witness()
					w["picked"] = id
					rec.Fail(tb, "pick-without-eligible", w, "no eligible backend but %s was returned", id)
					return false
				}
				return true // nothing more to observe
			}
			if err != nil {
				rec.Fail(tb, "error-with-eligible", witness(), "Balance failed (%v) although eligible backends exist: %s", err, fmtBackends(ep.elig))
				return false
			}
			if _, ok := ep.want[id]; !ok {
				w := witness()
				w["picked"] = id
				rec.Fail(tb, "ineligible-picked", w, "picked %s which is unavailable or has weight<=0", id)
				return false
			}
			ep.seq = append(ep.seq, id)
			carrySeq = append(carrySeq, cm.next())
			if ep.startedBy == "init" {
				modelSeq = append(modelSeq, model.next())
			}
		}
		// (i) exact sequence from a fresh load
		if ep.startedBy == "init" {
			for i := range ep.seq {
				if ep.seq[i] != modelSeq[i] {
					w := witness()
					w["index"] = i
					w["got_prefix"] = ep.seq[:i+1]
					w["want_prefix"] = modelSeq[:i+1]
					rec.Fail(tb, "fresh-sequence"+suffix(i), w, "pick #%d after a fresh load is %s, smooth-WRR model says %s (eligible %s)", i, ep.seq[i], modelSeq[i], fmtBackends(ep.elig))
					return false
				}
			}
		}
		// (ii)/(iv) window law
		if s, cnt := ep.firstBadWindow(); s >= 0 {
			w := witness()
			w["window_start"] = s
			w["window_counts"] = cnt
			w["want_counts"] = ep.want
			hi := s + ep.W
			if hi-s > 64 {
				hi = s + 64
			}
			w["window_head"] = ep.seq[s:hi]
			key := "fresh-window" + suffix(s+ep.W-1)
			switch ep.startedBy {
			case "init":
			case "flip":
				key = "window-after-availability-change"
				w["claimed_from_pick"] = ep.claimFrom
			default:
				key = "post-reload-window"
			}
			rec.Fail(tb, key, w, "window of W=%d picks starting at pick #%d of the epoch begun by %q has counts %v, want %v", ep.W, s, ep.startedBy, cnt, ep.want)
			return false
		}
		// (v) and reload epochs: exact sequence of the documented algorithm from its state
		if ep.startedBy != "init" {
			for i := range ep.seq {
				if ep.seq[i] != carrySeq[i] {
					w := witness()
					w["index"] = i
					hi := i + 1
					lo := hi - 24
					if lo < 0 {
						lo = 0
					}
					w["got_tail"] = ep.seq[lo:hi]
					w["want_tail"] = carrySeq[lo:hi]
					key := "sequence-after-reload"
					if ep.startedBy == "flip" {
						key = "sequence-after-availability-change"
					}
					rec.Fail(tb, key, w, "pick #%d of the phase begun by %q is %s, the documented algorithm continued from its credits gives %s (eligible %s)", i, ep.startedBy, ep.seq[i], carrySeq[i], fmtBackends(ep.elig))
					return false
				}
			}
		}
		// (iii) period W
		for i := ep.claimFrom; ep.claimFrom >= 0 && i+ep.W < len(ep.seq); i++ {
			if ep.seq[i] != ep.seq[i+ep.W] {
				w := witness()
				w["index"] = i
				rec.Fail(tb, "period"+suffix(i+ep.W), w, "pick #%d (%s) differs from pick #%d (%s), period W=%d", i, ep.seq[i], i+ep.W, ep.seq[i+ep.W], ep.W)
				return false
			}
		}
		return true
	}
	pickCount := func() int {
		if ep.W == 0 {
			return 1
		}
		n := p.Periods*ep.W + p.OffPct*ep.W/100
		if ep.startedBy == "flip" && ep.claimFrom > 0 {
			n += ep.claimFrom // observe full periods behind the transient of the reference run
		}
		return n
	}

	distinct := map[int]bool{}
	for _, b := range elig {
		distinct[b.Weight] = true
	}
	nt := len(elig) >= 2 && len(distinct) >= 2 && p.Periods >= 3
	switch len(elig) {
	case 0:
		classes = append(classes, "no-eligible")
	case 1:
		classes = append(classes, "single-eligible")
	}

	ok := doPicks(pickCount())
	nUpd := 0
	for _, u := range p.Updates {
		if !ok {
			break
		}
		if u.Kind == "flip" {
			hs := bal.handles()
			flipped := []string{}
			for _, k := range u.Flip {
				if _, ok := avail[k]; !ok || len(hs[k]) == 0 {
					continue // removed by an earlier reload
				}
				nv := !avail[k]
				if nv {
					hs[k][0].SetRestart(true) // what the health checker does on recovery
				}
				hs[k][0].SetAvail(nv)
				avail[k] = nv
				cm.setAvail(k, nv)
				flipped = append(flipped, fmt.Sprintf("%s=%v", k, nv))
			}
			nUpd++
			nelig := c01Eligible(members, avail)
			if c01Same(ep.elig, nelig) {
				ep.noopAt = append(ep.noopAt, len(ep.seq))
				classes = append(classes, "upd=flip-of-ineligible-member")
			} else {
				kind := "flip:down"
				if len(nelig) > len(ep.elig) {
					kind = "flip:up"
				} else if len(nelig) == len(ep.elig) {
					kind = "flip:swap"
				}
				ep = newC01Epoch("flip", nelig)
				carrySeq = nil
				// the documented algorithm keeps its credits across the change; the
				// window law is claimed from where its own run has become periodic
				if ep.W > 0 {
					ep.claimFrom = cm.periodicFrom(ep.W, 3000)
					if ep.claimFrom < 0 {
						kind += ",no-window-claim"
					} else if ep.claimFrom > 0 {
						kind += ",transient"
					}
				}
				classes = append(classes, "upd="+kind)
			}
			ok = doPicks(pickCount())
			continue
		}
		if err := bal.update(u.Next); err != nil {
			// the loader refuses a list without any positive weight: bfe keeps
			// the old configuration, nothing new to observe
			rec.Excluded("reload-rejected")
			break
		}
		nUpd++
		nav := map[string]bool{} // survivors keep their state, new members start available
		for _, m := range u.Next {
			if a, was := avail[m.key()]; was {
				nav[m.key()] = a
			} else {
				nav[m.key()] = true
			}
		}
		avail = nav
		members = u.Next
		nelig := c01Eligible(members, avail)
		cm.reload(members, bal.order(), !c01Same(ep.elig, nelig))
		if c01Same(ep.elig, nelig) {
			ep.noopAt = append(ep.noopAt, len(ep.seq))
			classes = append(classes, "upd=effective-noop("+u.Kind+")")
		} else {
			by := "members"
			if c01SameMembers(ep.elig, nelig) {
				by = "reweight"
			}
			classes = append(classes, "upd=changed-"+by)
			ep = newC01Epoch(by, nelig)
			carrySeq = nil
		}
		ok = doPicks(pickCount())
	}
	if nUpd == 0 {
		classes = append(classes, "upd=none")
	}
	rec.Case(p.fingerprint(), nt, classes...)
	rec.Sample(p)
}

package bal

// C01: smooth weighted round-robin gives exact weight shares.
//
// Oracle (written from the statement, nginx-style smooth WRR on the configured
// weights, independent of bfe's x100 scaling and of its "pick, then add" form):
//  (i)   from a fresh load the pick sequence equals the model sequence;
//  (ii)  every window of W consecutive picks inside one epoch contains each
//        eligible backend exactly weight times (sliding, all offsets);
//  (iii) the sequence has period W;
//  (iv)  (ii) holds from the first pick after a reload that changed the eligible
//        weights/members ("every starting point after a (re)load"); a reload
//        that leaves the eligible weights unchanged does not start a new epoch,
//        so windows spanning it must be exact as well.

import (
	"fmt"
	"strings"
	"testing"

	"github.com/bfenetworks/bfe/bfe_balance/backend"
	"github.com/bfenetworks/bfe/bfe_balance/bal_slb"
	"github.com/bfenetworks/bfe/bfe_basic"
	"pgregory.net/rapid"

	"verif/harness/internal/ev"
)

type swrr struct {
	ids   []string
	w     []int
	cur   []int
	total int
}

func newSWRR(ms []beSpec) *swrr {
	m := &swrr{}
	for _, b := range ms {
		m.ids = append(m.ids, b.key())
		m.w = append(m.w, b.Weight)
		m.cur = append(m.cur, 0)
		m.total += b.Weight
	}
	return m
}

func (m *swrr) next() string {
	best := -1
	for i := range m.w {
		m.cur[i] += m.w[i]
		if best < 0 || m.cur[i] > m.cur[best] {
			best = i
		}
	}
	m.cur[best] -= m.total
	return m.ids[best]
}

// c01Bal abstracts the two observation points of the property.
type c01Bal interface {
	pick() (string, error)
	update(ms []beSpec) error
	handles() map[string][]*backend.BfeBackend
	credits() []string
}

type c01RR struct{ brr *bal_slb.BalanceRR }

func (b *c01RR) pick() (string, error) {
	be, err := b.brr.Balance(bal_slb.WrrSmooth, nil)
	if err != nil {
		return "", err
	}
	return be.AddrInfo, nil
}
func (b *c01RR) update(ms []beSpec) error {
	conf, err := loadSub(ms)
	if err != nil {
		return err
	}
	b.brr.Update(conf)
	return nil
}
func (b *c01RR) handles() map[string][]*backend.BfeBackend { return rrHandles(b.brr) }
func (b *c01RR) credits() []string                          { return rrCredits(b.brr) }

type c01Gslb struct {
	r     *rig
	extra []subSpec
	req   *bfe_basic.Request
}

const c01Sub = "sub.verif.a"

func (b *c01Gslb) subs(ms []beSpec) []subSpec {
	return append([]subSpec{{Name: c01Sub, Weight: 100, Backends: ms}}, b.extra...)
}
func (b *c01Gslb) pick() (string, error) {
	b.req.RetryTime = 0
	be, err := b.r.bal.Balance(b.req)
	if err != nil {
		return "", err
	}
	return be.AddrInfo, nil
}
func (b *c01Gslb) update(ms []beSpec) error { return b.r.reload(b.subs(ms)) }
func (b *c01Gslb) handles() map[string][]*backend.BfeBackend {
	return b.r.handles()[c01Sub]
}
func (b *c01Gslb) credits() []string {
	for i := 0; i < b.r.bal.SubClusterNum(); i++ {
		if n, brr := b.r.bal.VerifSubClusterAt(i); n == c01Sub {
			return rrCredits(brr)
		}
	}
	return nil
}

func c01Eligible(ms []beSpec, avail map[string]bool) []beSpec {
	var out []beSpec
	for _, b := range ms {
		if b.Weight > 0 && avail[b.key()] {
			out = append(out, b)
		}
	}
	return out
}

func c01Same(a, b []beSpec) bool {
	if len(a) != len(b) {
		return false
	}
	m := map[string]int{}
	for _, x := range a {
		m[x.key()] = x.Weight
	}
	for _, x := range b {
		if w, ok := m[x.key()]; !ok || w != x.Weight {
			return false
		}
	}
	return true
}

func c01SameMembers(a, b []beSpec) bool {
	if len(a) != len(b) {
		return false
	}
	m := map[string]bool{}
	for _, x := range a {
		m[x.key()] = true
	}
	for _, x := range b {
		if !m[x.key()] {
			return false
		}
	}
	return true
}

type c01Epoch struct {
	startedBy string // "init", "reweight", "members"
	elig      []beSpec
	want      map[string]int
	W         int
	seq       []string
	noopAt    []int // indices in seq at which a no-op reload happened
}

func newC01Epoch(by string, elig []beSpec) *c01Epoch {
	e := &c01Epoch{startedBy: by, elig: elig, want: map[string]int{}}
	for _, b := range elig {
		e.want[b.key()] = b.Weight
		e.W += b.Weight
	}
	return e
}

// firstBadWindow returns the start of the first window of W picks whose counts
// differ from want, or -1.
func (e *c01Epoch) firstBadWindow() (int, map[string]int) {
	if len(e.seq) < e.W {
		return -1, nil
	}
	cnt := map[string]int{}
	bad := 0 // number of ids whose count differs from want
	for id, w := range e.want {
		_ = id
		if w != 0 {
			bad++
		}
	}
	bump := func(id string, d int) {
		before := cnt[id] == e.want[id]
		cnt[id] += d
		after := cnt[id] == e.want[id]
		if before && !after {
			bad++
		} else if !before && after {
			bad--
		}
	}
	for i, id := range e.seq {
		bump(id, 1)
		if i >= e.W {
			bump(e.seq[i-e.W], -1)
		}
		if i >= e.W-1 && bad != 0 {
			c := map[string]int{}
			for k, v := range cnt {
				c[k] = v
			}
			return i - e.W + 1, c
		}
	}
	return -1, nil
}

func genC01Weight(rt *rapid.T, regime string, mixZero bool, label string) int {
	if mixZero {
		switch rapid.IntRange(0, 9).Draw(rt, label+"z") {
		case 0, 1:
			return 0
		case 2:
			return -rapid.IntRange(1, 3).Draw(rt, label+"neg")
		}
	}
	switch regime {
	case "tiny":
		return rapid.IntRange(1, 3).Draw(rt, label)
	case "big":
		return rapid.IntRange(1, ev.N(100, 100)).Draw(rt, label)
	default:
		return rapid.IntRange(1, 20).Draw(rt, label)
	}
}

func TestC01(t *testing.T) {
	rec := ev.New("C01", "1..8 backends (weights 1..20, sometimes 1..3 / 1..100 / all equal, weight<=0 and unavailable members mixed in) loaded by ClusterTableLoad into BalanceRR (direct) or a single-sub-cluster BalanceGslb installed via BalTable; 3..6 periods + offset of picks per epoch, up to 2 reloads (no-op, permuted no-op, reweight, member change). non-trivial: >=2 eligible backends with >=2 distinct weights and >=3 periods observed; distinct by members+weights+availability+path+pick counts+reload script")
	rapid.Check(t, func(rt *rapid.T) { c01Case(rt, rec) })
}

func c01Case(rt *rapid.T, rec *ev.Rec) {
	n := rapid.IntRange(1, 8).Draw(rt, "n")
	regime := rapid.SampledFrom([]string{"small", "small", "small", "small", "tiny", "tiny", "big", "equal"}).Draw(rt, "regime")
	mixZero := rapid.IntRange(0, 3).Draw(rt, "mixZero") == 0
	mixDown := rapid.IntRange(0, 3).Draw(rt, "mixDown") == 0
	viaGslb := rapid.Bool().Draw(rt, "viaGslb")
	members := genEndpoints(rt, n, "endpoints")
	eq := 0
	if regime == "equal" {
		eq = rapid.IntRange(1, 20).Draw(rt, "eqw")
	}
	avail := map[string]bool{}
	for i := range members {
		if regime == "equal" {
			members[i].Weight = eq
		} else {
			members[i].Weight = genC01Weight(rt, regime, mixZero, fmt.Sprintf("w%d", i))
		}
		avail[members[i].key()] = !(mixDown && rapid.IntRange(0, 3).Draw(rt, fmt.Sprintf("down%d", i)) == 0)
	}
	periods := rapid.IntRange(3, 6).Draw(rt, "periods")
	offFrac := rapid.IntRange(0, 99).Draw(rt, "offset%")
	nUpd := rapid.SampledFrom([]int{0, 1, 1, 2, 2}).Draw(rt, "nUpdates")

	classes := []string{"n=" + fmt.Sprint(n), "regime=" + regime}
	path := "rr"
	if viaGslb {
		path = "gslb"
	}
	classes = append(classes, "path="+path)
	var fpb strings.Builder
	fmt.Fprintf(&fpb, "%s|%s|", path, fmtBackends(members))
	for _, m := range members {
		if !avail[m.key()] {
			fpb.WriteString("D")
		} else {
			fpb.WriteString("U")
		}
	}
	fmt.Fprintf(&fpb, "|p%d o%d", periods, offFrac)

	// build through the real loaders
	var bal c01Bal
	if viaGslb {
		g := &c01Gslb{}
		if rapid.Bool().Draw(rt, "withBlackhole0") {
			g.extra = []subSpec{{Name: "GSLB_BLACKHOLE", Weight: 0, NoList: true}}
		}
		r, err := newRig(g.subs(members), gbSpec{CrossRetry: 0, RetryMax: 2, Strategy: stratIPOnly, Mode: "WRR"})
		if err != nil {
			rec.Excluded("loader-rejected")
			return
		}
		g.r = r
		req, err := mkReq(reqSpec{URI: "/", IP: "1.2.3.4"})
		if err != nil {
			rt.Fatalf("harness: %v", err)
		}
		g.req = req
		bal = g
	} else {
		conf, err := loadSub(members)
		if err != nil {
			rec.Excluded("loader-rejected")
			return
		}
		brr := bal_slb.NewBalanceRR("s")
		brr.Init(conf)
		bal = &c01RR{brr: brr}
	}
	hs := bal.handles()
	hasDown, hasZero := false, false
	for _, m := range members {
		if !avail[m.key()] {
			hasDown = true
			for _, h := range hs[m.key()] {
				h.SetAvail(false)
			}
		}
		if m.Weight <= 0 {
			hasZero = true
		}
	}
	if hasDown {
		classes = append(classes, "has-unavailable")
	}
	if hasZero {
		classes = append(classes, "has-nonpositive-weight")
	}

	elig := c01Eligible(members, avail)
	ep := newC01Epoch("init", elig)
	model := newSWRR(elig)
	var modelSeq []string
	script := []string{}
	witness := func() map[string]any {
		return map[string]any{"path": path, "members": fmtBackends(members), "available": fmt.Sprint(avail),
			"script": script, "epoch_started_by": ep.startedBy, "epoch_eligible": fmtBackends(ep.elig), "epoch_picks": len(ep.seq)}
	}
	suffix := func(i int) string {
		if len(ep.noopAt) > 0 && i >= ep.noopAt[0] {
			return "-after-noop-reload"
		}
		return ""
	}

	// run picks and check the epoch so far; returns false when the case must stop
	doPicks := func(k int) bool {
		for i := 0; i < k; i++ {
			id, err := bal.pick()
			if len(ep.elig) == 0 {
				if err == nil {
					w := witness()
					w["picked"] = id
					rec.Fail(rt, "pick-without-eligible", w, "no eligible backend but %s was returned", id)
					return false
				}
				return true // nothing more to observe
			}
			if err != nil {
				if !rec.Fail(rt, "error-with-eligible", witness(), "Balance failed (%v) although eligible backends exist: %s", err, fmtBackends(ep.elig)) {
					return false
				}
			}
			if _, ok := ep.want[id]; !ok {
				w := witness()
				w["picked"] = id
				rec.Fail(rt, "ineligible-picked", w, "picked %s which is unavailable or has weight<=0", id)
				return false
			}
			ep.seq = append(ep.seq, id)
			if ep.startedBy == "init" {
				modelSeq = append(modelSeq, model.next())
			}
		}
		// (i) exact sequence from a fresh load
		if ep.startedBy == "init" {
			for i := range ep.seq {
				if ep.seq[i] != modelSeq[i] {
					w := witness()
					w["index"] = i
					w["got_prefix"] = ep.seq[:i+1]
					w["want_prefix"] = modelSeq[:i+1]
					if !rec.Fail(rt, "fresh-sequence"+suffix(i), w, "pick #%d after a fresh load is %s, smooth-WRR model says %s (eligible %s)", i, ep.seq[i], modelSeq[i], fmtBackends(ep.elig)) {
						return false
					}
				}
			}
		}
		// (ii)/(iv) window law
		if s, cnt := ep.firstBadWindow(); s >= 0 {
			w := witness()
			w["window_start"] = s
			w["window_counts"] = cnt
			w["want_counts"] = ep.want
			w["credits_now"] = bal.credits()
			lo := s
			hi := s + ep.W
			if hi-lo > 64 {
				hi = lo + 64
			}
			w["window_head"] = ep.seq[lo:hi]
			key := "fresh-window" + suffix(s+ep.W-1)
			if ep.startedBy != "init" {
				key = "stale-credit-after-" + ep.startedBy
			}
			rec.Fail(rt, key, w, "window of W=%d picks starting at pick #%d of the epoch begun by %q has counts %v, want %v", ep.W, s, ep.startedBy, cnt, ep.want)
			return false
		}
		// (iii) period W
		for i := 0; i+ep.W < len(ep.seq); i++ {
			if ep.seq[i] != ep.seq[i+ep.W] {
				w := witness()
				w["index"] = i
				rec.Fail(rt, "period"+suffix(i+ep.W), w, "pick #%d (%s) differs from pick #%d (%s), period W=%d", i, ep.seq[i], i+ep.W, ep.seq[i+ep.W], ep.W)
				return false
			}
		}
		return true
	}

	pickCount := func() int {
		w := ep.W
		if w == 0 {
			return 1
		}
		return periods*w + offFrac*w/100
	}

	nt := false
	{
		distinct := map[int]bool{}
		for _, b := range elig {
			distinct[b.Weight] = true
		}
		nt = len(elig) >= 2 && len(distinct) >= 2 && periods >= 3
	}
	if len(elig) == 0 {
		classes = append(classes, "no-eligible")
	}
	if len(elig) == 1 {
		classes = append(classes, "single-eligible")
	}

	ok := doPicks(pickCount())
	updKinds := []string{}
	for u := 0; ok && u < nUpd; u++ {
		kind := rapid.SampledFrom([]string{"noop", "noop-perm", "reweight", "reweight", "members", "members"}).Draw(rt, fmt.Sprintf("upd%d", u))
		next := append([]beSpec(nil), members...)
		switch kind {
		case "noop":
		case "noop-perm":
			next = rapid.Permutation(next).Draw(rt, fmt.Sprintf("perm%d", u))
		case "reweight":
			for i := range next {
				if rapid.Bool().Draw(rt, fmt.Sprintf("chg%d_%d", u, i)) {
					r := regime
					if r == "equal" {
						r = "small"
					}
					next[i].Weight = genC01Weight(rt, r, mixZero, fmt.Sprintf("nw%d_%d", u, i))
				}
			}
		case "members":
			keep := next[:0:0]
			for i := range next {
				if rapid.IntRange(0, 2).Draw(rt, fmt.Sprintf("rm%d_%d", u, i)) != 0 {
					keep = append(keep, next[i])
				}
			}
			next = keep
			add := rapid.IntRange(0, 2).Draw(rt, fmt.Sprintf("add%d", u))
			if len(next) == 0 && add == 0 {
				add = 1
			}
			used := map[string]bool{}
			for _, m := range members {
				used[m.key()] = true
			}
			cands := genEndpoints(rt, len(addrPool)*len(portPool), fmt.Sprintf("newEndpoints%d", u))
			for _, c := range cands {
				if add == 0 || len(next) >= 8 {
					break
				}
				if used[c.key()] {
					continue
				}
				r := regime
				if r == "equal" {
					r = "small"
				}
				c.Weight = genC01Weight(rt, r, false, fmt.Sprintf("addw%d_%d", u, add))
				next = append(next, c)
				add--
			}
			if rapid.Bool().Draw(rt, fmt.Sprintf("permAfter%d", u)) {
				next = rapid.Permutation(next).Draw(rt, fmt.Sprintf("permM%d", u))
			}
		}
		if err := bal.update(next); err != nil {
			// the loader refuses a list without any positive weight: the old
			// configuration stays in force in bfe, nothing to observe
			rec.Excluded("reload-rejected")
			break
		}
		script = append(script, fmt.Sprintf("%s@%d -> %s", kind, len(ep.seq), fmtBackends(next)))
		fmt.Fprintf(&fpb, "|%s@%d:%s", kind, len(ep.seq), fmtBackends(next))
		// availability model: surviving members keep their state, new ones start available
		nav := map[string]bool{}
		for _, m := range next {
			if a, was := avail[m.key()]; was {
				nav[m.key()] = a
			} else {
				nav[m.key()] = true
			}
		}
		avail = nav
		members = next
		nelig := c01Eligible(members, avail)
		if c01Same(ep.elig, nelig) {
			ep.noopAt = append(ep.noopAt, len(ep.seq))
			updKinds = append(updKinds, "upd=effective-noop("+kind+")")
		} else {
			by := "members"
			if c01SameMembers(ep.elig, nelig) {
				by = "reweight"
			}
			updKinds = append(updKinds, "upd=changed-"+by)
			ep = newC01Epoch(by, nelig)
		}
		ok = doPicks(pickCount())
	}
	classes = append(classes, updKinds...)
	if len(updKinds) == 0 {
		classes = append(classes, "upd=none")
	}
	rec.Case(fpb.String(), nt, classes...)
	rec.Sample(map[string]any{"path": path, "members": fmtBackends(members), "script": script, "periods": periods})
}

package bal

// Shared rig of the balancing checks C01..C04.
//
// Configurations are written as JSON text (key / list order under control of
// the generator), loaded by bfe's own loaders and installed exactly the way
// bfe_server does it: BalTable.Init / BalTableConfLoad+BalTableReload,
// ClusterTable.Init (cluster_conf.data) + BalTable.SetGslbBasic/SetSlowStart.
// The direct BalanceRR path uses NewBalanceRR/Init/Update with loader output.

import (
	"encoding/json"
	"fmt"
	"net"
	"os"
	"path/filepath"
	"sort"
	"strings"

	"github.com/bfenetworks/bfe/bfe_balance"
	"github.com/bfenetworks/bfe/bfe_balance/backend"
	"github.com/bfenetworks/bfe/bfe_balance/bal_gslb"
	"github.com/bfenetworks/bfe/bfe_balance/bal_slb"
	"github.com/bfenetworks/bfe/bfe_basic"
	"github.com/bfenetworks/bfe/bfe_bufio"
	"github.com/bfenetworks/bfe/bfe_config/bfe_cluster_conf/cluster_table_conf"
	"github.com/bfenetworks/bfe/bfe_http"
	"github.com/bfenetworks/bfe/bfe_route"
	"pgregory.net/rapid"
)

const clusterName = "c_verif"

// hash strategies (values as documented for cluster_conf.data HashStrategy)
const (
	stratIDOnly      = 0
	stratIPOnly      = 1
	stratIDPreferred = 2
	stratURI         = 3
)

type beSpec struct {
	Name   string
	Addr   string
	Port   int
	Weight int
}

func (b beSpec) key() string { return fmt.Sprintf("%s:%d", b.Addr, b.Port) }

type subSpec struct {
	Name     string
	Weight   int
	Backends []beSpec
	NoList   bool // named in gslb.data but absent from cluster_table.data
}

type gbSpec struct {
	CrossRetry int
	RetryMax   int
	Strategy   int
	Header     string
	Sticky     bool
	Mode       string
	SlowStart  int // BackendConf.SlowStartTime in seconds (0 = off)
}

func jstr(s string) string { b, _ := json.Marshal(s); return string(b) }

func clusterTableJSON(subs []subSpec) string {
	var sb strings.Builder
	sb.WriteString(`{"Version":"v1","Config":{` + jstr(clusterName) + `:{`)
	first := true
	for _, s := range subs {
		if s.NoList {
			continue
		}
		if !first {
			sb.WriteString(",")
		}
		first = false
		sb.WriteString(jstr(s.Name) + ":[")
		for i, b := range s.Backends {
			if i > 0 {
				sb.WriteString(",")
			}
			fmt.Fprintf(&sb, `{"Name":%s,"Addr":%s,"Port":%d,"Weight":%d}`, jstr(b.Name), jstr(b.Addr), b.Port, b.Weight)
		}
		sb.WriteString("]")
	}
	sb.WriteString("}}}")
	return sb.String()
}

func gslbJSON(subs []subSpec) string {
	var sb strings.Builder
	sb.WriteString(`{"Clusters":{` + jstr(clusterName) + `:{`)
	for i, s := range subs {
		if i > 0 {
			sb.WriteString(",")
		}
		fmt.Fprintf(&sb, "%s:%d", jstr(s.Name), s.Weight)
	}
	sb.WriteString(`}},"Hostname":"gslb-sch.verif","Ts":"20240101000000"}`)
	return sb.String()
}

func clusterConfJSON(gb gbSpec) string {
	hdr := ""
	if gb.Header != "" {
		hdr = `"HashHeader":` + jstr(gb.Header) + `,`
	}
	bc := ""
	if gb.SlowStart > 0 {
		bc = fmt.Sprintf(`"BackendConf":{"SlowStartTime":%d},`, gb.SlowStart)
	}
	return fmt.Sprintf(`{"Version":"v1","Config":{%s:{%s"GslbBasic":{"CrossRetry":%d,"RetryMax":%d,"HashConf":{"HashStrategy":%d,%s"SessionSticky":%v},"BalanceMode":%s}}}}`,
		jstr(clusterName), bc, gb.CrossRetry, gb.RetryMax, gb.Strategy, hdr, gb.Sticky, jstr(gb.Mode))
}

var confDir string

func writeConf(name, text string) string {
	if confDir == "" {
		// scratch data files for the loaders; tmpfs when there is one (thousands
		// of rewrites per run), else the work directory of the run
		d := os.Getenv("VERIF_WORK")
		if d == "" {
			d = os.TempDir()
		}
		if shm := filepath.Join("/dev/shm", fmt.Sprintf("verif-balconf-%d", os.Getpid())); os.MkdirAll(shm, 0o755) == nil {
			confDir = shm
		} else {
			confDir = filepath.Join(d, fmt.Sprintf("balconf-%d", os.Getpid()))
			os.MkdirAll(confDir, 0o755)
		}
	}
	p := filepath.Join(confDir, name)
	if err := os.WriteFile(p, []byte(text), 0o644); err != nil {
		panic(err)
	}
	return p
}

// rig is one cluster installed in a BalTable the way bfe_server does it.
type rig struct {
	bt  *bfe_balance.BalTable
	ct  *bfe_route.ClusterTable
	bal *bal_gslb.BalanceGslb
}

// newRig loads the three data files through the real loaders. A loader
// rejection is returned as error (the case is outside the domain).
func newRig(subs []subSpec, gb gbSpec) (*rig, error) {
	gf := writeConf("gslb.data", gslbJSON(subs))
	cf := writeConf("cluster_table.data", clusterTableJSON(subs))
	ccf := writeConf("cluster_conf.data", clusterConfJSON(gb))
	r := &rig{bt: bfe_balance.NewBalTable(nil), ct: new(bfe_route.ClusterTable)}
	if err := r.ct.Init(ccf); err != nil {
		return nil, fmt.Errorf("cluster_conf: %v", err)
	}
	if err := r.bt.Init(gf, cf); err != nil {
		return nil, fmt.Errorf("bal table: %v", err)
	}
	r.bt.SetGslbBasic(r.ct)
	r.bt.SetSlowStart(r.ct)
	bal, err := r.bt.Lookup(clusterName)
	if err != nil {
		return nil, err
	}
	r.bal = bal
	return r, nil
}

// reload mirrors BfeServer.gslbDataConfReload.
func (r *rig) reload(subs []subSpec) error {
	gf := writeConf("gslb.data", gslbJSON(subs))
	cf := writeConf("cluster_table.data", clusterTableJSON(subs))
	g, b, err := r.bt.BalTableConfLoad(gf, cf)
	if err != nil {
		return err
	}
	if err := r.bt.BalTableReload(g, b); err != nil {
		return err
	}
	r.bt.SetGslbBasic(r.ct)
	r.bt.SetSlowStart(r.ct)
	bal, err := r.bt.Lookup(clusterName)
	if err != nil {
		return err
	}
	r.bal = bal
	return nil
}

// reloadClusterConf mirrors BfeServer.serverDataConfReload for cluster_conf.data:
// a new ClusterTable is loaded and handed to SetGslbBasic / SetSlowStart.
func (r *rig) reloadClusterConf(gb gbSpec) error {
	ccf := writeConf("cluster_conf.data", clusterConfJSON(gb))
	ct := new(bfe_route.ClusterTable)
	if err := ct.Init(ccf); err != nil {
		return err
	}
	r.ct = ct
	r.bt.SetGslbBasic(r.ct)
	r.bt.SetSlowStart(r.ct)
	return nil
}

// handles returns sub-cluster name -> "addr:port" -> backend handles.
func (r *rig) handles() map[string]map[string][]*backend.BfeBackend {
	out := map[string]map[string][]*backend.BfeBackend{}
	for i := 0; i < r.bal.SubClusterNum(); i++ {
		name, brr := r.bal.VerifSubClusterAt(i)
		out[name] = rrHandles(brr)
	}
	return out
}

func rrHandles(brr *bal_slb.BalanceRR) map[string][]*backend.BfeBackend {
	m := map[string][]*backend.BfeBackend{}
	for j := 0; j < brr.Len(); j++ {
		b := brr.VerifBackendAt(j)
		m[b.AddrInfo] = append(m[b.AddrInfo], b)
	}
	return m
}

func rrOrder(brr *bal_slb.BalanceRR) []string {
	var out []string
	for j := 0; j < brr.Len(); j++ {
		out = append(out, brr.VerifBackendAt(j).AddrInfo)
	}
	return out
}

func rrCredits(brr *bal_slb.BalanceRR) []string {
	var out []string
	for j := 0; j < brr.Len(); j++ {
		w, c := brr.VerifCreditAt(j)
		out = append(out, fmt.Sprintf("%s w=%d cur=%d", brr.VerifBackendAt(j).AddrInfo, w, c))
	}
	return out
}

// loadSub loads one backend list through ClusterTableLoad.
func loadSub(bs []beSpec) (cluster_table_conf.SubClusterBackend, error) {
	cf := writeConf("cluster_table.data", clusterTableJSON([]subSpec{{Name: "s", Backends: bs}}))
	conf, err := cluster_table_conf.ClusterTableLoad(cf)
	if err != nil {
		return nil, err
	}
	return (*conf.Config)[clusterName]["s"], nil
}

// ---- requests -------------------------------------------------------------

type reqSpec struct {
	URI       string
	Headers   [][2]string
	IP        string // textual client address, "" = no client address known
	IP4Form   bool   // 4-byte net.IP representation for IPv4 (as produced by the kernel path), else 16-byte
	RetryTime int
}

// mkReq parses a real HTTP/1.1 request head with bfe_http.ReadRequest and wraps
// it like http_conn does (bfe_basic.NewRequest + setClientAddr for an untrusted
// peer: ClientAddr = RemoteAddr).
func mkReq(rs reqSpec) (*bfe_basic.Request, error) {
	var sb strings.Builder
	sb.WriteString("GET " + rs.URI + " HTTP/1.1\r\nHost: example.org\r\n")
	for _, h := range rs.Headers {
		sb.WriteString(h[0] + ": " + h[1] + "\r\n")
	}
	sb.WriteString("\r\n")
	hr, err := bfe_http.ReadRequest(bfe_bufio.NewReaderSize(strings.NewReader(sb.String()), 1024), 65536)
	if err != nil {
		return nil, err
	}
	req := bfe_basic.NewRequest(hr, nil, nil, nil, nil)
	if rs.IP != "" {
		ip := net.ParseIP(rs.IP)
		if ip == nil {
			return nil, fmt.Errorf("bad ip %q", rs.IP)
		}
		if v4 := ip.To4(); v4 != nil && rs.IP4Form {
			ip = v4
		}
		req.RemoteAddr = &net.TCPAddr{IP: ip, Port: 40000}
		req.ClientAddr = req.RemoteAddr
	}
	req.RetryTime = rs.RetryTime
	return req, nil
}

// modelKey is the documented hash key of a request (cluster_conf HashStrategy):
// CLIENTID = value of HashHeader (plain header, or cookie for "Cookie:Key"),
// CLIENTIP = client address bytes, preferred = id else ip, URI = request URI.
// nil means "no key" (bfe then balances randomly by design).
func modelKey(gb gbSpec, rs reqSpec) []byte {
	ipKey := func() []byte {
		if rs.IP == "" {
			return nil
		}
		ip := net.ParseIP(rs.IP)
		if v4 := ip.To4(); v4 != nil && rs.IP4Form {
			return []byte(v4)
		}
		return []byte(ip)
	}
	idKey := func() []byte {
		if i := strings.Index(gb.Header, ":"); i >= 0 {
			ck := strings.TrimSpace(gb.Header[i+1:])
			for _, h := range rs.Headers {
				if !strings.EqualFold(h[0], "Cookie") {
					continue
				}
				for _, part := range strings.Split(h[1], ";") {
					part = strings.TrimSpace(part)
					if eq := strings.Index(part, "="); eq > 0 && part[:eq] == ck {
						if v := part[eq+1:]; v != "" {
							return []byte(v)
						}
						return nil
					}
				}
			}
			return nil
		}
		for _, h := range rs.Headers {
			if strings.EqualFold(h[0], gb.Header) {
				if h[1] != "" {
					return []byte(h[1])
				}
				return nil
			}
		}
		return nil
	}
	switch gb.Strategy {
	case stratIDOnly:
		return idKey()
	case stratIPOnly:
		return ipKey()
	case stratIDPreferred:
		if k := idKey(); k != nil {
			return k
		}
		return ipKey()
	case stratURI:
		if rs.URI == "" {
			return nil
		}
		return []byte(rs.URI)
	}
	return nil
}

// ---- reference partition model (from the property statement) ---------------

type target struct {
	ID     string // sub-cluster name or "addr:port"
	Weight int    // positive
}

// partition returns the target owning residue r (0 <= r < sum of weights):
// targets ordered by ID, cumulative weights.
func partition(ts []target, r uint64) string {
	s := append([]target(nil), ts...)
	sort.SliceStable(s, func(i, j int) bool { return s[i].ID < s[j].ID })
	var acc uint64
	for _, t := range s {
		acc += uint64(t.Weight)
		if r < acc {
			return t.ID
		}
	}
	return ""
}

func totalWeight(ts []target) uint64 {
	var w uint64
	for _, t := range ts {
		w += uint64(t.Weight)
	}
	return w
}

// ---- generators -------------------------------------------------------------

var addrPool = []string{"10.0.0.1", "10.0.0.2", "10.0.0.10", "10.0.0.21", "10.0.1.1", "192.168.1.5", "9.9.9.9", "a.example", "b.example", "fd00::1"}
var portPool = []int{80, 8080, 81, 8, 9000}

// genEndpoints draws n distinct (addr, port) pairs in a generated order.
func genEndpoints(rt *rapid.T, n int, label string) []beSpec {
	all := make([]int, len(addrPool)*len(portPool))
	for i := range all {
		all[i] = i
	}
	perm := rapid.Permutation(all).Draw(rt, label)
	out := make([]beSpec, n)
	for i := 0; i < n; i++ {
		a, p := perm[i]/len(portPool), perm[i]%len(portPool)
		out[i] = beSpec{Name: fmt.Sprintf("be%d", perm[i]), Addr: addrPool[a], Port: portPool[p]}
	}
	return out
}

func fmtBackends(bs []beSpec) string {
	var sb strings.Builder
	for _, b := range bs {
		fmt.Fprintf(&sb, "%s=%d,", b.key(), b.Weight)
	}
	return sb.String()
}

package bal

import (
	"os"
	"runtime/debug"
	"testing"

	"verif/harness/internal/ev"
)

func TestMain(m *testing.M) {
	// the checks allocate many small short-lived objects (requests, plans); a
	// lazier collector roughly halves the wall time and changes no result
	debug.SetGCPercent(800)
	ev.Main(func() int {
		code := m.Run()
		if confDir != "" {
			os.RemoveAll(confDir)
		}
		return code
	})
}

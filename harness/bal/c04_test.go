package bal

// C04: weighted-least-connection mode picks a backend that minimises
// active connections / weight among the eligible backends; ties are broken
// only among backends sharing that minimum.
//
// Oracle: exact rationals conn/weight (math/big) over the eligible set computed
// from the configuration, the availability script and the connection counters
// the harness itself drove through IncConnNum/DecConnNum. Which member of the
// argmin set is returned is not constrained (WlcSimple picks randomly).

import (
	"encoding/json"
	"fmt"
	"math/big"
	"os"
	"strings"
	"testing"
	"time"

	"github.com/bfenetworks/bfe/bfe_balance/backend"
	"github.com/bfenetworks/bfe/bfe_balance/bal_slb"
	"github.com/bfenetworks/bfe/bfe_basic"
	"pgregory.net/rapid"

	"verif/harness/internal/ev"
)

type c04Step struct {
	Op   string // "pick", "pick-hold" (caller keeps the connection: IncConnNum), "inc", "dec", "flip", "reload", "pick-wait" (pick, then let K ms of slow-start ramp pass)
	I    int    // member index (mod current size)
	K    int    // amount for inc/dec
	Next []beSpec
	// gslb paths
	IP    int    // pick: client address index (decides the assigned sub-cluster)
	Retry bool   // pick: the request already used up its in-sub-cluster retries (RetryTime = RetryMax+1)
	GB    gbSpec // conf: new GslbBasic written to cluster_conf.data and reloaded (server data conf reload)
}

type c04Plan struct {
	Path      string         // "rr-smooth", "rr-simple", "gslb" (one sub-cluster), "gslb-cross" (2-3 sub-clusters, cross retry)
	SlowStart int            // slow start time in seconds, 0 = off
	GB        gbSpec         // gslb paths: initial GslbBasic
	NSub      int            // gslb-cross: number of sub-clusters
	SubOf     map[string]int // gslb-cross: "addr:port" -> sub-cluster index
	Members   []beSpec
	Down      []string
	Conns     []int
	Steps     []c04Step
}

func genC04Weight(rt *rapid.T, label string) int {
	switch rapid.IntRange(0, 15).Draw(rt, label+"k") {
	case 0:
		return 0
	case 1:
		return -rapid.IntRange(1, 3).Draw(rt, label+"n")
	case 2, 3, 4, 5:
		return rapid.IntRange(1, 4).Draw(rt, label+"s")
	}
	return rapid.IntRange(1, 50).Draw(rt, label)
}

func genC04Plan(rt *rapid.T) c04Plan {
	var p c04Plan
	p.Path = rapid.SampledFrom([]string{"rr-smooth", "rr-simple", "gslb", "gslb", "gslb-cross", "gslb-cross"}).Draw(rt, "path")
	n := rapid.SampledFrom([]int{1, 2, 3, 3, 4, 4, 5, 5, 6, 6, 7, 8}).Draw(rt, "n")
	p.NSub = 1
	if p.Path == "gslb-cross" {
		p.NSub = rapid.IntRange(2, 3).Draw(rt, "nsub")
		if n < 2*p.NSub {
			n = 2 * p.NSub
		}
	}
	gslb := strings.HasPrefix(p.Path, "gslb")
	// GslbBasic as an operator writes it; the values include bfe's built-in
	// defaults (RetryMax 3, CrossRetry 1, WRR) and are changed later by "conf" steps
	genGBasic := func(label string) gbSpec {
		gb := gbSpec{Strategy: stratIPOnly,
			RetryMax:   rapid.SampledFrom([]int{0, 1, 2, 3, 3}).Draw(rt, label+"retryMax"),
			CrossRetry: rapid.SampledFrom([]int{0, 1, 1}).Draw(rt, label+"crossRetry"),
			Mode:       rapid.SampledFrom([]string{"WLC", "WLC", "WLC", "WRR"}).Draw(rt, label+"mode")}
		if p.Path == "gslb-cross" && gb.CrossRetry == 0 {
			gb.CrossRetry = 1 + rapid.IntRange(0, 1).Draw(rt, label+"cr")
		}
		return gb
	}
	if gslb {
		p.GB = genGBasic("gb.")
	}
	p.Members = genBackends(rt, n, "m", -1)
	connRegime := rapid.SampledFrom([]string{"zero", "small", "small", "wide", "proportional"}).Draw(rt, "connRegime")
	for i := range p.Members {
		p.Members[i].Weight = genC04Weight(rt, fmt.Sprintf("w%d", i))
		if i < p.NSub && p.Members[i].Weight <= 0 {
			p.Members[i].Weight = 3
		}
		if p.Path == "gslb-cross" {
			if p.SubOf == nil {
				p.SubOf = map[string]int{}
			}
			if i < p.NSub {
				p.SubOf[p.Members[i].key()] = i
			} else {
				p.SubOf[p.Members[i].key()] = rapid.IntRange(0, p.NSub-1).Draw(rt, fmt.Sprintf("sub%d", i))
			}
		}
		if rapid.IntRange(0, 11).Draw(rt, fmt.Sprintf("down%d", i)) == 0 {
			p.Down = append(p.Down, p.Members[i].key())
		}
		c := 0
		switch connRegime {
		case "small":
			c = rapid.IntRange(0, 6).Draw(rt, fmt.Sprintf("c%d", i))
		case "wide":
			c = rapid.IntRange(0, 200).Draw(rt, fmt.Sprintf("c%d", i))
		case "proportional": // equal ratios: ties everywhere
			f := rapid.IntRange(0, 3).Draw(rt, "cf")
			if p.Members[i].Weight > 0 {
				c = f * p.Members[i].Weight
			}
		}
		p.Conns = append(p.Conns, c)
	}
	// slow start: a backend added by a reload or brought back up is flagged
	// restarted and ramps from weight 0 to its configured weight over
	// SlowStartTime seconds of wall clock. The generator lets a few ms pass
	// ("pick-wait") so that picks happen in the middle of a ramp; the oracle reads
	// the effective weights the balancer used, so timing never decides a verdict.
	p.SlowStart = rapid.SampledFrom([]int{0, 0, 0, 1, 1, 2}).Draw(rt, "slowStart")
	ops := []string{"pick", "pick-hold", "pick-hold", "pick-hold", "pick-hold", "inc", "dec", "dec", "dec", "flip", "reload"}
	if p.SlowStart > 0 {
		ops = append(ops, "pick-wait", "flip")
	}
	if gslb {
		p.GB.SlowStart = p.SlowStart
		ops = append(ops, "conf")
	}
	if p.Path == "gslb-cross" {
		ops = append(ops, "flip", "flip", "pick-hold")
	}
	ns := rapid.IntRange(5, 25).Draw(rt, "nsteps")
	members := p.Members
	for s := 0; s < ns; s++ {
		st := c04Step{Op: rapid.SampledFrom(ops).Draw(rt, fmt.Sprintf("op%d", s))}
		st.I = rapid.IntRange(0, 7).Draw(rt, fmt.Sprintf("i%d", s))
		if gslb && strings.HasPrefix(st.Op, "pick") {
			st.IP = rapid.IntRange(0, 15).Draw(rt, fmt.Sprintf("ip%d", s))
			if p.Path == "gslb-cross" {
				st.Retry = rapid.IntRange(0, 2).Draw(rt, fmt.Sprintf("retry%d", s)) == 0
			}
		}
		switch st.Op {
		case "conf":
			st.GB = genGBasic(fmt.Sprintf("conf%d.", s))
			st.GB.SlowStart = p.SlowStart
		case "pick-wait":
			st.K = rapid.IntRange(1, 3).Draw(rt, fmt.Sprintf("ms%d", s))
		case "inc", "dec":
			st.K = rapid.IntRange(1, 5).Draw(rt, fmt.Sprintf("k%d", s))
		case "reload":
			next := append([]beSpec(nil), members...)
			for i := range next {
				if rapid.IntRange(0, 2).Draw(rt, fmt.Sprintf("rw%d_%d", s, i)) == 0 {
					next[i].Weight = genC04Weight(rt, fmt.Sprintf("nw%d_%d", s, i))
				}
			}
			if len(next) > 1 && rapid.IntRange(0, 3).Draw(rt, fmt.Sprintf("rm%d", s)) == 0 {
				next = next[:len(next)-1]
			}
			if rapid.IntRange(0, 3).Draw(rt, fmt.Sprintf("add%d", s)) == 0 && len(next) < 8 {
				used := map[string]bool{}
				for _, m := range members {
					used[m.key()] = true
				}
				for _, c := range genBackends(rt, 2, fmt.Sprintf("new%d", s), -1) {
					if !used[c.key()] {
						c.Weight = genC04Weight(rt, fmt.Sprintf("addw%d", s))
						next = append(next, c)
						if _, ok := p.SubOf[c.key()]; p.Path == "gslb-cross" && !ok {
							p.SubOf[c.key()] = rapid.IntRange(0, p.NSub-1).Draw(rt, fmt.Sprintf("addsub%d", s))
						}
						break
					}
				}
			}
			st.Next = rapid.Permutation(next).Draw(rt, fmt.Sprintf("perm%d", s))
			members = st.Next
		}
		p.Steps = append(p.Steps, st)
	}
	return p
}

func (p c04Plan) fingerprint() string {
	var sb strings.Builder
	fmt.Fprintf(&sb, "%s|ss%d|%s|%v|%v|%+v|%v", p.Path, p.SlowStart, fmtBackends(p.Members), p.Down, p.Conns, p.GB, p.SubOf)
	for _, s := range p.Steps {
		fmt.Fprintf(&sb, "|%s %d %d %s %d %v %+v", s.Op, s.I, s.K, fmtBackends(s.Next), s.IP, s.Retry, s.GB)
	}
	return sb.String()
}

func c04SubName(i int) string { return fmt.Sprintf("sub.wlc%d", i) }

type c04Bal struct {
	path     string
	brr      *bal_slb.BalanceRR
	r        *rig
	nsub     int
	subOf    map[string]int
	reqs     map[int]*bfe_basic.Request
	retryMax int // current RetryMax of the cluster (gslb paths)
}

func (b *c04Bal) subs(ms []beSpec) []subSpec {
	out := make([]subSpec, b.nsub)
	for i := range out {
		out[i] = subSpec{Name: c04SubName(i), Weight: 50}
	}
	for _, m := range ms {
		i := b.subOf[m.key()]
		out[i].Backends = append(out[i].Backends, m)
	}
	return out
}

func (b *c04Bal) pick(st c04Step) (*backend.BfeBackend, error) {
	switch b.path {
	case "rr-smooth":
		return b.brr.Balance(bal_slb.WlcSmooth, nil)
	case "rr-simple":
		return b.brr.Balance(bal_slb.WlcSimple, nil)
	}
	req := b.reqs[st.IP]
	if req == nil {
		var err error
		if req, err = mkReq(reqSpec{URI: "/", IP: fmt.Sprintf("10.1.1.%d", st.IP), IP4Form: true}); err != nil {
			panic(err)
		}
		b.reqs[st.IP] = req
	}
	req.RetryTime = 0
	if st.Retry {
		req.RetryTime = b.retryMax + 1
	}
	return b.r.bal.Balance(req)
}

func (b *c04Bal) update(ms []beSpec) error {
	if b.r != nil {
		return b.r.reload(b.subs(ms))
	}
	conf, err := loadSub(ms)
	if err != nil {
		return err
	}
	b.brr.Update(conf)
	return nil
}

func (b *c04Bal) lists() []*bal_slb.BalanceRR {
	if b.r == nil {
		return []*bal_slb.BalanceRR{b.brr}
	}
	var out []*bal_slb.BalanceRR
	for i := 0; i < b.r.bal.SubClusterNum(); i++ {
		_, x := b.r.bal.VerifSubClusterAt(i)
		out = append(out, x)
	}
	return out
}

// effective returns addr:port -> weight the balancer currently holds (x100 scale).
func (b *c04Bal) effective() map[string]int {
	out := map[string]int{}
	for _, brr := range b.lists() {
		for j := 0; j < brr.Len(); j++ {
			w, _ := brr.VerifCreditAt(j)
			out[brr.VerifBackendAt(j).AddrInfo] = w
		}
	}
	return out
}

func (b *c04Bal) handles() map[string][]*backend.BfeBackend {
	out := map[string][]*backend.BfeBackend{}
	for _, brr := range b.lists() {
		for k, v := range rrHandles(brr) {
			out[k] = append(out[k], v...)
		}
	}
	return out
}

func TestC04(t *testing.T) {
	rec := ev.New("C04", "1..8 backends (weights 1..50, small 1..4, 0 and negative mixed in; some unavailable) with initial active-connection counts (zero / 0..6 / 0..200 / exactly proportional to weight) set via IncConnNum; WlcSmooth and WlcSimple on BalanceRR, and BalanceGslb/BalTable with one sub-cluster or 2-3 sub-clusters with cross retry (GslbBasic RetryMax/CrossRetry/BalanceMode generated incl. bfe's defaults, changed later by cluster_conf reloads); slow start off or 1-2 s; 5..25 steps of pick (client address and used-up retries generated) / pick-and-hold (IncConnNum on the result, as reverseproxy does) / inc / dec / availability flip / reload with new weights or members. every pick is one evaluation. non-trivial: >=2 eligible backends whose conn/weight ratios are not all equal; distinct by configuration+counters+step script prefix")
	if p := os.Getenv("VERIF_REPLAY_JSON"); p != "" {
		var doc struct {
			Witness struct {
				Plan c04Plan `json:"plan"`
			} `json:"witness"`
		}
		b, err := os.ReadFile(p)
		if err != nil || json.Unmarshal(b, &doc) != nil || len(doc.Witness.Plan.Members) == 0 {
			t.Fatalf("cannot read plan from %s", p)
		}
		c04Run(t, rec, doc.Witness.Plan)
		return
	}
	rapid.Check(t, func(rt *rapid.T) { c04Run(rt, rec, genC04Plan(rt)) })
}

func c04Run(tb ev.TB, rec *ev.Rec, p c04Plan) {
	bal := &c04Bal{path: p.Path, nsub: p.NSub, subOf: p.SubOf, reqs: map[int]*bfe_basic.Request{}, retryMax: p.GB.RetryMax}
	if bal.nsub < 1 {
		bal.nsub = 1
	}
	mode := "WLC" // configured balance mode; the property speaks about WLC mode only
	if strings.HasPrefix(p.Path, "gslb") {
		r, err := newRig(bal.subs(p.Members), p.GB)
		if err != nil {
			rec.Excluded("loader-rejected")
			return
		}
		bal.r = r
		mode = strings.ToUpper(p.GB.Mode)
	} else {
		conf, err := loadSub(p.Members)
		if err != nil {
			rec.Excluded("loader-rejected")
			return
		}
		bal.brr = bal_slb.NewBalanceRR("s")
		bal.brr.Init(conf)
		bal.brr.SetSlowStart(p.SlowStart)
	}
	// model state
	members := p.Members
	avail := map[string]bool{}
	ramp := map[string]bool{} // flagged restarted while slow start is on
	conn := map[string]int{}
	hs := bal.handles()
	for i, m := range members {
		avail[m.key()] = true
		for k := 0; k < p.Conns[i]; k++ {
			hs[m.key()][0].IncConnNum()
		}
		conn[m.key()] = p.Conns[i]
	}
	for _, d := range p.Down {
		avail[d] = false
		hs[d][0].SetAvail(false)
	}
	trace := []string{}
	witness := func() map[string]any {
		st := []string{}
		for _, m := range members {
			st = append(st, fmt.Sprintf("%s w=%d conn=%d avail=%v restarted-in-slow-start=%v", m.key(), m.Weight, conn[m.key()], avail[m.key()], ramp[m.key()]))
		}
		return map[string]any{"plan": p, "state_at_failure": st, "trace": trace}
	}
	var fpb strings.Builder
	fmt.Fprintf(&fpb, "%s|ss%d|%s|%v|%v|%+v|%v", p.Path, p.SlowStart, fmtBackends(p.Members), p.Down, p.Conns, p.GB, p.SubOf)

	for _, st := range p.Steps {
		fmt.Fprintf(&fpb, "|%s %d %d %s %d %v %+v", st.Op, st.I, st.K, fmtBackends(st.Next), st.IP, st.Retry, st.GB)
		switch st.Op {
		case "inc", "dec":
			m := members[st.I%len(members)]
			k := st.K
			if st.Op == "dec" {
				if conn[m.key()] < k {
					k = conn[m.key()]
				}
				for j := 0; j < k; j++ {
					hs[m.key()][0].DecConnNum()
				}
				conn[m.key()] -= k
			} else {
				for j := 0; j < k; j++ {
					hs[m.key()][0].IncConnNum()
				}
				conn[m.key()] += k
			}
			trace = append(trace, fmt.Sprintf("%s %s by %d", st.Op, m.key(), k))
		case "flip":
			m := members[st.I%len(members)]
			avail[m.key()] = !avail[m.key()]
			if avail[m.key()] {
				// recovery as done by the health checker: restart flag, then available
				hs[m.key()][0].SetRestart(true)
				if p.SlowStart > 0 {
					ramp[m.key()] = true
				}
			}
			hs[m.key()][0].SetAvail(avail[m.key()])
			trace = append(trace, fmt.Sprintf("avail %s=%v", m.key(), avail[m.key()]))
		case "conf":
			if bal.r == nil {
				continue
			}
			if err := bal.r.reloadClusterConf(st.GB); err != nil {
				tb.Fatalf("harness: cluster_conf reload: %v", err)
			}
			mode = strings.ToUpper(st.GB.Mode)
			bal.retryMax = st.GB.RetryMax
			trace = append(trace, fmt.Sprintf("cluster_conf reload %+v", st.GB))
		case "reload":
			if err := bal.update(st.Next); err != nil {
				rec.Excluded("reload-rejected")
				continue
			}
			na, nc, nr := map[string]bool{}, map[string]int{}, map[string]bool{}
			for _, m := range st.Next {
				if a, was := avail[m.key()]; was {
					na[m.key()], nc[m.key()], nr[m.key()] = a, conn[m.key()], ramp[m.key()]
				} else {
					// new object: available, no connections, flagged restarted by Update
					na[m.key()], nc[m.key()], nr[m.key()] = true, 0, p.SlowStart > 0
				}
			}
			avail, conn, ramp, members = na, nc, nr, st.Next
			hs = bal.handles()
			trace = append(trace, "reload "+fmtBackends(st.Next))
		case "pick", "pick-hold", "pick-wait":
			be, err := bal.pick(st)
			// weights the balancer used for this selection (slow start changes them
			// with the wall clock; nothing else touches them until the next call)
			eff := bal.effective()
			rampingElig := false
			for _, m := range members {
				e, ok := eff[m.key()]
				switch {
				case !ok:
					rec.Fail(tb, "member-missing", witness(), "configured backend %s is not in the balancer's list", m.key())
					return
				case !ramp[m.key()] || m.Weight <= 0:
					if e != m.Weight*100 {
						w := witness()
						w["effective_weights"] = eff
						rec.Fail(tb, "effective-weight-differs-from-configured", w, "backend %s (configured weight %d, restarted under slow start: %v) is scheduled with effective weight %d, want %d", m.key(), m.Weight, ramp[m.key()], e, m.Weight*100)
						return
					}
				case e < 0 || e > m.Weight*100:
					w := witness()
					w["effective_weights"] = eff
					rec.Fail(tb, "ramp-weight-out-of-range", w, "backend %s in slow start has effective weight %d outside 0..%d", m.key(), e, m.Weight*100)
					return
				}
				if avail[m.key()] && e > 0 && e != m.Weight*100 {
					rampingElig = true
				}
			}
			wait := func() {
				if st.Op == "pick-wait" {
					time.Sleep(time.Duration(st.K) * time.Millisecond)
				}
			}
			// the backends the selection was made among: the whole list, or (several
			// sub-clusters) the sub-cluster the returned backend belongs to - first
			// choice or cross-sub-cluster retry alike
			grp := members
			if p.Path == "gslb-cross" {
				if be == nil || err != nil {
					// whether an error is legitimate here is C03's question
					rec.Case(fpb.String(), false, "path="+p.Path, "cross:error-no-claim")
					trace = append(trace, fmt.Sprintf("%s(ip=%d,retry=%v) -> error %v", st.Op, st.IP, st.Retry, err))
					wait()
					continue
				}
				g, ok := p.SubOf[be.AddrInfo]
				if !ok || be.SubCluster != c04SubName(g) {
					rec.Fail(tb, "backend-subcluster-mismatch", witness(), "returned backend %s claims sub-cluster %q, configured in %q", be.AddrInfo, be.SubCluster, c04SubName(g))
					return
				}
				grp = nil
				for _, m := range members {
					if p.SubOf[m.key()] == g {
						grp = append(grp, m)
					}
				}
			}
			if mode != "WLC" {
				// the cluster is configured for WRR at the moment: nothing is claimed
				// about connections; the result must still be eligible
				rec.Case(fpb.String(), false, "path="+p.Path, "mode=WRR:no-claim")
				if be != nil && err == nil {
					id := be.AddrInfo
					if !avail[id] || eff[id] <= 0 {
						w := witness()
						w["picked"] = id
						rec.Fail(tb, "picked-ineligible", w, "picked %s which is unavailable or has effective weight %d", id, eff[id])
						return
					}
					if st.Op == "pick-hold" {
						be.IncConnNum()
						conn[id]++
					}
				}
				trace = append(trace, fmt.Sprintf("%s (WRR mode)", st.Op))
				wait()
				continue
			}
			// argmin over exact rationals conn / effective weight
			var min *big.Rat
			nElig := 0
			allEqual := true
			for _, m := range grp {
				if !avail[m.key()] || eff[m.key()] <= 0 {
					continue
				}
				nElig++
				r := big.NewRat(int64(conn[m.key()]), int64(eff[m.key()]))
				if min == nil {
					min = r
				} else {
					if r.Cmp(min) != 0 {
						allEqual = false
					}
					if r.Cmp(min) < 0 {
						min = r
					}
				}
			}
			argmin := map[string]bool{}
			for _, m := range grp {
				if min != nil && avail[m.key()] && eff[m.key()] > 0 && big.NewRat(int64(conn[m.key()]), int64(eff[m.key()])).Cmp(min) == 0 {
					argmin[m.key()] = true
				}
			}
			classes := []string{"path=" + p.Path}
			if st.Retry {
				classes = append(classes, "cross:retry-exhausted-in-sub-cluster")
			}
			if p.SlowStart > 0 {
				classes = append(classes, "slow-start")
			}
			if rampingElig {
				classes = append(classes, "slow-start:eligible-member-mid-ramp")
			}
			switch {
			case nElig == 0:
				classes = append(classes, "no-eligible")
			case nElig == 1:
				classes = append(classes, "single-eligible")
			case allEqual:
				classes = append(classes, "all-ratios-equal")
			case len(argmin) > 1:
				classes = append(classes, "tie-at-minimum")
			default:
				classes = append(classes, "unique-minimum")
			}
			rec.Case(fpb.String(), nElig >= 2 && !allEqual, classes...)
			if nElig == 0 {
				if err == nil {
					rec.Fail(tb, "pick-without-eligible", witness(), "no eligible backend but %s was returned", be.AddrInfo)
					return
				}
				trace = append(trace, "pick -> error (none eligible)")
				wait()
				continue
			}
			if err != nil || be == nil {
				rec.Fail(tb, "error-with-eligible", witness(), "WLC balance failed (%v) although %d backends are eligible", err, nElig)
				return
			}
			id := be.AddrInfo
			if !argmin[id] {
				w := witness()
				w["picked"] = id
				w["argmin"] = fmt.Sprint(argmin)
				w["min_ratio"] = min.String()
				w["effective_weights"] = eff
				key := "not-a-minimiser"
				if a, ok := avail[id]; !ok || !a {
					key = "picked-unavailable"
				} else {
					for _, m := range members {
						if m.key() == id && m.Weight <= 0 {
							key = "picked-nonpositive-weight"
						}
					}
				}
				if key == "not-a-minimiser" && p.Path == "gslb-cross" {
					w["subcluster"] = be.SubCluster
				}
				rec.Fail(tb, key, w, "picked %s (conn=%d) but the minimum conn/weight %s is attained only by %v", id, conn[id], min.String(), argmin)
				return
			}
			if st.Op == "pick-hold" {
				be.IncConnNum()
				conn[id]++
			}
			wait()
			trace = append(trace, fmt.Sprintf("%s(ip=%d,retry=%v) -> %s", st.Op, st.IP, st.Retry, id))
			if len(trace) > 40 {
				trace = trace[len(trace)-40:]
			}
		}
	}
	rec.Sample(map[string]any{"path": p.Path, "members": fmtBackends(p.Members), "conns": p.Conns, "steps": len(p.Steps)})
}

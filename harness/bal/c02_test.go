package bal

// C02: hash-based sub-cluster selection and session-sticky backend selection
// are a fixed function of (hash key, eligible targets + weights), independent
// of configuration order, and split the residues of the key hash exactly in
// proportion to the weights.
//
// Oracle:
//  (a) metamorphic: the same configuration written in another order (JSON key
//      order, backend list order), and the same configuration reached through a
//      reload from a different one, choose the same sub-cluster / backend;
//  (b) model: residue = murmur3_64(key) mod (sum of effective weights); target =
//      cumulative-weight walk over the eligible targets ordered by name
//      (sub-clusters) / "addr:port" (backends, effective weight = configured*100);
//  (c) counting, independent of any ordering assumption: over a complete residue
//      system every target is chosen for exactly (its weight share) residues.
// Requests without a hash key are balanced randomly by design: only
// eligibility of the result is checked for them.

import (
	"encoding/json"
	"fmt"
	"net"
	"os"
	"sort"
	"strings"
	"testing"

	"github.com/bfenetworks/bfe/bfe_balance/backend"
	"github.com/bfenetworks/bfe/bfe_basic"
	"github.com/spaolacci/murmur3"
	"pgregory.net/rapid"

	"verif/harness/internal/ev"
)

const blackhole = "GSLB_BLACKHOLE"

var subNamePool = []string{"a", "b.sub", "B", "sub-1", "sub-10", "sub-2", "z.example.dx", "Z", "_x", "light.example.wt", "0sub"}

type c02Plan struct {
	Subs  []subSpec
	Perm  []subSpec // same configuration, other order
	Pre   []subSpec // configuration loaded before Subs in the reload variant (nil: no such variant)
	PermC []subSpec // order used for the reload variant
	GB    gbSpec
	Reqs  []reqSpec
	Exh   string // "", "sub" or "backend": complete residue system probed
	ExhJ0 int    // first counter value used to construct keys
}

func genWeightBE(rt *rapid.T, label string) int {
	switch rapid.IntRange(0, 19).Draw(rt, label+"k") {
	case 0, 1, 2:
		return 0
	case 3:
		return -rapid.IntRange(1, 5).Draw(rt, label+"n")
	case 4:
		return rapid.IntRange(11, 50).Draw(rt, label+"b")
	}
	return rapid.IntRange(1, 10).Draw(rt, label)
}

// genBackends draws n backends with distinct endpoints; the first one has a
// positive weight so that the loader accepts the list.
func genBackends(rt *rapid.T, n int, label string, maxW int) []beSpec {
	idx := rapid.SliceOfNDistinct(rapid.IntRange(0, len(addrPool)*len(portPool)-1), n, n, rapid.ID[int]).Draw(rt, label)
	out := make([]beSpec, n)
	for i, x := range idx {
		out[i] = beSpec{Name: fmt.Sprintf("%s.be%d", label, x), Addr: addrPool[x/len(portPool)], Port: portPool[x%len(portPool)]}
		if maxW < 0 { // weights are assigned by the caller
			continue
		}
		if maxW > 0 {
			out[i].Weight = rapid.IntRange(0, maxW).Draw(rt, fmt.Sprintf("%s.w%d", label, i))
		} else {
			out[i].Weight = genWeightBE(rt, fmt.Sprintf("%s.w%d", label, i))
		}
		if i == 0 && out[i].Weight <= 0 {
			out[i].Weight = 1 + rapid.IntRange(0, 4).Draw(rt, label+".w0fix")
		}
	}
	return out
}

func genSubs(rt *rapid.T, single bool, maxBEWeight int) []subSpec {
	k := 1
	if !single {
		k = rapid.SampledFrom([]int{1, 2, 2, 2, 3, 3, 4, 5}).Draw(rt, "nsub")
	}
	names := rapid.SliceOfNDistinct(rapid.SampledFrom(subNamePool), k, k, rapid.ID[string]).Draw(rt, "subnames")
	regime := rapid.SampledFrom([]string{"sum100", "small", "small"}).Draw(rt, "subw")
	subs := make([]subSpec, k)
	left := 100
	for i := range subs {
		subs[i].Name = names[i]
		switch regime {
		case "sum100":
			if i == k-1 {
				subs[i].Weight = left
			} else {
				subs[i].Weight = rapid.IntRange(0, left).Draw(rt, fmt.Sprintf("sw%d", i))
				left -= subs[i].Weight
			}
		default:
			switch rapid.IntRange(0, 9).Draw(rt, fmt.Sprintf("swk%d", i)) {
			case 0:
				subs[i].Weight = 0
			case 1:
				subs[i].Weight = -rapid.IntRange(1, 10).Draw(rt, fmt.Sprintf("swn%d", i))
			default:
				subs[i].Weight = rapid.IntRange(1, 7).Draw(rt, fmt.Sprintf("sw%d", i))
			}
		}
		nb := rapid.IntRange(1, 5).Draw(rt, fmt.Sprintf("nb%d", i))
		subs[i].Backends = genBackends(rt, nb, fmt.Sprintf("s%d", i), maxBEWeight)
	}
	if single && subs[0].Weight <= 0 {
		subs[0].Weight = 100
	}
	switch rapid.IntRange(0, 5).Draw(rt, "blackhole") {
	case 0:
		subs = append(subs, subSpec{Name: blackhole, Weight: 0, NoList: true})
	case 1:
		if !single {
			subs = append(subs, subSpec{Name: blackhole, Weight: rapid.IntRange(1, 30).Draw(rt, "bhw"), NoList: true})
		}
	}
	return subs
}

func permSubs(rt *rapid.T, subs []subSpec, label string) []subSpec {
	out := rapid.Permutation(subs).Draw(rt, label)
	out = append([]subSpec(nil), out...)
	for i := range out {
		if len(out[i].Backends) > 1 {
			orig := out[i].Backends
			out[i].Backends = keepDupOrder(rapid.Permutation(orig).Draw(rt, fmt.Sprintf("%s.b%d", label, i)), orig)
		}
	}
	return out
}

// keepDupOrder: entries listing the same addr:port are one backend whose last
// entry wins (cluster_table semantics of bfe), so "the same configuration in
// another order" keeps the relative order of such entries: they are put, in
// their original order, on the positions the permutation gave to that address.
func keepDupOrder(perm, orig []beSpec) []beSpec {
	byKey := map[string][]beSpec{}
	for _, b := range orig {
		byKey[b.key()] = append(byKey[b.key()], b)
	}
	out := append([]beSpec(nil), perm...)
	for i, b := range out {
		q := byKey[b.key()]
		out[i] = q[0]
		byKey[b.key()] = q[1:]
	}
	return out
}

// genPre derives a different earlier configuration from subs.
func genPre(rt *rapid.T, subs []subSpec) []subSpec {
	var pre []subSpec
	for i, s := range subs {
		if rapid.IntRange(0, 3).Draw(rt, fmt.Sprintf("pre.drop%d", i)) == 0 {
			continue
		}
		ns := subSpec{Name: s.Name, NoList: s.NoList, Weight: s.Weight}
		if rapid.Bool().Draw(rt, fmt.Sprintf("pre.rw%d", i)) {
			ns.Weight = rapid.IntRange(0, 9).Draw(rt, fmt.Sprintf("pre.w%d", i))
		}
		used := map[string]bool{}
		for j, b := range s.Backends {
			used[b.key()] = true
			if rapid.IntRange(0, 2).Draw(rt, fmt.Sprintf("pre.bdrop%d_%d", i, j)) == 0 {
				continue
			}
			if rapid.Bool().Draw(rt, fmt.Sprintf("pre.brw%d_%d", i, j)) {
				b.Weight = rapid.IntRange(0, 9).Draw(rt, fmt.Sprintf("pre.bw%d_%d", i, j))
			}
			ns.Backends = append(ns.Backends, b)
		}
		if !s.NoList {
			for _, b := range genBackends(rt, rapid.IntRange(0, 2).Draw(rt, fmt.Sprintf("pre.nadd%d", i)), fmt.Sprintf("pre.s%d", i), 0) {
				if !used[b.key()] {
					ns.Backends = append(ns.Backends, b)
				}
			}
			if len(ns.Backends) == 0 {
				ns.Backends = genBackends(rt, 1, fmt.Sprintf("pre.only%d", i), 0)
			}
			ns.Backends = rapid.Permutation(ns.Backends).Draw(rt, fmt.Sprintf("pre.perm%d", i))
		}
		pre = append(pre, ns)
	}
	if rapid.IntRange(0, 2).Draw(rt, "pre.addsub") == 0 || len(pre) == 0 {
		pre = append(pre, subSpec{Name: "pre.only.sub", Weight: rapid.IntRange(1, 9).Draw(rt, "pre.addw"), Backends: genBackends(rt, 2, "pre.x", 0)})
	}
	return pre
}

var hashHeaders = []string{"X-Client-Id", "x-client-id", "Dueros-Device-Id", "Cookie:UID", "Cookie: BAIDUID"}

func cookieName(h string) string {
	if i := strings.Index(h, ":"); i >= 0 {
		return strings.TrimSpace(h[i+1:])
	}
	return ""
}

func genGB(rt *rapid.T, sticky bool) gbSpec {
	gb := gbSpec{
		CrossRetry: rapid.IntRange(0, 2).Draw(rt, "crossRetry"),
		RetryMax:   rapid.IntRange(0, 3).Draw(rt, "retryMax"),
		Strategy:   rapid.IntRange(0, 3).Draw(rt, "strategy"),
		Sticky:     sticky,
		Mode:       rapid.SampledFrom([]string{"WRR", "WRR", "WLC", "wlc"}).Draw(rt, "mode"),
	}
	if sticky {
		// slow start is documented as not supported with session sticky: enabling it
		// must not change the sticky mapping (with non-sticky balancing the members a
		// reload adds ramp up from weight 0 with the wall clock, which is C03/C04 ground)
		gb.SlowStart = rapid.SampledFrom([]int{0, 0, 1, 30}).Draw(rt, "slowStart")
	}
	if gb.Strategy == stratIDOnly || gb.Strategy == stratIDPreferred || rapid.Bool().Draw(rt, "hdrAnyway") {
		gb.Header = rapid.SampledFrom(hashHeaders).Draw(rt, "hashHeader")
	}
	return gb
}

var idAlphabet = []rune("abcXYZ019-_.")

func genIP(rt *rapid.T, label string) (string, bool) {
	switch rapid.IntRange(0, 9).Draw(rt, label+"k") {
	case 0:
		return "", false
	case 1, 2:
		b := rapid.SliceOfN(rapid.Byte(), 16, 16).Draw(rt, label+"v6")
		b[0] = 0x20 // keep it a genuine IPv6 address, not a v4-mapped one
		return net.IP(b).String(), false
	}
	b := rapid.SliceOfN(rapid.Byte(), 4, 4).Draw(rt, label+"v4")
	return net.IP(b).String(), rapid.Bool().Draw(rt, label+"form4")
}

// genReq draws a request; keys are deliberately drawn from small spaces too so
// that equal keys recur.
func genReq(rt *rapid.T, gb gbSpec, label string) reqSpec {
	var rs reqSpec
	rs.IP, rs.IP4Form = genIP(rt, label+".ip")
	rs.URI = "/" + rapid.StringOfN(rapid.SampledFrom([]rune("abc/019._-")), 0, 12, -1).Draw(rt, label+".path")
	if rapid.IntRange(0, 3).Draw(rt, label+".q") == 0 {
		rs.URI += "?k=" + rapid.StringOfN(rapid.SampledFrom([]rune("abc019")), 0, 6, -1).Draw(rt, label+".query")
	}
	if gb.Header != "" {
		val := rapid.StringOfN(rapid.SampledFrom(idAlphabet), 1, 10, -1).Draw(rt, label+".id")
		if ck := cookieName(gb.Header); ck != "" {
			switch rapid.IntRange(0, 7).Draw(rt, label+".ck") {
			case 0: // no cookie header at all
			case 1: // other cookies only
				rs.Headers = append(rs.Headers, [2]string{"Cookie", "other=1; " + ck + "x=" + val})
			case 2: // duplicate name: the first one counts
				rs.Headers = append(rs.Headers, [2]string{"Cookie", "a=b; " + ck + "=" + val + "; " + ck + "=zzz"})
			default:
				rs.Headers = append(rs.Headers, [2]string{"Cookie", "a=b; " + ck + "=" + val + "; t=1"})
			}
		} else {
			name := gb.Header
			if rapid.Bool().Draw(rt, label+".hcase") {
				name = strings.ToUpper(name)
			}
			switch rapid.IntRange(0, 7).Draw(rt, label+".hk") {
			case 0: // header absent
			case 1: // repeated header: the first value counts
				rs.Headers = append(rs.Headers, [2]string{name, val}, [2]string{name, "second"})
			default:
				rs.Headers = append(rs.Headers, [2]string{name, val})
			}
		}
	}
	if rapid.Bool().Draw(rt, label+".xh") {
		rs.Headers = append(rs.Headers, [2]string{"X-Other", "1"})
	}
	return rs
}

// keyedReq constructs the j-th member of a family of requests whose hash key
// under gb is distinct for every j.
func keyedReq(gb gbSpec, j int) reqSpec {
	rs := reqSpec{URI: fmt.Sprintf("/r/%x", j), IP: net.IPv4(byte(10+j>>24), byte(j>>16), byte(j>>8), byte(j)).String(), IP4Form: j%2 == 0}
	if gb.Header != "" {
		if ck := cookieName(gb.Header); ck != "" {
			rs.Headers = [][2]string{{"Cookie", fmt.Sprintf("%s=k%x", ck, j)}}
		} else {
			rs.Headers = [][2]string{{gb.Header, fmt.Sprintf("k%x", j)}}
		}
	}
	return rs
}

func genC02Plan(rt *rapid.T) c02Plan {
	var p c02Plan
	p.Exh = rapid.SampledFrom([]string{"", "", "", "sub", "sub", "backend"}).Draw(rt, "exhaustive")
	sticky := p.Exh == "backend" || rapid.IntRange(0, 2).Draw(rt, "sticky") != 0
	p.GB = genGB(rt, sticky)
	if p.Exh == "backend" {
		p.Subs = genSubs(rt, true, 4)
	} else {
		p.Subs = genSubs(rt, false, 0)
	}
	// occasionally a duplicate endpoint inside one sub-cluster (accepted by the loader)
	dup := false
	if rapid.IntRange(0, 7).Draw(rt, "dupEndpoint") == 0 {
		i := rapid.IntRange(0, len(p.Subs)-1).Draw(rt, "dupSub")
		if bs := p.Subs[i].Backends; len(bs) > 0 {
			d := bs[rapid.IntRange(0, len(bs)-1).Draw(rt, "dupOf")]
			d.Name += ".dup"
			d.Weight = rapid.IntRange(1, 6).Draw(rt, "dupW")
			p.Subs[i].Backends = append(append([]beSpec(nil), bs...), d)
			dup = true
		}
	}
	p.Perm = permSubs(rt, p.Subs, "perm")
	_ = dup // fresh start and reload agree on duplicate endpoints since bfe 1a6d0c5
	if rapid.Bool().Draw(rt, "reloadVariant") {
		p.Pre = genPre(rt, p.Subs)
		p.PermC = permSubs(rt, p.Subs, "permC")
	}
	n := rapid.IntRange(8, 40).Draw(rt, "nreq")
	for i := 0; i < n; i++ {
		p.Reqs = append(p.Reqs, genReq(rt, p.GB, fmt.Sprintf("r%d", i)))
	}
	p.ExhJ0 = rapid.IntRange(0, 1<<20).Draw(rt, "exhJ0")
	return p
}

func fmtSubs(subs []subSpec) string {
	var sb strings.Builder
	for _, s := range subs {
		fmt.Fprintf(&sb, "%s=%d[", s.Name, s.Weight)
		if s.NoList {
			sb.WriteString("-")
		}
		sb.WriteString(fmtBackends(s.Backends))
		sb.WriteString("] ")
	}
	return sb.String()
}

func fmtReq(r reqSpec) string {
	return fmt.Sprintf("%s|%v|%s/%v|%d", r.URI, r.Headers, r.IP, r.IP4Form, r.RetryTime)
}

func (p c02Plan) fingerprint() string {
	var sb strings.Builder
	fmt.Fprintf(&sb, "%s|%s|%s|%s|%+v|%s|%d|", fmtSubs(p.Subs), fmtSubs(p.Perm), fmtSubs(p.Pre), fmtSubs(p.PermC), p.GB, p.Exh, p.ExhJ0)
	for _, r := range p.Reqs {
		sb.WriteString(fmtReq(r) + ";")
	}
	return sb.String()
}

// subTargets: sub-clusters that may receive first-choice traffic.
func subTargets(subs []subSpec) []target {
	var ts []target
	for _, s := range subs {
		if s.Weight > 0 {
			ts = append(ts, target{s.Name, s.Weight})
		}
	}
	return ts
}

// beTargets: eligible backends with their effective (x100) weights; avail==nil
// means all available. An addr:port listed more than once is one backend: its
// last entry (cluster_table semantics, same for a fresh start and a reload).
func beTargets(s subSpec, avail map[string]bool) []target {
	var ts []target
	if s.NoList {
		return nil
	}
	last := map[string]int{}
	for i, b := range s.Backends {
		last[b.key()] = i
	}
	for i, b := range s.Backends {
		if last[b.key()] != i {
			continue
		}
		if b.Weight > 0 && (avail == nil || avail[s.Name+"/"+b.key()]) {
			ts = append(ts, target{b.key(), b.Weight * 100})
		}
	}
	return ts
}

func findSub(subs []subSpec, name string) (subSpec, bool) {
	for _, s := range subs {
		if s.Name == name {
			return s, true
		}
	}
	return subSpec{}, false
}

func hasID(ts []target, id string) bool {
	for _, t := range ts {
		if t.ID == id {
			return true
		}
	}
	return false
}

type balResult struct {
	Sub     string
	Backend string
	BeSub   string
	Err     error
	be      *backend.BfeBackend
}

func (b balResult) String() string {
	return fmt.Sprintf("sub=%q backend=%q err=%v", b.Sub, b.Backend, b.Err)
}

func doBalance(r *rig, req *bfe_basic.Request, retry int) balResult {
	req.RetryTime = retry
	req.ErrCode = nil
	req.ErrMsg = ""
	req.Backend = bfe_basic.BackendInfo{}
	b, err := r.bal.Balance(req)
	res := balResult{Sub: req.Backend.SubclusterName, Err: err}
	if b != nil {
		res.Backend = b.AddrInfo
		res.BeSub = b.SubCluster
		res.be = b
	}
	return res
}

func TestC02(t *testing.T) {
	rec := ev.New("C02", "1..5 sub-clusters (weights summing to 100 or small incl. 0/negative, optional GSLB_BLACKHOLE) x 1..5 backends (weights incl. 0/negative, occasional duplicate endpoint), all four hash strategies with plain-header and cookie HashHeader, sticky on/off; each configuration is installed via BalTable in two orders and (half of the cases) reached by reload from a different configuration; 8..40 generated requests (v4 in 4/16-byte form, v6, no address, header/cookie present/absent/repeated) plus, for a third of the cases, a constructed complete residue system of keys at sub-cluster or backend level. non-trivial: some keyed request faces >=2 eligible targets with different weights; distinct by configuration+orders+requests")
	if p := os.Getenv("VERIF_REPLAY_JSON"); p != "" {
		var doc struct {
			Witness struct {
				Plan c02Plan `json:"plan"`
			} `json:"witness"`
		}
		b, err := os.ReadFile(p)
		if err != nil || json.Unmarshal(b, &doc) != nil || len(doc.Witness.Plan.Subs) == 0 {
			t.Fatalf("cannot read plan from %s", p)
		}
		c02Run(t, rec, doc.Witness.Plan)
		return
	}
	rapid.Check(t, func(rt *rapid.T) { c02Run(rt, rec, genC02Plan(rt)) })
}

type c02Variant struct {
	name string
	r    *rig
}

func c02Run(tb ev.TB, rec *ev.Rec, p c02Plan) {
	classes := []string{fmt.Sprintf("strategy=%d", p.GB.Strategy), fmt.Sprintf("sticky=%v", p.GB.Sticky), "exh=" + p.Exh}
	if p.GB.SlowStart > 0 {
		classes = append(classes, "slow-start")
	}
	if cookieName(p.GB.Header) != "" {
		classes = append(classes, "hashheader=cookie")
	} else if p.GB.Header != "" {
		classes = append(classes, "hashheader=plain")
	}
	a, err := newRig(p.Subs, p.GB)
	if err != nil {
		rec.Excluded("loader-rejected")
		return
	}
	b, err := newRig(p.Perm, p.GB)
	if err != nil {
		tb.Fatalf("harness: permuted configuration rejected: %v", err)
	}
	variants := []c02Variant{{"config-order-1", a}, {"config-order-2", b}}
	if p.Pre != nil {
		c, err := newRig(p.Pre, p.GB)
		if err != nil {
			rec.Class("reload-variant-pre-rejected")
		} else {
			// some traffic under the old configuration (sets internal caches)
			for i, rs := range p.Reqs {
				if i >= 6 {
					break
				}
				if req, err := mkReq(rs); err == nil {
					doBalance(c, req, 0)
				}
			}
			if err := c.reload(p.PermC); err != nil {
				tb.Fatalf("harness: reload rejected: %v", err)
			}
			variants = append(variants, c02Variant{"after-reload", c})
			classes = append(classes, "reload-variant")
		}
	}
	subsT := subTargets(p.Subs)
	wSub := totalWeight(subsT)
	if len(subsT) >= 2 {
		classes = append(classes, "multi-sub")
	} else {
		classes = append(classes, "single-sub")
	}
	nt := false
	witness := func(rs reqSpec, extra map[string]any) map[string]any {
		w := map[string]any{"plan": p, "request": rs}
		for k, v := range extra {
			w[k] = v
		}
		return w
	}

	// check one request on all variants; returns the agreed result and false if the case must stop
	check := func(rs reqSpec, constructed bool) (balResult, bool) {
		req, err := mkReq(rs)
		if err != nil {
			tb.Fatalf("harness: request %v: %v", rs, err)
		}
		key := modelKey(p.GB, rs)
		results := make([]balResult, len(variants))
		for i, v := range variants {
			results[i] = doBalance(v.r, req, 0)
		}
		res := results[0]
		if len(key) == 0 {
			// random by design: eligibility only
			rec.Class("req:no-key")
			for i, r := range results {
				s, ok := findSub(p.Subs, r.Sub)
				if !ok || s.Weight <= 0 {
					rec.Fail(tb, "nokey-ineligible-subcluster", witness(rs, map[string]any{"variant": variants[i].name, "got": r.String()}), "request without hash key was assigned to sub-cluster %q (weight<=0 or unknown)", r.Sub)
					return res, false
				}
				if s.Name == blackhole {
					if r.Err != bfe_basic.ErrGslbBlackhole || r.Backend != "" {
						rec.Fail(tb, "blackhole-forwarded", witness(rs, map[string]any{"variant": variants[i].name, "got": r.String()}), "request assigned to GSLB_BLACKHOLE was not rejected: %s", r)
						return res, false
					}
					continue
				}
				if r.Err != nil || !hasID(beTargets(s, nil), r.Backend) {
					rec.Fail(tb, "nokey-bad-backend", witness(rs, map[string]any{"variant": variants[i].name, "got": r.String()}), "request without hash key: %s, eligible backends of %q are %v", r, s.Name, beTargets(s, nil))
					return res, false
				}
			}
			return res, true
		}
		rec.Class("req:keyed")
		h := murmur3.Sum64(key)
		// (a) metamorphic
		for i := 1; i < len(results); i++ {
			r := results[i]
			kind := "perm"
			if variants[i].name == "after-reload" {
				kind = "reload"
			}
			if r.Sub != res.Sub {
				rec.Fail(tb, kind+"-subcluster-differs", witness(rs, map[string]any{"first": res.String(), "other": r.String(), "variant": variants[i].name}), "key %q: sub-cluster %q with %s but %q with %s", key, res.Sub, variants[0].name, r.Sub, variants[i].name)
				return res, false
			}
			if (r.Err == nil) != (res.Err == nil) || (p.GB.Sticky && r.Backend != res.Backend) {
				rec.Fail(tb, kind+"-backend-differs", witness(rs, map[string]any{"first": res.String(), "other": r.String(), "variant": variants[i].name}), "key %q: %s with %s but %s with %s", key, res, variants[0].name, r, variants[i].name)
				return res, false
			}
		}
		// (b) model
		wantSub := partition(subsT, h%wSub)
		if res.Sub != wantSub {
			rec.Fail(tb, "subcluster-partition", witness(rs, map[string]any{"got": res.String(), "want_sub": wantSub, "residue": h % wSub, "modulus": wSub}), "key %q has residue %d mod %d which belongs to sub-cluster %q, got %q", key, h%wSub, wSub, wantSub, res.Sub)
			return res, false
		}
		s, _ := findSub(p.Subs, wantSub)
		if s.Name == blackhole {
			for i, r := range results {
				if r.Err != bfe_basic.ErrGslbBlackhole || r.Backend != "" {
					rec.Fail(tb, "blackhole-forwarded", witness(rs, map[string]any{"variant": variants[i].name, "got": r.String()}), "request assigned to GSLB_BLACKHOLE was not rejected: %s", r)
					return res, false
				}
			}
			rec.Class("req:blackholed")
			return res, true
		}
		bes := beTargets(s, nil)
		for i, r := range results {
			if r.Err != nil {
				rec.Fail(tb, "error-with-eligible", witness(rs, map[string]any{"variant": variants[i].name, "got": r.String()}), "Balance failed (%v) although sub-cluster %q has eligible backends %v", r.Err, s.Name, bes)
				return res, false
			}
			if !hasID(bes, r.Backend) || r.BeSub != s.Name {
				rec.Fail(tb, "backend-outside-assigned-subcluster", witness(rs, map[string]any{"variant": variants[i].name, "got": r.String()}), "returned backend %s (of sub-cluster %q) is not an eligible backend of the assigned sub-cluster %q %v", r.Backend, r.BeSub, s.Name, bes)
				return res, false
			}
		}
		if p.GB.Sticky {
			wb := totalWeight(bes)
			want := partition(bes, h%wb)
			if res.Backend != want {
				rec.Fail(tb, "sticky-partition", witness(rs, map[string]any{"got": res.String(), "want_backend": want, "residue": h % wb, "modulus": wb}), "key %q has residue %d mod %d which belongs to backend %s of %q, got %s", key, h%wb, wb, want, s.Name, res.Backend)
				return res, false
			}
		}
		// non-trivial?
		if !constructed {
			dw := map[int]bool{}
			for _, t := range subsT {
				dw[t.Weight] = true
			}
			if len(subsT) >= 2 && len(dw) >= 2 {
				nt = true
			}
			if p.GB.Sticky {
				dw = map[int]bool{}
				for _, t := range bes {
					dw[t.Weight] = true
				}
				if len(bes) >= 2 && len(dw) >= 2 {
					nt = true
				}
			}
		}
		return res, true
	}

	nreq := int64(0)
	for _, rs := range p.Reqs {
		nreq++
		if _, ok := check(rs, false); !ok {
			rec.Add("requests", nreq)
			return
		}
	}

	// (c) complete residue system
	var modulus uint64
	var wantCount map[string]uint64
	switch p.Exh {
	case "sub":
		modulus = wSub
		wantCount = map[string]uint64{}
		for _, t := range subsT {
			wantCount[t.ID] += uint64(t.Weight)
		}
	case "backend":
		if len(subsT) == 1 && p.GB.Sticky && subsT[0].ID != blackhole {
			s, _ := findSub(p.Subs, subsT[0].ID)
			bes := beTargets(s, nil)
			modulus = totalWeight(bes)
			wantCount = map[string]uint64{}
			for _, t := range bes {
				wantCount[t.ID] += uint64(t.Weight)
			}
		}
	}
	if modulus > 0 && modulus <= uint64(ev.N(1600, 6000)) {
		keys := make([]reqSpec, modulus)
		found := uint64(0)
		have := make([]bool, modulus)
		for j := p.ExhJ0; found < modulus && j < p.ExhJ0+int(modulus)*40+2000; j++ {
			rs := keyedReq(p.GB, j)
			k := modelKey(p.GB, rs)
			if len(k) == 0 {
				break
			}
			r := murmur3.Sum64(k) % modulus
			if !have[r] {
				have[r], keys[r] = true, rs
				found++
			}
		}
		if found == modulus {
			got := map[string]uint64{}
			for _, rs := range keys {
				nreq++
				res, ok := check(rs, true)
				if !ok {
					rec.Add("requests", nreq)
					return
				}
				if p.Exh == "sub" {
					got[res.Sub]++
				} else {
					got[res.Backend]++
				}
			}
			ids := make([]string, 0, len(wantCount))
			for id := range wantCount {
				ids = append(ids, id)
			}
			sort.Strings(ids)
			for _, id := range ids {
				if got[id] != wantCount[id] {
					rec.Fail(tb, p.Exh+"-share", witness(reqSpec{}, map[string]any{"got_counts": got, "want_counts": wantCount, "modulus": modulus}), "over a complete residue system mod %d target %s was chosen %d times, its weight share is %d (all: got %v want %v)", modulus, id, got[id], wantCount[id], got, wantCount)
					rec.Add("requests", nreq)
					return
				}
			}
			classes = append(classes, "residue-system-complete")
			rec.Add("residues_checked", int64(modulus))
			if len(wantCount) >= 2 {
				nt = true
			}
		} else {
			classes = append(classes, "residue-system-incomplete")
		}
	}
	rec.Add("requests", nreq)
	rec.Case(p.fingerprint(), nt, classes...)
	rec.Sample(map[string]any{"subs": fmtSubs(p.Subs), "gslb_basic": p.GB, "requests": len(p.Reqs), "exhaustive": p.Exh, "reload_variant": p.Pre != nil})
}

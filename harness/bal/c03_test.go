package bal

// C03: a balancing decision never returns a backend that is unavailable or has
// non-positive weight, never sends first-choice traffic to a sub-cluster with
// non-positive weight, rejects every request assigned to GSLB_BLACKHOLE, and
// reports an error exactly when no eligible target exists.
//
// Oracle: a validity predicate computed from the configuration text, the
// availability script the harness itself applied (SetAvail) and the documented
// retry rules (RetryMax tries inside the assigned sub-cluster, then CrossRetry
// tries in another sub-cluster that is not the blackhole, not the assigned one
// and not disabled by a negative weight; weight-0 sub-clusters are valid backup
// targets). Which cross sub-cluster / which eligible backend is used is random
// or round-robin by design and not constrained.

import (
	"encoding/json"
	"fmt"
	"os"
	"strings"
	"testing"

	"github.com/bfenetworks/bfe/bfe_balance/backend"
	"github.com/bfenetworks/bfe/bfe_balance/bal_slb"
	"github.com/bfenetworks/bfe/bfe_basic"
	"github.com/spaolacci/murmur3"
	"pgregory.net/rapid"

	"verif/harness/internal/ev"
)

type c03Step struct {
	Op    string // "req", "flip", "conn", "reload"
	Req   reqSpec
	Sub   int // flip/conn: sub-cluster index (mod), backend index (mod)
	Be    int
	Avail bool
	Next  []subSpec
	Algo  int    // rr path: balancing algorithm constant
	Key   string // rr path: hash key ("" = none)
	Hold  bool   // req: the caller keeps the connection (IncConnNum on the result, as reverseproxy does)
}

type c03Plan struct {
	Path  string // "gslb" or "rr"
	Subs  []subSpec
	GB    gbSpec
	Steps []c03Step
}

func genC03Subs(rt *rapid.T, label string, nameOf func(i int) (string, bool)) []subSpec {
	k := rapid.SampledFrom([]int{1, 2, 2, 3, 3, 3, 4, 5}).Draw(rt, label+"nsub")
	names := rapid.SliceOfNDistinct(rapid.SampledFrom(subNamePool), k, k, rapid.ID[string]).Draw(rt, label+"names")
	subs := make([]subSpec, 0, k+1)
	for i := 0; i < k; i++ {
		s := subSpec{Name: names[i]}
		switch rapid.IntRange(0, 9).Draw(rt, fmt.Sprintf("%ssw.k%d", label, i)) {
		case 0, 1:
			s.Weight = 0
		case 2:
			s.Weight = -rapid.IntRange(1, 10).Draw(rt, fmt.Sprintf("%ssw.n%d", label, i))
		default:
			s.Weight = rapid.IntRange(1, 60).Draw(rt, fmt.Sprintf("%ssw%d", label, i))
		}
		if rapid.IntRange(0, 9).Draw(rt, fmt.Sprintf("%snolist%d", label, i)) == 0 {
			s.NoList = true
		} else {
			nb := rapid.IntRange(1, 4).Draw(rt, fmt.Sprintf("%snb%d", label, i))
			s.Backends = genBackends(rt, nb, fmt.Sprintf("%ss%d", label, i), 0)
		}
		subs = append(subs, s)
	}
	switch rapid.IntRange(0, 3).Draw(rt, label+"blackhole") {
	case 0:
		subs = append(subs, subSpec{Name: blackhole, Weight: 0, NoList: true})
	case 1:
		subs = append(subs, subSpec{Name: blackhole, Weight: rapid.IntRange(1, 40).Draw(rt, label+"bhw"), NoList: true})
	case 2:
		if rapid.IntRange(0, 3).Draw(rt, label+"bhneg") == 0 {
			subs = append(subs, subSpec{Name: blackhole, Weight: -1, NoList: true})
		}
	}
	return rapid.Permutation(subs).Draw(rt, label+"order")
}

// mutateSubs derives the next configuration of a reload. A sub-cluster that
// stays keeps its "has a backend list" property (a list disappearing from
// cluster_table.data while the sub-cluster stays in gslb.data leaves the old
// backends in place in bfe; that corner is not part of this property).
func mutateSubs(rt *rapid.T, cur []subSpec, label string) []subSpec {
	var next []subSpec
	for i, s := range cur {
		if len(cur) > 1 && rapid.IntRange(0, 5).Draw(rt, fmt.Sprintf("%sdrop%d", label, i)) == 0 {
			continue
		}
		ns := subSpec{Name: s.Name, Weight: s.Weight, NoList: s.NoList}
		if rapid.IntRange(0, 2).Draw(rt, fmt.Sprintf("%srw%d", label, i)) == 0 {
			ns.Weight = rapid.SampledFrom([]int{0, 0, -1, 1, 5, 20, 50}).Draw(rt, fmt.Sprintf("%sw%d", label, i))
		}
		used := map[string]bool{}
		for j, b := range s.Backends {
			used[b.key()] = true
			if len(s.Backends) > 1 && rapid.IntRange(0, 4).Draw(rt, fmt.Sprintf("%sbdrop%d_%d", label, i, j)) == 0 {
				continue
			}
			if rapid.IntRange(0, 2).Draw(rt, fmt.Sprintf("%sbrw%d_%d", label, i, j)) == 0 {
				b.Weight = genWeightBE(rt, fmt.Sprintf("%sbw%d_%d", label, i, j))
			}
			ns.Backends = append(ns.Backends, b)
		}
		if !s.NoList && rapid.IntRange(0, 3).Draw(rt, fmt.Sprintf("%sadd%d", label, i)) == 0 {
			for _, b := range genBackends(rt, 2, fmt.Sprintf("%snew%d", label, i), 0) {
				if !used[b.key()] && len(ns.Backends) < 6 {
					ns.Backends = append(ns.Backends, b)
					used[b.key()] = true
				}
			}
		}
		if len(ns.Backends) > 1 {
			ns.Backends = rapid.Permutation(ns.Backends).Draw(rt, fmt.Sprintf("%sperm%d", label, i))
		}
		next = append(next, ns)
	}
	if rapid.IntRange(0, 4).Draw(rt, label+"addsub") == 0 {
		have := map[string]bool{}
		for _, s := range next {
			have[s.Name] = true
		}
		n := rapid.SampledFrom(subNamePool).Draw(rt, label+"newname")
		if !have[n] {
			next = append(next, subSpec{Name: n, Weight: rapid.IntRange(0, 30).Draw(rt, label+"neww"), Backends: genBackends(rt, rapid.IntRange(1, 3).Draw(rt, label+"newnb"), label+"newsub", 0)})
		}
	}
	return next
}

func genC03Plan(rt *rapid.T) c03Plan {
	var p c03Plan
	p.Path = rapid.SampledFrom([]string{"gslb", "gslb", "gslb", "rr"}).Draw(rt, "path")
	if p.Path == "rr" {
		n := rapid.IntRange(1, 6).Draw(rt, "n")
		p.Subs = []subSpec{{Name: "s", Weight: 1, Backends: genBackends(rt, n, "m", 0)}}
	} else {
		p.Subs = genC03Subs(rt, "", nil)
		p.GB = genGB(rt, rapid.IntRange(0, 2).Draw(rt, "sticky") == 0)
	}
	// slow start (cluster_conf BackendConf.SlowStartTime, seconds); the ramp is
	// wall-clock driven, so the oracle treats a restarted backend as "maybe
	// eligible" (see c03Run)
	p.GB.SlowStart = rapid.SampledFrom([]int{0, 0, 0, 1, 3, 30}).Draw(rt, "slowStart")
	ns := rapid.IntRange(6, 30).Draw(rt, "nsteps")
	cur := p.Subs
	downBias := rapid.IntRange(1, 3).Draw(rt, "downBias") // how often a flip means "down"
	for i := 0; i < ns; i++ {
		st := c03Step{Op: rapid.SampledFrom([]string{"req", "req", "req", "req", "flip", "flip", "flip", "conn", "reload"}).Draw(rt, fmt.Sprintf("op%d", i))}
		switch st.Op {
		case "flip", "conn":
			st.Sub = rapid.IntRange(0, 5).Draw(rt, fmt.Sprintf("fs%d", i))
			st.Be = rapid.IntRange(0, 5).Draw(rt, fmt.Sprintf("fb%d", i))
			st.Avail = rapid.IntRange(0, downBias).Draw(rt, fmt.Sprintf("fa%d", i)) == 0
		case "reload":
			if p.Path == "rr" {
				nb := mutateSubs(rt, cur, fmt.Sprintf("rl%d.", i))
				st.Next = []subSpec{nb[0]}
				st.Next[0].Name, st.Next[0].NoList = "s", false
				if len(st.Next[0].Backends) == 0 {
					st.Next[0].Backends = cur[0].Backends
				}
			} else {
				st.Next = mutateSubs(rt, cur, fmt.Sprintf("rl%d.", i))
			}
			cur = st.Next
		case "req":
			st.Hold = rapid.Bool().Draw(rt, fmt.Sprintf("hold%d", i))
			if p.Path == "rr" {
				st.Algo = rapid.SampledFrom([]int{bal_slb.WrrSmooth, bal_slb.WrrSticky, bal_slb.WlcSimple, bal_slb.WlcSmooth, 9}).Draw(rt, fmt.Sprintf("algo%d", i))
				st.Key = rapid.StringOfN(rapid.SampledFrom(idAlphabet), 0, 6, -1).Draw(rt, fmt.Sprintf("key%d", i))
			} else {
				st.Req = genReq(rt, p.GB, fmt.Sprintf("q%d", i))
				if rapid.IntRange(0, 4).Draw(rt, fmt.Sprintf("rtz%d", i)) >= 2 {
					st.Req.RetryTime = rapid.IntRange(0, p.GB.RetryMax+p.GB.CrossRetry+2).Draw(rt, fmt.Sprintf("rt%d", i))
				}
			}
		}
		p.Steps = append(p.Steps, st)
	}
	return p
}

func (p c03Plan) fingerprint() string {
	var sb strings.Builder
	fmt.Fprintf(&sb, "%s|%s|%+v", p.Path, fmtSubs(p.Subs), p.GB)
	for _, s := range p.Steps {
		fmt.Fprintf(&sb, "|%s %d %d %v %s %d %q %v %s", s.Op, s.Sub, s.Be, s.Avail, fmtReq(s.Req), s.Algo, s.Key, s.Hold, fmtSubs(s.Next))
	}
	return sb.String()
}

func TestC03(t *testing.T) {
	rec := ev.New("C03", "clusters of 1..5 sub-clusters (weights >0, 0, negative; some without backend list; GSLB_BLACKHOLE with weight 0/positive/negative) x 1..4 backends (weights incl. 0/negative), BalanceMode WRR/WLC and session sticky, RetryMax 0..3, CrossRetry 0..2, installed via BalTable; histories of 6..30 steps: requests (all hash strategies, RetryTime 0..RetryMax+CrossRetry+2), availability flips (SetAvail), connection counter changes, reloads changing weights/members/sub-clusters; plus direct BalanceRR histories over WrrSmooth/WrrSticky/WlcSimple/WlcSmooth/default. every request is one evaluation. non-trivial: at request time some backends are up and some down and the cluster has >=2 sub-clusters (rr path: some up, some down, >=2 backends); distinct by configuration+history prefix")
	if p := os.Getenv("VERIF_REPLAY_JSON"); p != "" {
		var doc struct {
			Witness struct {
				Plan c03Plan `json:"plan"`
			} `json:"witness"`
		}
		b, err := os.ReadFile(p)
		if err != nil || json.Unmarshal(b, &doc) != nil || len(doc.Witness.Plan.Subs) == 0 {
			t.Fatalf("cannot read plan from %s", p)
		}
		c03Run(t, rec, doc.Witness.Plan)
		return
	}
	rapid.Check(t, func(rt *rapid.T) { c03Run(rt, rec, genC03Plan(rt)) })
}

// rampAfterReload: survivors keep their "restarted under slow start" mark, new
// objects (bfe flags them restarted in Update) get it when slow start is on.
func rampAfterReload(old, next []subSpec, avail, ramp map[string]bool, slowStart bool) map[string]bool {
	had := map[string]bool{}
	for _, s := range old {
		had[s.Name] = true
	}
	nr := map[string]bool{}
	for _, s := range next {
		for _, b := range s.Backends {
			k := s.Name + "/" + b.key()
			if _, ok := avail[k]; ok && had[s.Name] {
				nr[k] = ramp[k]
			} else {
				nr[k] = slowStart
			}
		}
	}
	return nr
}

// definite: eligible backends whose effective weight certainly equals the
// configured one (never restarted while slow start is enabled).
func definite(s subSpec, avail, ramp map[string]bool) []target {
	var ts []target
	for _, t := range beTargets(s, avail) {
		if !ramp[s.Name+"/"+t.ID] {
			ts = append(ts, t)
		}
	}
	return ts
}

// availAfterReload: members that survive keep their state, everything new is available.
func availAfterReload(old, next []subSpec, avail map[string]bool) map[string]bool {
	had := map[string]bool{}
	for _, s := range old {
		had[s.Name] = true
	}
	na := map[string]bool{}
	for _, s := range next {
		for _, b := range s.Backends {
			k := s.Name + "/" + b.key()
			if a, ok := avail[k]; ok && had[s.Name] {
				na[k] = a
			} else {
				na[k] = true
			}
		}
	}
	return na
}

func c03Run(tb ev.TB, rec *ev.Rec, p c03Plan) {
	var r *rig
	var brr *bal_slb.BalanceRR
	if p.Path == "rr" {
		conf, err := loadSub(p.Subs[0].Backends)
		if err != nil {
			rec.Excluded("loader-rejected")
			return
		}
		brr = bal_slb.NewBalanceRR("s")
		brr.Init(conf)
		brr.SetSlowStart(p.GB.SlowStart)
	} else {
		var err error
		if r, err = newRig(p.Subs, p.GB); err != nil {
			rec.Excluded("loader-rejected")
			return
		}
	}
	handles := func() map[string]map[string][]*backend.BfeBackend {
		if p.Path == "rr" {
			return map[string]map[string][]*backend.BfeBackend{"s": rrHandles(brr)}
		}
		return r.handles()
	}
	subs := p.Subs
	avail := availAfterReload(nil, subs, nil)
	ramp := map[string]bool{} // restarted while slow start is enabled: effective weight somewhere in 0..configured
	slowStart := p.GB.SlowStart > 0
	hs := handles()
	trace := []string{}
	witness := func(extra map[string]any) map[string]any {
		st := []string{}
		for _, s := range subs {
			for _, b := range s.Backends {
				st = append(st, fmt.Sprintf("%s/%s w=%d avail=%v restarted-in-slow-start=%v", s.Name, b.key(), b.Weight, avail[s.Name+"/"+b.key()], ramp[s.Name+"/"+b.key()]))
			}
		}
		w := map[string]any{"plan": p, "subclusters_now": fmtSubs(subs), "backends_now": st, "trace": trace}
		for k, v := range extra {
			w[k] = v
		}
		return w
	}
	var fpb strings.Builder
	fmt.Fprintf(&fpb, "%s|%s|%+v", p.Path, fmtSubs(p.Subs), p.GB)

	// generic result checks; returns false if a violation was reported
	checkBackend := func(res balResult) bool {
		if res.Backend == "" {
			return true
		}
		s, ok := findSub(subs, res.BeSub)
		if !ok || s.NoList {
			rec.Fail(tb, "returned-unknown-backend", witness(map[string]any{"got": res.String()}), "returned backend %s of sub-cluster %q which is not configured", res.Backend, res.BeSub)
			return false
		}
		if s.Name == blackhole {
			rec.Fail(tb, "blackhole-forwarded", witness(map[string]any{"got": res.String()}), "returned a backend of GSLB_BLACKHOLE: %s", res)
			return false
		}
		for _, b := range s.Backends {
			if b.key() != res.Backend {
				continue
			}
			if b.Weight <= 0 {
				rec.Fail(tb, "returned-nonpositive-weight-backend", witness(map[string]any{"got": res.String()}), "returned backend %s/%s has configured weight %d", s.Name, res.Backend, b.Weight)
				return false
			}
			if !avail[s.Name+"/"+b.key()] {
				rec.Fail(tb, "returned-unavailable-backend", witness(map[string]any{"got": res.String()}), "returned backend %s/%s is marked unavailable", s.Name, res.Backend)
				return false
			}
			return true
		}
		rec.Fail(tb, "returned-unknown-backend", witness(map[string]any{"got": res.String()}), "returned backend %s is not a member of sub-cluster %q", res.Backend, res.BeSub)
		return false
	}

	for _, st := range p.Steps {
		fmt.Fprintf(&fpb, "|%s %d %d %v %s %d %q %v %s", st.Op, st.Sub, st.Be, st.Avail, fmtReq(st.Req), st.Algo, st.Key, st.Hold, fmtSubs(st.Next))
		switch st.Op {
		case "flip", "conn":
			var withList []subSpec
			for _, s := range subs {
				if len(s.Backends) > 0 {
					withList = append(withList, s)
				}
			}
			if len(withList) == 0 {
				continue
			}
			s := withList[st.Sub%len(withList)]
			b := s.Backends[st.Be%len(s.Backends)]
			h := hs[s.Name][b.key()]
			if len(h) != 1 {
				tb.Fatalf("harness: %d handles for %s/%s", len(h), s.Name, b.key())
			}
			if st.Op == "flip" {
				k := s.Name + "/" + b.key()
				if st.Avail && !avail[k] {
					// recovery as done by the health checker: restart flag, then available
					h[0].SetRestart(true)
					if slowStart {
						ramp[k] = true
					}
				}
				h[0].SetAvail(st.Avail)
				avail[k] = st.Avail
				trace = append(trace, fmt.Sprintf("avail %s/%s=%v", s.Name, b.key(), st.Avail))
			} else if st.Avail || h[0].ConnNum() == 0 {
				h[0].IncConnNum()
			} else {
				h[0].DecConnNum()
			}
		case "reload":
			var err error
			if p.Path == "rr" {
				var conf = st.Next[0].Backends
				c, e := loadSub(conf)
				if err = e; e == nil {
					brr.Update(c)
				}
			} else {
				err = r.reload(st.Next)
			}
			if err != nil {
				rec.Excluded("reload-rejected")
				trace = append(trace, "reload rejected by the loader")
				continue
			}
			ramp = rampAfterReload(subs, st.Next, avail, ramp, slowStart)
			avail = availAfterReload(subs, st.Next, avail)
			subs = st.Next
			hs = handles()
			trace = append(trace, "reload "+fmtSubs(subs))
		case "req":
			// classification
			up, down := 0, 0
			for _, s := range subs {
				for _, b := range s.Backends {
					if avail[s.Name+"/"+b.key()] {
						up++
					} else {
						down++
					}
				}
			}
			if p.Path == "rr" {
				elig := beTargets(subs[0], avail)
				def := definite(subs[0], avail, ramp)
				var key []byte
				if st.Key != "" {
					key = []byte(st.Key)
				}
				be, err := brr.Balance(st.Algo, key)
				res := balResult{Err: err, Sub: "s"}
				if be != nil {
					res.Backend, res.BeSub = be.AddrInfo, be.SubCluster
				}
				cl := []string{"path=rr", fmt.Sprintf("algo=%d", st.Algo)}
				if slowStart {
					cl = append(cl, "slow-start")
					if len(elig) > len(def) {
						cl = append(cl, "slow-start:restarted-eligible-member")
					}
				}
				if be != nil && err == nil && st.Hold {
					be.IncConnNum()
				}
				if up > 0 && down > 0 {
					cl = append(cl, "availability=mixed")
				}
				if len(elig) == 0 {
					cl = append(cl, "none-eligible")
				}
				rec.Case(fpb.String(), up > 0 && down > 0 && up+down >= 2, cl...)
				trace = append(trace, fmt.Sprintf("Balance(algo=%d,key=%q) -> %s", st.Algo, st.Key, res))
				if !checkBackend(res) {
					return
				}
				if len(elig) == 0 && err == nil {
					rec.Fail(tb, "served-without-eligible", witness(map[string]any{"got": res.String()}), "no eligible backend, yet %s", res)
					return
				}
				// a member restarted under slow start may still have effective weight 0
				if len(def) > 0 && (err != nil || be == nil) {
					rec.Fail(tb, "error-with-eligible", witness(map[string]any{"got": res.String()}), "algorithm %d failed (%v) although eligible backends exist: %v", st.Algo, err, def)
					return
				}
				continue
			}
			req, err := mkReq(st.Req)
			if err != nil {
				tb.Fatalf("harness: request %v: %v", st.Req, err)
			}
			res := doBalance(r, req, st.Req.RetryTime)
			errCode := req.ErrCode
			key := modelKey(p.GB, st.Req)
			mode := strings.ToUpper(p.GB.Mode)
			if p.GB.Sticky {
				mode = "sticky"
			}
			cl := []string{"path=gslb", "mode=" + mode}
			if slowStart {
				cl = append(cl, "slow-start")
			}
			if res.be != nil && res.Err == nil && st.Hold {
				res.be.IncConnNum()
			}
			if up > 0 && down > 0 {
				cl = append(cl, "availability=mixed")
			} else if down > 0 {
				cl = append(cl, "availability=all-down")
			}
			trace = append(trace, fmt.Sprintf("Balance(key=%q,retry=%d) -> %s", key, st.Req.RetryTime, res))
			if len(trace) > 40 {
				trace = trace[len(trace)-40:]
			}
			rt := st.Req.RetryTime
			w := func() map[string]any {
				return witness(map[string]any{"request": st.Req, "got": res.String(), "hash_key": string(key)})
			}
			nt := up > 0 && down > 0 && len(subs) >= 2

			// every returned backend must be eligible, whatever path produced it
			if !checkBackend(res) {
				rec.Case(fpb.String(), nt, cl...)
				return
			}
			// retries exhausted
			if rt > p.GB.RetryMax+p.GB.CrossRetry {
				rec.Case(fpb.String(), nt, append(cl, "retry-exhausted")...)
				if res.Err == nil {
					rec.Fail(tb, "served-after-retries-exhausted", w(), "RetryTime %d > RetryMax %d + CrossRetry %d but %s", rt, p.GB.RetryMax, p.GB.CrossRetry, res)
					return
				}
				continue
			}
			// possible assigned sub-clusters
			pos := subTargets(subs)
			var assigned []string
			if len(key) > 0 {
				assigned = []string{partition(pos, murmur3.Sum64(key)%totalWeight(pos))}
			} else {
				cl = append(cl, "no-key")
				for _, t := range pos {
					assigned = append(assigned, t.ID)
				}
			}
			// valid(A): is the observed outcome legitimate if A was the assigned sub-cluster?
			var reason, pathClass string
			valid := func(a string) bool {
				sa, _ := findSub(subs, a)
				if a == blackhole {
					pathClass = "blackholed"
					if res.Err == bfe_basic.ErrGslbBlackhole && res.Backend == "" && errCode == bfe_basic.ErrGslbBlackhole {
						return true
					}
					reason = "blackhole-forwarded"
					return false
				}
				// eligA: eligible by configuration and availability; defA: those of
				// them whose effective weight is certainly the configured one. Members
				// restarted under slow start ramp up from 0 with the wall clock, so the
				// sub-cluster may or may not have been able to serve.
				eligA := beTargets(sa, avail)
				defA := definite(sa, avail, ramp)
				if rt <= p.GB.RetryMax && len(eligA) > 0 && res.Err == nil && res.BeSub == a && res.Sub == a {
					pathClass = "in-subcluster"
					return true
				}
				if rt <= p.GB.RetryMax && len(defA) > 0 {
					pathClass = "in-subcluster"
					reason = "not-from-assigned-subcluster"
					if res.Err != nil {
						reason = "error-with-eligible"
					}
					return false
				}
				// cross sub-cluster retry
				pathClass = "cross"
				if p.GB.CrossRetry <= 0 {
					pathClass = "cross-disabled"
					if res.Err == nil {
						reason = "served-with-cross-retry-disabled"
						return false
					}
					return true
				}
				candAll, candOK := 0, 0
				okSub := map[string]bool{}
				for _, s := range subs {
					if s.Name == a || s.Name == blackhole || s.Weight < 0 {
						continue
					}
					candAll++
					if len(beTargets(s, avail)) > 0 {
						okSub[s.Name] = true
					}
					if len(definite(s, avail, ramp)) > 0 {
						candOK++
					}
				}
				if res.Err == nil {
					if !okSub[res.BeSub] || res.Sub != res.BeSub {
						reason = "cross-target-not-allowed"
						return false
					}
					return true
				}
				if candAll > 0 && candOK == candAll {
					reason = "cross-error-with-all-candidates-eligible"
					return false
				}
				if candAll == 0 {
					pathClass = "cross-no-candidate"
				}
				return true
			}
			ok := false
			for _, a := range assigned {
				if valid(a) {
					ok = true
					break
				}
			}
			rec.Case(fpb.String(), nt, append(cl, "outcome="+pathClass)...)
			if !ok {
				if len(key) == 0 {
					reason = "nokey-" + reason
				}
				rec.Fail(tb, reason, w(), "outcome %s is not legitimate for any possible assigned sub-cluster %v (RetryTime %d, RetryMax %d, CrossRetry %d); sub-clusters now: %s", res, assigned, rt, p.GB.RetryMax, p.GB.CrossRetry, fmtSubs(subs))
				return
			}
			// first-choice traffic never goes to a sub-cluster with weight <= 0
			if res.Err == nil && rt <= p.GB.RetryMax && pathClass == "in-subcluster" {
				if s, _ := findSub(subs, res.Sub); s.Weight <= 0 {
					rec.Fail(tb, "first-choice-to-nonpositive-subcluster", w(), "first-choice traffic went to sub-cluster %q of weight %d", s.Name, s.Weight)
					return
				}
			}
		}
	}
	rec.Sample(map[string]any{"path": p.Path, "subs": fmtSubs(p.Subs), "gslb_basic": p.GB, "steps": len(p.Steps)})
}

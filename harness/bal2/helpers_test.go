package bal2

import (
	"encoding/json"
	"fmt"
	"net"
	"os"
	"path/filepath"
	"runtime"
	"sort"
	"strconv"
	"strings"
	"sync"
	"sync/atomic"
	"time"

	"github.com/bfenetworks/bfe/bfe_basic"
	"github.com/bfenetworks/bfe/bfe_config/bfe_cluster_conf/cluster_conf"
	"github.com/bfenetworks/bfe/bfe_config/bfe_cluster_conf/cluster_table_conf"
	"github.com/bfenetworks/bfe/bfe_config/bfe_cluster_conf/gslb_conf"
	"github.com/bfenetworks/bfe/bfe_http"
	"github.com/bfenetworks/bfe/bfe_route"
)

// ---------------------------------------------------------------------------
// Configuration descriptions (harness side) and the way they reach bfe: always
// as JSON files through the real loaders (ClusterTableLoad / GslbConfLoad /
// ClusterConfLoad), exactly like bfe_server's Init/reload entry points.

type beConf struct {
	Name   string
	Addr   string
	Port   int
	Weight int
}

func (b beConf) addrInfo() string { return fmt.Sprintf("%s:%d", b.Addr, b.Port) }

type subConf []beConf

// tableConf: cluster -> sub-cluster -> backend list (cluster_table.data)
type tableConf map[string]map[string]subConf

// gslbConf: cluster -> sub-cluster -> weight (gslb.data)
type gslbConf map[string]map[string]int

func (s subConf) clone() subConf { return append(subConf(nil), s...) }

func (t tableConf) clone() tableConf {
	o := tableConf{}
	for c, subs := range t {
		o[c] = map[string]subConf{}
		for s, l := range subs {
			o[c][s] = l.clone()
		}
	}
	return o
}

func (g gslbConf) clone() gslbConf {
	o := gslbConf{}
	for c, subs := range g {
		o[c] = map[string]int{}
		for s, w := range subs {
			o[c][s] = w
		}
	}
	return o
}

func sortedKeys[V any](m map[string]V) []string {
	ks := make([]string, 0, len(m))
	for k := range m {
		ks = append(ks, k)
	}
	sort.Strings(ks)
	return ks
}

var (
	workDirOnce sync.Once
	workDirPath string
	fileSeq     int64
)

func workDir() string {
	workDirOnce.Do(func() {
		base := os.Getenv("VERIF_WORK")
		if base == "" {
			base = os.TempDir()
		}
		d, err := os.MkdirTemp(base, "bal2conf")
		if err != nil {
			panic(err)
		}
		workDirPath = d
	})
	return workDirPath
}

func writeJSON(prefix string, v any) string {
	b, err := json.Marshal(v)
	if err != nil {
		panic(err)
	}
	// a small ring of file names: files are consumed by the loader immediately
	n := atomic.AddInt64(&fileSeq, 1) % 64
	fn := filepath.Join(workDir(), fmt.Sprintf("%s.%d.data", prefix, n))
	if err := os.WriteFile(fn, b, 0o644); err != nil {
		panic(err)
	}
	return fn
}

func tableJSON(t tableConf, version string) any {
	cfg := map[string]map[string][]map[string]any{}
	for c, subs := range t {
		cfg[c] = map[string][]map[string]any{}
		for s, l := range subs {
			lst := make([]map[string]any, 0, len(l))
			for _, b := range l {
				lst = append(lst, map[string]any{"Name": b.Name, "Addr": b.Addr, "Port": b.Port, "Weight": b.Weight})
			}
			cfg[c][s] = lst
		}
	}
	return map[string]any{"Version": version, "Config": cfg}
}

func gslbJSON(g gslbConf, ts string) any {
	return map[string]any{"Clusters": g, "Hostname": "gslb-sch.verif", "Ts": ts}
}

func writeTableFile(t tableConf, version string) string {
	return writeJSON("cluster_table", tableJSON(t, version))
}

func writeGslbFile(g gslbConf, ts string) string { return writeJSON("gslb", gslbJSON(g, ts)) }

// loadTable runs the real cluster-table loader on the description.
func loadTable(t tableConf, version string) (cluster_table_conf.ClusterTableConf, error) {
	return cluster_table_conf.ClusterTableLoad(writeTableFile(t, version))
}

func loadGslb(g gslbConf, ts string) (gslb_conf.GslbConf, error) {
	return gslb_conf.GslbConfLoad(writeGslbFile(g, ts))
}

// loadSub loads one sub-cluster backend list through the cluster-table loader.
func loadSub(s subConf) (cluster_table_conf.SubClusterBackend, error) {
	c, err := loadTable(tableConf{"c": {"s": s}}, "v")
	if err != nil {
		return nil, err
	}
	return (*c.Config)["c"]["s"], nil
}

// clusterBasic is the part of cluster_conf.data the balancer consumes.
type clusterBasic struct {
	SlowStart  int
	Mode       string // "WRR" / "WLC"
	Sticky     bool
	Strategy   int // cluster_conf.ClientIdOnly .. RequestURI
	Header     string
	RetryMax   int
	CrossRetry int
	Check      *checkBasic
}

type checkBasic struct {
	Schem         string
	Uri           string
	Host          string
	StatusCode    int
	FailNum       int
	SuccNum       int
	CheckTimeout  int // 0: not configured
	CheckInterval int
}

func clusterConfJSON(m map[string]clusterBasic) any {
	cfg := map[string]any{}
	for name, b := range m {
		hash := map[string]any{"HashStrategy": b.Strategy, "SessionSticky": b.Sticky}
		if b.Header != "" {
			hash["HashHeader"] = b.Header
		}
		cc := map[string]any{
			"BackendConf": map[string]any{"SlowStartTime": b.SlowStart},
			"GslbBasic": map[string]any{"CrossRetry": b.CrossRetry, "RetryMax": b.RetryMax,
				"BalanceMode": b.Mode, "HashConf": hash},
		}
		if b.Check != nil {
			k := b.Check
			chk := map[string]any{"Schem": k.Schem, "FailNum": k.FailNum, "SuccNum": k.SuccNum, "CheckInterval": k.CheckInterval}
			if k.Schem == "http" {
				chk["Uri"] = k.Uri
				chk["StatusCode"] = k.StatusCode
			}
			if k.Host != "" {
				chk["Host"] = k.Host
			}
			if k.CheckTimeout > 0 {
				chk["CheckTimeout"] = k.CheckTimeout
			}
			cc["CheckConf"] = chk
		}
		cfg[name] = cc
	}
	return map[string]any{"Version": "v", "Config": cfg}
}

// loadClusterTable builds a bfe_route.ClusterTable the way LoadServerDataConf
// does (ClusterTable.Init on a cluster_conf file).
func loadClusterTable(m map[string]clusterBasic) (*bfe_route.ClusterTable, error) {
	fn := writeJSON("cluster_conf", clusterConfJSON(m))
	ct := new(bfe_route.ClusterTable)
	if err := ct.Init(fn); err != nil {
		return nil, err
	}
	return ct, nil
}

// loadCheckConf returns the BackendCheck of one cluster through ClusterConfLoad.
func loadCheckConf(k checkBasic) (*cluster_conf.BackendCheck, error) {
	fn := writeJSON("cluster_conf", clusterConfJSON(map[string]clusterBasic{"c": {Mode: "WRR", Strategy: cluster_conf.ClientIpOnly, Check: &k}}))
	c, err := cluster_conf.ClusterConfLoad(fn)
	if err != nil {
		return nil, err
	}
	return (*c.Config)["c"].CheckConf, nil
}

// newRequest builds a request the way the balancer sees it from reverseproxy:
// ClientAddr, HttpRequest (header, RequestURI), RetryTime.
func newRequest(ip net.IP, uri string, hdrKey, hdrVal string, retry int) *bfe_basic.Request {
	hr := &bfe_http.Request{Header: make(bfe_http.Header), RequestURI: uri, Method: "GET"}
	if hdrKey != "" && hdrVal != "" {
		hr.Header.Set(hdrKey, hdrVal)
	}
	req := bfe_basic.NewRequest(hr, nil, nil, nil, nil)
	if ip != nil {
		req.RemoteAddr = &net.TCPAddr{IP: ip, Port: 12345}
		req.ClientAddr = req.RemoteAddr
	}
	req.RetryTime = retry
	return req
}

// ---------------------------------------------------------------------------
// goroutine observation: number of live health-check goroutines, counted in an
// all-goroutine stack dump by their entry frame.

const checkerFrame = "bfe_balance/backend.check("

func countCheckers() int {
	buf := make([]byte, 1<<16)
	for {
		n := runtime.Stack(buf, true)
		if n < len(buf) {
			buf = buf[:n]
			break
		}
		buf = make([]byte, 2*len(buf))
	}
	return strings.Count(string(buf), checkerFrame)
}

// waitCheckers waits (bounded) until at most `want` checker goroutines live.
func waitCheckers(want int, d time.Duration) bool {
	dl := time.Now().Add(d)
	for {
		if countCheckers() <= want {
			return true
		}
		if time.Now().After(dl) {
			return false
		}
		time.Sleep(300 * time.Microsecond)
	}
}

// shardOf returns the shard index of this process (deterministic sweeps run in shard 0 only).
func shardOf() int {
	n, _ := strconv.Atoi(os.Getenv("VERIF_SHARD"))
	return n
}

func allStacks() string {
	buf := make([]byte, 1<<20)
	n := runtime.Stack(buf, true)
	return string(buf[:n])
}

package bal2

import (
	"encoding/json"
	"fmt"
	"net"
	"os"
	"os/exec"
	"strings"
	"sync"
	"sync/atomic"
	"testing"
	"time"

	"github.com/bfenetworks/bfe/bfe_balance"
	"github.com/bfenetworks/bfe/bfe_balance/backend"
	"github.com/bfenetworks/bfe/bfe_balance/bal_gslb"
	"github.com/bfenetworks/bfe/bfe_balance/bal_slb"
	"github.com/bfenetworks/bfe/bfe_config/bfe_cluster_conf/cluster_conf"
	"github.com/bfenetworks/bfe/bfe_config/bfe_cluster_conf/cluster_table_conf"
	"github.com/bfenetworks/bfe/bfe_config/bfe_cluster_conf/gslb_conf"
	"github.com/bfenetworks/bfe/bfe_route"
	"pgregory.net/rapid"

	"verif/harness/internal/ev"
)

// C05: every balancing call returns a backend or an error without panicking,
// blocking or looping forever, for every interleaving of selections,
// availability flips, slow-start updates and reloads, with every algorithm the
// balancer exposes; concurrent use never triggers a data race.
//
// Oracle: none of the code under test is consulted for the verdict. A call
// must come back (watchdog), must not panic (recover), must yield
// (backend!=nil) or (err!=nil); in owned (sequential) schedules a returned
// backend must be a current member that is available at that moment. Data
// races are reported by the Go race detector (the driver maps its report to a
// violation); the two races that exist on the unchanged tree are probed in a
// child process so that they can be handled as known findings.

const (
	c05HangWindow  = 10 * time.Second // an operation takes microseconds; no progress over a full window = hang
	c05KnownWindow = 3 * time.Second  // only used to re-confirm an *open known finding* (never yields a violation)

	c05KeyHangNeg    = "wrrsimple-hang-avail-negative-weight"
	c05KeyRaceSubNum = "race-gslb-subclusternum-vs-reload"
	c05KeyRaceSticky = "race-rr-stickybalance-len-vs-update"
)

// after a first hang has been established in this process (only shrinking
// re-runs follow), a shorter window keeps the run bounded.
var c05HangSeen atomic.Bool

func c05Window() time.Duration {
	if c05HangSeen.Load() {
		return 3 * time.Second
	}
	return c05HangWindow
}

var c05Algors = []int{bal_slb.WrrSimple, bal_slb.WrrSmooth, bal_slb.WrrSticky, bal_slb.WlcSimple, bal_slb.WlcSmooth, 9}

func c05AlgorName(a int) string {
	switch a {
	case bal_slb.WrrSimple:
		return "WrrSimple"
	case bal_slb.WrrSmooth:
		return "WrrSmooth"
	case bal_slb.WrrSticky:
		return "WrrSticky"
	case bal_slb.WlcSimple:
		return "WlcSimple"
	case bal_slb.WlcSmooth:
		return "WlcSmooth"
	}
	return "Default"
}

type c05Failure struct {
	Key  string
	Msg  string
	Hang bool
}

// ---------------------------------------------------------------------------
// generators

func c05GenWeight(rt *rapid.T, label string) int {
	k := rapid.IntRange(0, 99).Draw(rt, label+"-kind")
	switch {
	case k < 58:
		return rapid.IntRange(1, 5).Draw(rt, label)
	case k < 74:
		return 0
	default:
		return -rapid.IntRange(1, 3).Draw(rt, label)
	}
}

// c05GenSub draws a backend list shape. Addresses are loopback addresses on
// one of two ports (one answered by a harness listener, one closed) so that
// health checks started in the concurrent table mode stay inside the process.
func c05GenSub(rt *rapid.T, label string, ports [2]int, ensurePositive bool) subConf {
	n := rapid.IntRange(1, 6).Draw(rt, label+"-n")
	s := make(subConf, 0, n)
	for i := 0; i < n; i++ {
		s = append(s, beConf{
			Name:   fmt.Sprintf("b%d", rapid.IntRange(0, 9).Draw(rt, label+"-name")),
			Addr:   fmt.Sprintf("127.0.0.%d", rapid.IntRange(1, 8).Draw(rt, label+"-addr")),
			Port:   ports[rapid.IntRange(0, 1).Draw(rt, label+"-port")],
			Weight: c05GenWeight(rt, label+"-w"),
		})
	}
	if ensurePositive {
		pos := false
		for _, b := range s {
			pos = pos || b.Weight > 0
		}
		if !pos {
			s[rapid.IntRange(0, n-1).Draw(rt, label+"-posidx")].Weight = rapid.IntRange(1, 5).Draw(rt, label+"-posw")
		}
	}
	return s
}

func c05SubShapeClasses(s subConf) []string {
	var neg, zero, pos int
	seen := map[string]bool{}
	dup := false
	for _, b := range s {
		switch {
		case b.Weight < 0:
			neg++
		case b.Weight == 0:
			zero++
		default:
			pos++
		}
		if seen[b.addrInfo()] {
			dup = true
		}
		seen[b.addrInfo()] = true
	}
	var cl []string
	if len(s) == 1 {
		cl = append(cl, "shape:single-backend")
	}
	if neg > 0 {
		cl = append(cl, "shape:has-negative-weight")
	}
	if zero > 0 {
		cl = append(cl, "shape:has-zero-weight")
	}
	if pos == 1 && neg > 0 {
		cl = append(cl, "shape:one-positive-rest-nonpositive")
	}
	if dup {
		cl = append(cl, "shape:duplicate-addr")
	}
	return cl
}

// ---- BalanceRR-level programs

type c05RROp struct {
	K     string // bal burst avail update ss conn restart
	Algor int    `json:",omitempty"`
	Key   []byte `json:",omitempty"`
	N     int    `json:",omitempty"`
	Idx   int    `json:",omitempty"`
	On    bool   `json:",omitempty"`
	SS    int    `json:",omitempty"`
	Conf  subConf `json:",omitempty"`

	loaded cluster_table_conf.SubClusterBackend
	reject bool
}

func c05GenRROps(rt *rapid.T, label string, n int, ports [2]int, rec *ev.Rec) []c05RROp {
	ops := make([]c05RROp, 0, n)
	for i := 0; i < n; i++ {
		l := fmt.Sprintf("%s-op%d", label, i)
		k := rapid.IntRange(0, 99).Draw(rt, l+"-kind")
		var op c05RROp
		switch {
		case k < 38:
			op = c05RROp{K: "bal", Algor: rapid.SampledFrom(c05Algors).Draw(rt, l+"-algor")}
			if rapid.IntRange(0, 3).Draw(rt, l+"-haskey") > 0 {
				op.Key = rapid.SliceOfN(rapid.Byte(), 0, 6).Draw(rt, l+"-key")
			}
		case k < 48:
			op = c05RROp{K: "burst", Algor: rapid.SampledFrom(c05Algors).Draw(rt, l+"-algor"), N: rapid.IntRange(2, 700).Draw(rt, l+"-n")}
			op.Key = []byte{byte(i)}
		case k < 68:
			op = c05RROp{K: "avail", Idx: rapid.IntRange(0, 5).Draw(rt, l+"-idx"), On: rapid.IntRange(0, 2).Draw(rt, l+"-on") == 0}
		case k < 80:
			op = c05RROp{K: "update", Conf: c05GenSub(rt, l, ports, rapid.IntRange(0, 9).Draw(rt, l+"-keepbad") < 9)}
			loaded, err := loadSub(op.Conf)
			if err != nil {
				op.reject = true
				rec.Class("loader-rejected-update")
			} else {
				op.loaded = loaded
			}
		case k < 86:
			op = c05RROp{K: "ss", SS: rapid.SampledFrom([]int{0, 1, 30}).Draw(rt, l+"-ss")}
		case k < 93:
			op = c05RROp{K: "conn", Idx: rapid.IntRange(0, 5).Draw(rt, l+"-idx"), On: rapid.Bool().Draw(rt, l+"-inc")}
		default:
			op = c05RROp{K: "restart", Idx: rapid.IntRange(0, 5).Draw(rt, l+"-idx")}
		}
		ops = append(ops, op)
	}
	return ops
}

type c05Shape struct {
	N           int
	AvailNeg    bool
	AvailPos    bool
	AvailPosCur bool
	Avail       []bool
	W           [][2]int
}

func c05ShapeOf(brr *bal_slb.BalanceRR) c05Shape {
	bs := brr.VerifBal2Backends()
	ws := brr.VerifBal2Weights()
	sh := c05Shape{N: len(bs), W: ws}
	for i, b := range bs {
		a := b.Avail()
		sh.Avail = append(sh.Avail, a)
		if i < len(ws) && a {
			if ws[i][0] < 0 {
				sh.AvailNeg = true
			}
			if ws[i][0] > 0 {
				sh.AvailPos = true
			}
			if ws[i][1] > 0 {
				sh.AvailPosCur = true
			}
		}
	}
	return sh
}

// c05HangKey names a hang by algorithm and the discriminating input feature:
// for WrrSimple whether any configuration applied so far carried a negative
// weight (the live weight can turn negative later through slow start's stale
// weightSS.final, so the pre-call snapshot alone does not discriminate).
func c05HangKey(algor int, sh c05Shape, sawNeg bool) string {
	if algor == bal_slb.WrrSimple && (sh.AvailNeg || sawNeg) {
		return c05KeyHangNeg
	}
	return fmt.Sprintf("hang-%s-availpos=%v-negweight=%v", c05AlgorName(algor), sh.AvailPos, sh.AvailNeg || sawNeg)
}

func c05HasNeg(s subConf) bool {
	for _, b := range s {
		if b.Weight < 0 {
			return true
		}
	}
	return false
}

// c05Stash is the first sequential program prefix that ends in the exactly
// predicted known hang shape.
type c05Stash struct {
	init       subConf
	initLoaded cluster_table_conf.SubClusterBackend
	ops        []c05RROp
}

var c05KnownHangStash *c05Stash

// c05RRState is the state of one sequentially executed BalanceRR program.
type c05RRState struct {
	rec      *ev.Rec
	brr      *bal_slb.BalanceRR
	ssActive bool
	sawNeg   bool // some configuration applied so far carried a negative weight
	probing  bool // replay of the stashed known-hang program: execute the risky call
	init     subConf
	initLoaded cluster_table_conf.SubClusterBackend
	prog     []c05RROp
	pos      int
	mu       sync.Mutex
	curAlgor int
	curShape c05Shape
	inBal    bool
}

func (st *c05RRState) note(algor int, sh c05Shape, in bool) {
	st.mu.Lock()
	st.curAlgor, st.curShape, st.inBal = algor, sh, in
	st.mu.Unlock()
}

// balanceOnce performs one Balance call with totality checks.
func (st *c05RRState) balanceOnce(algor int, key []byte, sequential bool) *c05Failure {
	var b *backend.BfeBackend
	var err error
	if p := ev.Try(func() { b, err = st.brr.Balance(algor, key) }); p != nil {
		key := "panic-rr-balance-" + c05AlgorName(algor)
		if strings.Contains(fmt.Sprint(p), "divide by zero") {
			key += "-divide-by-zero"
		}
		return &c05Failure{Key: key, Msg: fmt.Sprintf("BalanceRR.Balance(%s) panicked: %v", c05AlgorName(algor), p)}
	}
	if err == nil && b == nil {
		return &c05Failure{Key: "nil-backend-nil-error-" + c05AlgorName(algor), Msg: "Balance returned neither a backend nor an error"}
	}
	if err == nil && sequential {
		member := false
		for _, m := range st.brr.VerifBal2Backends() {
			if m == b {
				member = true
			}
		}
		if !member {
			return &c05Failure{Key: "selected-nonmember-" + c05AlgorName(algor), Msg: fmt.Sprintf("Balance(%s) returned %s which is not a member of the list", c05AlgorName(algor), b.AddrInfo)}
		}
		if !b.Avail() {
			return &c05Failure{Key: "selected-unavailable-" + c05AlgorName(algor), Msg: fmt.Sprintf("Balance(%s) returned unavailable backend %s", c05AlgorName(algor), b.AddrInfo)}
		}
	}
	return nil
}

// step executes one op of a sequential program.
func (st *c05RRState) step(op *c05RROp) *c05Failure {
	brr := st.brr
	pick := func(idx int) *backend.BfeBackend {
		bs := brr.VerifBal2Backends()
		if len(bs) == 0 {
			return nil
		}
		return bs[idx%len(bs)]
	}
	switch op.K {
	case "bal", "burst":
		if brr.Len() == 0 {
			// the only production caller (SubCluster.balance) never calls Balance on an empty list
			st.rec.Excluded("rr-empty-list-guarded-by-caller")
			return nil
		}
		n := 1
		if op.K == "burst" {
			n = op.N
		}
		sh := c05ShapeOf(brr)
		risky := op.Algor == bal_slb.WrrSimple && (sh.AvailNeg || st.sawNeg) && (!(sh.AvailPos || sh.AvailPosCur) || st.ssActive)
		if risky {
			st.rec.Class("wrrsimple-avail-negative-no-usable-positive")
		}
		if risky && st.rec.Known(c05KeyHangNeg) && !st.probing {
			// behind the open finding: excluded by construction. The first exactly
			// predicted shape (no slow start involved) is replayed once at the end of
			// the test to re-confirm the finding (a stuck call burns a core for the
			// rest of the process, so it is not done in the middle of the run).
			st.rec.Excluded("known-finding:" + c05KeyHangNeg)
			if sh.AvailNeg && !(sh.AvailPos || sh.AvailPosCur) && !st.ssActive && c05KnownHangStash == nil && st.prog != nil {
				c05KnownHangStash = &c05Stash{init: st.init, initLoaded: st.initLoaded, ops: append([]c05RROp(nil), st.prog[:st.pos+1]...)}
			}
			return nil
		}
		st.note(op.Algor, sh, true)
		for i := 0; i < n; i++ {
			if f := st.balanceOnce(op.Algor, op.Key, true); f != nil {
				return f
			}
		}
		st.note(op.Algor, sh, false)
	case "avail":
		if b := pick(op.Idx); b != nil {
			b.SetAvail(op.On)
		}
	case "conn":
		if b := pick(op.Idx); b != nil {
			if op.On {
				b.IncConnNum()
			} else if b.ConnNum() > 0 {
				b.DecConnNum()
			}
		}
	case "restart":
		// what the health checker does when a backend comes back
		if b := pick(op.Idx); b != nil {
			b.SetRestart(true)
			b.SetAvail(true)
		}
	case "ss":
		if op.SS > 0 {
			st.ssActive = true
		}
		if p := ev.Try(func() { brr.SetSlowStart(op.SS) }); p != nil {
			return &c05Failure{Key: "panic-rr-setslowstart", Msg: fmt.Sprintf("SetSlowStart panicked: %v", p)}
		}
	case "update":
		if op.reject {
			return nil
		}
		st.sawNeg = st.sawNeg || c05HasNeg(op.Conf)
		if p := ev.Try(func() { brr.Update(op.loaded) }); p != nil {
			return &c05Failure{Key: "panic-rr-update", Msg: fmt.Sprintf("BalanceRR.Update panicked: %v", p)}
		}
	}
	return nil
}

// c05Watched runs step(0..n-1) in a goroutine; a hang is declared when the
// same step is still running after a full window.
func c05Watched(n int, window time.Duration, step func(i int) *c05Failure) (fail *c05Failure, hungAt int) {
	done := make(chan *c05Failure, 1)
	var cur atomic.Int64
	cur.Store(-1)
	go func() {
		for i := 0; i < n; i++ {
			cur.Store(int64(i))
			if f := step(i); f != nil {
				done <- f
				return
			}
		}
		done <- nil
	}()
	last := int64(-2)
	for {
		tm := time.NewTimer(window)
		select {
		case f := <-done:
			tm.Stop()
			return f, -1
		case <-tm.C:
			c := cur.Load()
			if c == last {
				c05HangSeen.Store(true)
				return nil, int(c)
			}
			last = c
		}
	}
}

// ---- table-level programs (BalTable, the way bfe_server drives it)

type c05TblOp struct {
	K       string // bal reload basic avail conn state subnum fail succ restart
	Cluster string `json:",omitempty"`
	IP      []byte `json:",omitempty"`
	URI     string `json:",omitempty"`
	Hdr     string `json:",omitempty"`
	Retry   int    `json:",omitempty"`
	N       int    `json:",omitempty"`
	Sub     int    `json:",omitempty"`
	Idx     int    `json:",omitempty"`
	On      bool   `json:",omitempty"`
	G       gslbConf                `json:",omitempty"`
	T       tableConf               `json:",omitempty"`
	Basic   map[string]clusterBasic `json:",omitempty"`

	gl     gslb_conf.GslbConf
	tl     cluster_table_conf.ClusterTableConf
	ct     *bfe_route.ClusterTable
	reject bool
}

var c05Clusters = []string{"c0", "c1"}

func c05GenPair(rt *rapid.T, label string, ports [2]int) (gslbConf, tableConf) {
	g, t := gslbConf{}, tableConf{}
	nc := rapid.IntRange(1, 2).Draw(rt, label+"-nc")
	for ci := 0; ci < nc; ci++ {
		c := c05Clusters[ci]
		g[c] = map[string]int{}
		t[c] = map[string]subConf{}
		ns := rapid.IntRange(1, 3).Draw(rt, label+"-ns")
		for si := 0; si < ns; si++ {
			s := fmt.Sprintf("s%d", rapid.IntRange(0, 3).Draw(rt, label+"-sname"))
			k := rapid.IntRange(0, 99).Draw(rt, label+"-gwk")
			switch {
			case k < 70:
				g[c][s] = rapid.IntRange(1, 3).Draw(rt, label+"-gw")
			case k < 86:
				g[c][s] = 0
			default:
				g[c][s] = -1
			}
			if rapid.IntRange(0, 99).Draw(rt, label+"-intable") < 94 {
				t[c][s] = c05GenSub(rt, label+"-"+c+s, ports, true)
			}
		}
		if rapid.IntRange(0, 99).Draw(rt, label+"-blackhole") < 6 {
			g[c]["GSLB_BLACKHOLE"] = rapid.IntRange(0, 2).Draw(rt, label+"-bhw")
		}
		if rapid.IntRange(0, 99).Draw(rt, label+"-extra") < 6 {
			t[c]["sx"] = c05GenSub(rt, label+"-"+c+"sx", ports, true)
		}
	}
	if rapid.IntRange(0, 99).Draw(rt, label+"-dropcluster") < 4 {
		delete(t, c05Clusters[0])
	}
	return g, t
}

func c05GenBasic(rt *rapid.T, label string, hc bool) map[string]clusterBasic {
	m := map[string]clusterBasic{}
	for _, c := range c05Clusters {
		b := clusterBasic{
			SlowStart:  rapid.SampledFrom([]int{0, 0, 1, 30}).Draw(rt, label+"-ss"),
			Mode:       rapid.SampledFrom([]string{"WRR", "WLC"}).Draw(rt, label+"-mode"),
			Sticky:     rapid.IntRange(0, 2).Draw(rt, label+"-sticky") == 0,
			Strategy:   rapid.IntRange(0, 3).Draw(rt, label+"-strategy"),
			RetryMax:   rapid.IntRange(0, 3).Draw(rt, label+"-retrymax"),
			CrossRetry: rapid.IntRange(0, 2).Draw(rt, label+"-cross"),
		}
		if b.Strategy == cluster_conf.ClientIdOnly || b.Strategy == cluster_conf.ClientIdPreferred {
			b.Header = rapid.SampledFrom([]string{"X-Id", "Cookie:UID"}).Draw(rt, label+"-hdr")
		}
		if hc {
			b.Check = &checkBasic{Schem: "tcp", FailNum: rapid.IntRange(1, 2).Draw(rt, label+"-failnum"), SuccNum: 1, CheckInterval: 1, CheckTimeout: 500}
		}
		m[c] = b
	}
	return m
}

func c05GenTblOps(rt *rapid.T, label string, n int, ports [2]int, hc bool, concurrent bool, rec *ev.Rec) []c05TblOp {
	ops := make([]c05TblOp, 0, n)
	for i := 0; i < n; i++ {
		l := fmt.Sprintf("%s-op%d", label, i)
		k := rapid.IntRange(0, 99).Draw(rt, l+"-kind")
		op := c05TblOp{Cluster: rapid.SampledFrom(c05Clusters).Draw(rt, l+"-cluster")}
		switch {
		case k < 40:
			op.K = "bal"
			op.N = 1
			if rapid.IntRange(0, 5).Draw(rt, l+"-burst") == 0 {
				op.N = rapid.IntRange(2, 60).Draw(rt, l+"-n")
			}
			if rapid.IntRange(0, 9).Draw(rt, l+"-hasip") > 0 {
				op.IP = rapid.SliceOfN(rapid.Byte(), 4, 4).Draw(rt, l+"-ip")
			}
			op.URI = "/" + rapid.StringMatching(`[a-z]{0,3}`).Draw(rt, l+"-uri")
			op.Hdr = rapid.StringMatching(`[a-z]{0,2}`).Draw(rt, l+"-hdr")
			op.Retry = rapid.IntRange(0, 7).Draw(rt, l+"-retry")
		case k < 52:
			op.K = "reload"
			op.G, op.T = c05GenPair(rt, l, ports)
			gl, err1 := loadGslb(op.G, "1")
			tl, err2 := loadTable(op.T, "1")
			if err1 != nil || err2 != nil {
				op.reject = true
				rec.Class("loader-rejected-reload")
			} else {
				op.gl, op.tl = gl, tl
			}
		case k < 60:
			op.K = "basic"
			op.Basic = c05GenBasic(rt, l, hc)
			ct, err := loadClusterTable(op.Basic)
			if err != nil {
				op.reject = true
				rec.Class("loader-rejected-basic")
			} else {
				op.ct = ct
			}
		case k < 74:
			op.K = "avail"
			op.On = rapid.IntRange(0, 2).Draw(rt, l+"-on") == 0
		case k < 80:
			op.K = "conn"
			op.On = rapid.Bool().Draw(rt, l+"-inc")
		case k < 84:
			op.K = "state"
		case k < 88:
			op.K = "subnum"
		case k < 94:
			op.K = "fail"
		case k < 97:
			op.K = "succ"
		default:
			op.K = "restart"
		}
		if op.K == "avail" || op.K == "conn" || op.K == "fail" || op.K == "succ" || op.K == "restart" {
			op.Sub = rapid.IntRange(0, 3).Draw(rt, l+"-sub")
			op.Idx = rapid.IntRange(0, 5).Draw(rt, l+"-idx")
		}
		if op.K == "subnum" && concurrent && rec.Known(c05KeyRaceSubNum) {
			// excluded by construction behind the open finding (probed in a child process)
			rec.Excluded("known-finding:" + c05KeyRaceSubNum)
			op.K = "state"
		}
		ops = append(ops, op)
	}
	return ops
}

// c05Env is the process-wide table rig: one BalTable per process, as in bfe.
type c05Env struct {
	tblP   atomic.Pointer[bfe_balance.BalTable]
	curCT  atomic.Pointer[bfe_route.ClusterTable]
	hcOn   atomic.Bool
	ports  [2]int
	ln     net.Listener
	basic0 *bfe_route.ClusterTable
}

func (e *c05Env) table() *bfe_balance.BalTable { return e.tblP.Load() }

func (e *c05Env) fetch(cluster string) *cluster_conf.BackendCheck {
	// same shape as BfeServer.GetCheckConf
	if !e.hcOn.Load() {
		return nil
	}
	ct := e.curCT.Load()
	if ct == nil {
		return nil
	}
	c, err := ct.Lookup(cluster)
	if err != nil {
		return nil
	}
	return c.BackendCheckConf()
}

func newC05Env(t *testing.T) *c05Env {
	e := &c05Env{}
	ln, err := net.Listen("tcp", "0.0.0.0:0") // reachable through every 127.0.0.x
	if err != nil {
		t.Skipf("cannot listen on loopback: %v", err)
	}
	port := ln.Addr().(*net.TCPAddr).Port
	e.ln = ln
	go func() {
		for {
			c, err := ln.Accept()
			if err != nil {
				return
			}
			c.Close()
		}
	}()
	ln2, err := net.Listen("tcp", "0.0.0.0:0")
	if err != nil {
		t.Skipf("cannot listen: %v", err)
	}
	closed := ln2.Addr().(*net.TCPAddr).Port
	ln2.Close()
	e.ports = [2]int{port, closed}
	e.tblP.Store(bfe_balance.NewBalTable(e.fetch))
	return e
}

func (e *c05Env) emptyReload() error {
	gl, err1 := loadGslb(gslbConf{}, "0")
	tl, err2 := loadTable(tableConf{}, "0")
	if err1 != nil || err2 != nil {
		return fmt.Errorf("empty conf rejected: %v %v", err1, err2)
	}
	var err error
	if p := ev.Try(func() { err = e.table().BalTableReload(gl, tl) }); p != nil {
		return fmt.Errorf("panic: %v", p)
	}
	return err
}

func (e *c05Env) pickBackend(cluster string, sub, idx int) *backend.BfeBackend {
	bal, err := e.table().Lookup(cluster)
	if err != nil {
		return nil
	}
	subs := bal.VerifBal2SubClusters()
	if len(subs) == 0 {
		return nil
	}
	bs := subs[sub%len(subs)].RR.VerifBal2Backends()
	if len(bs) == 0 {
		return nil
	}
	return bs[idx%len(bs)]
}

// tblStep executes one table-level op. sequential enables the membership check.
func (e *c05Env) tblStep(op *c05TblOp, sequential bool) *c05Failure {
	switch op.K {
	case "bal":
		var bal *bal_gslb.BalanceGslb
		var err error
		if p := ev.Try(func() { bal, err = e.table().Lookup(op.Cluster) }); p != nil {
			return &c05Failure{Key: "panic-table-lookup", Msg: fmt.Sprintf("Lookup panicked: %v", p)}
		}
		if err != nil {
			return nil
		}
		for i := 0; i < op.N; i++ {
			var ip net.IP
			if op.IP != nil {
				ip = net.IP(append([]byte(nil), op.IP...))
				ip[3] += byte(i)
			}
			req := newRequest(ip, op.URI, "X-Id", op.Hdr, op.Retry)
			if op.Hdr != "" {
				req.HttpRequest.Header.Set("Cookie", "UID="+op.Hdr)
			}
			var b *backend.BfeBackend
			if p := ev.Try(func() { b, err = bal.Balance(req) }); p != nil {
				return &c05Failure{Key: "panic-gslb-balance", Msg: fmt.Sprintf("BalanceGslb.Balance panicked: %v", p)}
			}
			if err == nil && b == nil {
				return &c05Failure{Key: "nil-backend-nil-error-gslb", Msg: "BalanceGslb.Balance returned neither a backend nor an error"}
			}
			if err == nil && sequential {
				member := false
				for _, s := range bal.VerifBal2SubClusters() {
					for _, m := range s.RR.VerifBal2Backends() {
						if m == b {
							member = true
						}
					}
				}
				if !member {
					return &c05Failure{Key: "selected-nonmember-gslb", Msg: fmt.Sprintf("Balance returned %s which is in no sub-cluster of %s", b.AddrInfo, op.Cluster)}
				}
				if !b.Avail() {
					return &c05Failure{Key: "selected-unavailable-gslb", Msg: fmt.Sprintf("Balance returned unavailable backend %s", b.AddrInfo)}
				}
			}
		}
	case "reload":
		if op.reject {
			return nil
		}
		if p := ev.Try(func() { e.table().BalTableReload(op.gl, op.tl) }); p != nil {
			return &c05Failure{Key: "panic-table-reload", Msg: fmt.Sprintf("BalTableReload panicked: %v", p)}
		}
		// gslbDataConfReload re-applies the server data conf after a reload
		ct := e.curCT.Load()
		if p := ev.Try(func() { e.table().SetGslbBasic(ct); e.table().SetSlowStart(ct) }); p != nil {
			return &c05Failure{Key: "panic-table-setbasic", Msg: fmt.Sprintf("SetGslbBasic/SetSlowStart panicked: %v", p)}
		}
	case "basic":
		if op.reject {
			return nil
		}
		// serverDataConfReload: publish the new conf, then push it into the table
		e.curCT.Store(op.ct)
		if p := ev.Try(func() { e.table().SetGslbBasic(op.ct); e.table().SetSlowStart(op.ct) }); p != nil {
			return &c05Failure{Key: "panic-table-setbasic", Msg: fmt.Sprintf("SetGslbBasic/SetSlowStart panicked: %v", p)}
		}
	case "state":
		if p := ev.Try(func() { e.table().GetState(); e.table().GetVersions() }); p != nil {
			return &c05Failure{Key: "panic-table-getstate", Msg: fmt.Sprintf("GetState panicked: %v", p)}
		}
	case "subnum":
		// monitor handler BalTableStatusGet: Lookup + SubClusterNum
		if bal, err := e.table().Lookup(op.Cluster); err == nil {
			bal.SubClusterNum()
		}
	case "avail", "conn", "fail", "succ", "restart":
		b := e.pickBackend(op.Cluster, op.Sub, op.Idx)
		if b == nil {
			return nil
		}
		var p any
		switch op.K {
		case "avail":
			b.SetAvail(op.On)
		case "conn":
			if op.On {
				b.IncConnNum()
			} else {
				b.DecConnNum()
			}
		case "fail":
			p = ev.Try(func() { b.OnFail(op.Cluster) })
		case "succ":
			p = ev.Try(func() { b.OnSuccess() })
		case "restart":
			b.SetRestart(true)
			b.SetAvail(true)
		}
		if p != nil {
			return &c05Failure{Key: "panic-backend-" + op.K, Msg: fmt.Sprintf("backend %s panicked: %v", op.K, p)}
		}
	}
	return nil
}

// c05Concurrent runs the goroutine programs; no progress over a full window = hang.
func c05Concurrent(progs [][]func() *c05Failure) (fail *c05Failure, hung bool) {
	var progress atomic.Int64
	var wg sync.WaitGroup
	start := make(chan struct{})
	var mu sync.Mutex
	var first *c05Failure
	for _, prog := range progs {
		wg.Add(1)
		go func(prog []func() *c05Failure) {
			defer wg.Done()
			<-start
			for _, f := range prog {
				mu.Lock()
				stop := first != nil
				mu.Unlock()
				if stop {
					return
				}
				if r := f(); r != nil {
					mu.Lock()
					if first == nil {
						first = r
					}
					mu.Unlock()
					return
				}
				progress.Add(1)
			}
		}(prog)
	}
	done := make(chan struct{})
	go func() { wg.Wait(); close(done) }()
	close(start)
	last := int64(-1)
	for {
		tm := time.NewTimer(c05Window())
		select {
		case <-done:
			tm.Stop()
			return first, false
		case <-tm.C:
			c := progress.Load()
			if c == last {
				c05HangSeen.Store(true)
				return nil, true
			}
			last = c
		}
	}
}

// ---------------------------------------------------------------------------
// known data races of the unchanged tree, probed in a child process (the race
// detector halts the process at the first report, so they cannot be tolerated
// in-process).

func TestC05RaceProbe(t *testing.T) {
	which := os.Getenv("VERIF_C05_PROBE")
	if which == "" {
		t.Skip("helper for TestC05")
	}
	mk := func(ws ...int) cluster_table_conf.SubClusterBackend {
		s := subConf{}
		for i, w := range ws {
			s = append(s, beConf{Name: fmt.Sprintf("b%d", i), Addr: fmt.Sprintf("127.0.0.%d", i+1), Port: 8000, Weight: w})
		}
		l, err := loadSub(s)
		if err != nil {
			t.Fatal(err)
		}
		return l
	}
	const iters = 3000
	var wg sync.WaitGroup
	switch which {
	case "gslb-subclusternum":
		ga, err1 := loadGslb(gslbConf{"c0": {"s0": 1, "s1": 1}}, "1")
		gb, err2 := loadGslb(gslbConf{"c0": {"s0": 1}}, "2")
		if err1 != nil || err2 != nil {
			t.Fatal(err1, err2)
		}
		bal := bal_gslb.NewBalanceGslb("c0")
		if err := bal.Init((*ga.Clusters)["c0"]); err != nil {
			t.Fatal(err)
		}
		wg.Add(2)
		go func() {
			defer wg.Done()
			for i := 0; i < iters; i++ {
				if i%2 == 0 {
					bal.Reload((*gb.Clusters)["c0"])
				} else {
					bal.Reload((*ga.Clusters)["c0"])
				}
			}
		}()
		go func() {
			defer wg.Done()
			for i := 0; i < iters; i++ {
				bal.SubClusterNum()
			}
		}()
	case "rr-sticky-len":
		a, b := mk(1, 2, 3), mk(2, 1)
		brr := bal_slb.NewBalanceRR("s0")
		brr.Init(a)
		wg.Add(2)
		go func() {
			defer wg.Done()
			for i := 0; i < iters; i++ {
				if i%2 == 0 {
					brr.Update(b)
				} else {
					brr.Update(a)
				}
			}
		}()
		go func() {
			defer wg.Done()
			for i := 0; i < iters; i++ {
				brr.Balance(bal_slb.WrrSticky, []byte{byte(i)})
			}
		}()
	default:
		t.Fatalf("unknown probe %q", which)
	}
	wg.Wait()
}

func c05RunRaceProbe(t *testing.T, rec *ev.Rec, which, key, symbol string) {
	cmd := exec.Command(os.Args[0], "-test.run", "^TestC05RaceProbe$", "-test.count", "1", "-test.timeout", "120s")
	env := []string{}
	for _, kv := range os.Environ() {
		if strings.HasPrefix(kv, "VERIF_EV_OUT=") || strings.HasPrefix(kv, "GORACE=") || strings.HasPrefix(kv, "VERIF_REPLAY_DIR=") {
			continue
		}
		env = append(env, kv)
	}
	env = append(env, "VERIF_C05_PROBE="+which, "GORACE=halt_on_error=1 exitcode=66")
	cmd.Env = env
	out, err := cmd.CombinedOutput()
	s := string(out)
	rec.Class("race-probe:" + which)
	if err == nil {
		rec.Class("race-probe-clean:" + which)
		return
	}
	if !strings.Contains(s, "DATA RACE") {
		t.Logf("race probe %s inconclusive: %v\n%s", which, err, tailStr(s, 2000))
		rec.Class("race-probe-inconclusive:" + which)
		return
	}
	k := key
	if !strings.Contains(s, symbol) {
		k = "race-probe-other-" + which
	}
	// keep the report out of our own output (the driver greps it); witness gets a digest
	w := map[string]any{"probe": which, "report_head": strings.ReplaceAll(tailStr(headStr(s, 3000), 3000), "DATA RACE", "DATA-RACE")}
	rec.Fail(t, k, w, "race detector report in probe %s (accesses involve %s)", which, symbol)
}

func headStr(s string, n int) string {
	if len(s) > n {
		return s[:n]
	}
	return s
}

func tailStr(s string, n int) string {
	if len(s) > n {
		return s[len(s)-n:]
	}
	return s
}

// ---------------------------------------------------------------------------

func TestC05(t *testing.T) {
	rec := ev.New("C05", "programs of Balance(all 5 algorithm constants + default)/burst/SetAvail/conn/restart/Update/SetSlowStart on a BalanceRR and of Balance/BalTableReload/SetGslbBasic+SetSlowStart/SetAvail/OnFail/OnSuccess/GetState/SubClusterNum on a BalTable, configurations through the real loaders (weights incl. 0 and negative, single backend, all-down, duplicates, sub-clusters missing in one file); run (a) sequentially under a watchdog and (b) split over 2..8 goroutines under the race detector with live health checkers. non-trivial: sequential = a Balance after >=1 mutating op; concurrent = >=2 goroutines, one with a mutating op and another with Balance. distinct by full program encoding")
	env := newC05Env(t)
	defer env.ln.Close()
	rec.Set("race_detector", raceEnabled)

	if raceEnabled {
		c05RunRaceProbe(t, rec, "gslb-subclusternum", c05KeyRaceSubNum, "SubClusterNum")
		c05RunRaceProbe(t, rec, "rr-sticky-len", c05KeyRaceSticky, "stickyBalance")
	}

	basic0, err := loadClusterTable(map[string]clusterBasic{
		"c0": {Mode: "WRR", Strategy: cluster_conf.ClientIpOnly, RetryMax: 2, CrossRetry: 1, Check: &checkBasic{Schem: "tcp", FailNum: 1, SuccNum: 1, CheckInterval: 1, CheckTimeout: 500}},
		"c1": {Mode: "WLC", Strategy: cluster_conf.ClientIpOnly, RetryMax: 1, CrossRetry: 0, Check: &checkBasic{Schem: "tcp", FailNum: 2, SuccNum: 1, CheckInterval: 1, CheckTimeout: 500}},
	})
	if err != nil {
		t.Fatalf("baseline cluster_conf rejected: %v", err)
	}
	env.basic0 = basic0
	poisoned := false

	rapid.Check(t, func(rt *rapid.T) {
		if poisoned {
			// a previous case left a stuck goroutine inside the process-wide table
			env.tblP.Store(bfe_balance.NewBalTable(env.fetch))
			poisoned = false
		}
		mode := rapid.IntRange(0, 99).Draw(rt, "mode")
		switch {
		case mode < 45:
			c05CaseRRSeq(rt, rec, env)
		case mode < 70:
			c05CaseTblSeq(rt, rec, env, &poisoned)
		case mode < 80:
			c05CaseRRConc(rt, rec, env)
		case mode < 90:
			c05CaseTblConc(rt, rec, env, &poisoned)
		default:
			c05CaseStorm(rt, rec, env, &poisoned)
		}
	})

	// re-confirm the open hang finding once, last (see step)
	if sh := c05KnownHangStash; sh != nil && rec.Known(c05KeyHangNeg) {
		st := &c05RRState{rec: rec, brr: bal_slb.NewBalanceRR("s0"), sawNeg: c05HasNeg(sh.init), probing: true}
		st.brr.Init(sh.initLoaded)
		fail, hungAt := c05Watched(len(sh.ops), c05KnownWindow, func(i int) *c05Failure { return st.step(&sh.ops[i]) })
		w := map[string]any{"mode": "rr-seq", "init": sh.init, "ops": sh.ops}
		switch {
		case hungAt >= 0:
			rec.Class("hang-observed")
			rec.Fail(t, c05KeyHangNeg, w, "Balance(WrrSimple) (op %d) did not return within %v", hungAt, c05KnownWindow)
		case fail != nil:
			rec.Fail(t, fail.Key, w, "%s", fail.Msg)
		default:
			rec.Class("known-hang-probe-returned")
		}
	}
}

func c05Report(rt *rapid.T, rec *ev.Rec, f *c05Failure, witness any) bool {
	if f == nil {
		return true
	}
	if !rec.Fail(rt, f.Key, witness, "%s", f.Msg) {
		rec.Excluded("behind-known-finding:" + f.Key)
	}
	return false
}

func c05CaseRRSeq(rt *rapid.T, rec *ev.Rec, env *c05Env) {
	init := c05GenSub(rt, "init", env.ports, rapid.IntRange(0, 9).Draw(rt, "init-keepbad") < 9)
	loaded, err := loadSub(init)
	nops := rapid.IntRange(1, 30).Draw(rt, "nops")
	ops := c05GenRROps(rt, "rr", nops, env.ports, rec)
	w := map[string]any{"mode": "rr-seq", "init": init, "ops": ops}
	fpb, _ := json.Marshal(w)
	if err != nil {
		// the loader rejects lists without a positive weight (incl. the empty list)
		rec.Case(string(fpb), false, "mode:rr-seq", "loader-rejected-initial")
		rec.Excluded("loader-rejected-initial")
		return
	}
	nt, mut := false, false
	classes := append([]string{"mode:rr-seq"}, c05SubShapeClasses(init)...)
	for _, op := range ops {
		switch op.K {
		case "bal", "burst":
			classes = append(classes, "algor:"+c05AlgorName(op.Algor))
			nt = nt || mut
		default:
			mut = true
			classes = append(classes, "op:"+op.K)
		}
	}
	rec.Case(string(fpb), nt, classes...)
	rec.Sample(w)

	st := &c05RRState{rec: rec, brr: bal_slb.NewBalanceRR("s0"), sawNeg: c05HasNeg(init), init: init, initLoaded: loaded, prog: ops}
	st.brr.Init(loaded)
	fail, hungAt := c05Watched(len(ops), c05Window(), func(i int) *c05Failure { st.pos = i; return st.step(&ops[i]) })
	if hungAt >= 0 {
		st.mu.Lock()
		algor, sh := st.curAlgor, st.curShape
		st.mu.Unlock()
		fail = &c05Failure{Key: c05HangKey(algor, sh, st.sawNeg), Hang: true,
			Msg: fmt.Sprintf("op %d (%s %s) made no progress for %v: avail=%v (weight,current)=%v", hungAt, ops[hungAt].K, c05AlgorName(algor), c05HangWindow, sh.Avail, sh.W)}
	}
	if fail != nil && fail.Hang {
		rec.Class("hang-observed")
		c05Report(rt, rec, fail, w)
		return // the balancer is stuck holding its mutex: never touched again
	}
	if !c05Report(rt, rec, fail, w) {
		return
	}
	// reload-removes-everything: Release once, must not panic
	if p := ev.Try(func() { st.brr.Release() }); p != nil {
		c05Report(rt, rec, &c05Failure{Key: "panic-rr-release", Msg: fmt.Sprintf("Release panicked: %v", p)}, w)
	}
}

// c05InitTable draws an initial pair accepted by the loaders and returns the
// steps that apply it (reload from the empty table + server-data-conf push) and
// that empty the table again; both run under the watchdog like every other op.
func c05InitTable(rt *rapid.T, rec *ev.Rec, env *c05Env, label string) (g gslbConf, t tableConf, initStep, finalStep func() *c05Failure, ok bool) {
	for try := 0; try < 4; try++ {
		g, t = c05GenPair(rt, fmt.Sprintf("%s%d", label, try), env.ports)
		gl, err1 := loadGslb(g, "0")
		tl, err2 := loadTable(t, "0")
		if err1 != nil || err2 != nil {
			rec.Class("loader-rejected-initial")
			continue
		}
		initStep = func() *c05Failure {
			if p := ev.Try(func() {
				env.table().BalTableReload(gl, tl)
				env.curCT.Store(env.basic0)
				env.table().SetGslbBasic(env.basic0)
				env.table().SetSlowStart(env.basic0)
			}); p != nil {
				return &c05Failure{Key: "panic-table-reload", Msg: fmt.Sprintf("initial reload panicked: %v", p)}
			}
			return nil
		}
		finalStep = func() *c05Failure {
			if err := env.emptyReload(); err != nil && strings.HasPrefix(err.Error(), "panic") {
				return &c05Failure{Key: "panic-table-reload", Msg: "final reload to the empty configuration: " + err.Error()}
			}
			return nil
		}
		return g, t, initStep, finalStep, true
	}
	return nil, nil, nil, nil, false
}

func c05CaseTblSeq(rt *rapid.T, rec *ev.Rec, env *c05Env, poisoned *bool) {
	env.hcOn.Store(false)
	g, tc, initStep, finalStep, ok := c05InitTable(rt, rec, env, "init")
	if !ok {
		rec.Excluded("loader-rejected-initial")
		return
	}
	nops := rapid.IntRange(1, 25).Draw(rt, "nops")
	ops := c05GenTblOps(rt, "tbl", nops, env.ports, false, false, rec)
	w := map[string]any{"mode": "table-seq", "gslb": g, "table": tc, "ops": ops}
	fpb, _ := json.Marshal(w)
	nt, mut := false, false
	classes := []string{"mode:table-seq"}
	for _, op := range ops {
		if op.K == "bal" {
			nt = nt || mut
		} else if op.K != "state" && op.K != "subnum" {
			mut = true
		}
		classes = append(classes, "top:"+op.K)
	}
	rec.Case(string(fpb), nt, classes...)
	rec.Sample(w)
	name := func(i int) string {
		switch {
		case i == 0:
			return "initial-reload"
		case i == len(ops)+1:
			return "final-empty-reload"
		}
		return ops[i-1].K
	}
	fail, hungAt := c05Watched(len(ops)+2, c05Window(), func(i int) *c05Failure {
		switch {
		case i == 0:
			return initStep()
		case i == len(ops)+1:
			return finalStep()
		}
		return env.tblStep(&ops[i-1], true)
	})
	if hungAt >= 0 {
		*poisoned = true
		c05Report(rt, rec, &c05Failure{Key: "hang-table-" + name(hungAt), Hang: true, Msg: fmt.Sprintf("table step %d (%s) made no progress for %v (deadlock or livelock)", hungAt, name(hungAt), c05HangWindow)}, w)
		return
	}
	if !c05Report(rt, rec, fail, w) {
		*poisoned = true
	}
}

func c05CaseRRConc(rt *rapid.T, rec *ev.Rec, env *c05Env) {
	init := c05GenSub(rt, "init", env.ports, true)
	loaded, err := loadSub(init)
	if err != nil {
		rec.Excluded("loader-rejected-initial")
		return
	}
	ng := rapid.IntRange(2, 8).Draw(rt, "goroutines")
	progs := make([][]c05RROp, ng)
	for gi := range progs {
		progs[gi] = c05GenRROps(rt, fmt.Sprintf("g%d", gi), rapid.IntRange(5, ev.N(60, 200)).Draw(rt, fmt.Sprintf("g%d-nops", gi)), env.ports, rec)
	}
	// behind the open findings: no WrrSimple on hang shapes is decidable under
	// concurrency, so negative weights are removed from concurrent RR programs
	// while the hang is open; WrrSticky is not mixed with Update while the
	// unlocked Len() race is open.
	stripNeg := rec.Known(c05KeyHangNeg)
	hasUpdate := false
	for _, p := range progs {
		for _, op := range p {
			hasUpdate = hasUpdate || op.K == "update"
		}
	}
	fix := func(s subConf) subConf {
		if !stripNeg {
			return s
		}
		o := s.clone()
		for i := range o {
			if o[i].Weight < 0 {
				o[i].Weight = 0
			}
		}
		return o
	}
	if stripNeg {
		init = fix(init)
		if loaded, err = loadSub(init); err != nil {
			rec.Excluded("loader-rejected-initial")
			return
		}
		rec.Excluded("known-finding:" + c05KeyHangNeg + ":negative-weights-zeroed-in-rr-concurrent")
	}
	for gi := range progs {
		for oi := range progs[gi] {
			op := &progs[gi][oi]
			if op.K == "update" && !op.reject && stripNeg {
				op.Conf = fix(op.Conf)
				if l, err := loadSub(op.Conf); err == nil {
					op.loaded = l
				} else {
					op.reject = true
				}
			}
			if (op.K == "bal" || op.K == "burst") && op.Algor == bal_slb.WrrSticky && hasUpdate && rec.Known(c05KeyRaceSticky) {
				op.Algor = bal_slb.WrrSmooth
				rec.Excluded("known-finding:" + c05KeyRaceSticky)
			}
			if op.K == "burst" && op.N > 100 {
				op.N = 100
			}
		}
	}
	w := map[string]any{"mode": "rr-concurrent", "init": init, "goroutines": progs}
	fpb, _ := json.Marshal(w)
	balG, mutG := map[int]bool{}, map[int]bool{}
	classes := []string{"mode:rr-concurrent", fmt.Sprintf("goroutines:%d", ng)}
	for gi, p := range progs {
		for _, op := range p {
			if op.K == "bal" || op.K == "burst" {
				balG[gi] = true
			} else {
				mutG[gi] = true
			}
		}
	}
	nt := false
	for a := range balG {
		for b := range mutG {
			nt = nt || a != b
		}
	}
	rec.Case(string(fpb), nt, classes...)
	rec.Sample(map[string]any{"mode": "rr-concurrent", "init": init, "goroutines": ng})

	brr := bal_slb.NewBalanceRR("s0")
	brr.Init(loaded)
	st := &c05RRState{rec: rec, brr: brr}
	var fns [][]func() *c05Failure
	for gi := range progs {
		var l []func() *c05Failure
		for oi := range progs[gi] {
			op := &progs[gi][oi]
			l = append(l, func() *c05Failure { return st.concStep(op) })
		}
		fns = append(fns, l)
	}
	fail, hung := c05Concurrent(fns)
	if hung {
		c05Report(rt, rec, &c05Failure{Key: "hang-rr-concurrent", Hang: true, Msg: fmt.Sprintf("no goroutine made progress for %v", c05HangWindow)}, w)
		return
	}
	if !c05Report(rt, rec, fail, w) {
		return
	}
	if p := ev.Try(func() { brr.Release() }); p != nil {
		c05Report(rt, rec, &c05Failure{Key: "panic-rr-release", Msg: fmt.Sprintf("Release panicked: %v", p)}, w)
	}
}

// concStep: like step, without the sequential-only checks and probes.
func (st *c05RRState) concStep(op *c05RROp) *c05Failure {
	brr := st.brr
	switch op.K {
	case "bal", "burst":
		n := 1
		if op.K == "burst" {
			n = op.N
		}
		for i := 0; i < n; i++ {
			if len(brr.VerifBal2Backends()) == 0 {
				continue
			}
			if f := st.balanceOnce(op.Algor, op.Key, false); f != nil {
				return f
			}
		}
		return nil
	case "ss":
		if p := ev.Try(func() { brr.SetSlowStart(op.SS) }); p != nil {
			return &c05Failure{Key: "panic-rr-setslowstart", Msg: fmt.Sprintf("SetSlowStart panicked: %v", p)}
		}
		return nil
	case "update":
		if op.reject {
			return nil
		}
		if p := ev.Try(func() { brr.Update(op.loaded) }); p != nil {
			return &c05Failure{Key: "panic-rr-update", Msg: fmt.Sprintf("BalanceRR.Update panicked: %v", p)}
		}
		return nil
	}
	return st.step(op) // avail / conn / restart: no harness state touched
}

func c05CaseTblConc(rt *rapid.T, rec *ev.Rec, env *c05Env, poisoned *bool) {
	hc := rapid.IntRange(0, 3).Draw(rt, "healthcheck") > 0
	env.hcOn.Store(hc)
	g, tc, initStep, finalStep, ok := c05InitTable(rt, rec, env, "init")
	if !ok {
		rec.Excluded("loader-rejected-initial")
		return
	}
	ng := rapid.IntRange(2, 8).Draw(rt, "goroutines")
	progs := make([][]c05TblOp, ng)
	for gi := range progs {
		progs[gi] = c05GenTblOps(rt, fmt.Sprintf("g%d", gi), rapid.IntRange(5, ev.N(40, 150)).Draw(rt, fmt.Sprintf("g%d-nops", gi)), env.ports, hc, true, rec)
	}
	w := map[string]any{"mode": "table-concurrent", "healthcheck": hc, "gslb": g, "table": tc, "goroutines": progs}
	fpb, _ := json.Marshal(w)
	balG, mutG := map[int]bool{}, map[int]bool{}
	for gi, p := range progs {
		for _, op := range p {
			if op.K == "bal" {
				balG[gi] = true
			} else if op.K != "state" && op.K != "subnum" {
				mutG[gi] = true
			}
		}
	}
	nt := false
	for a := range balG {
		for b := range mutG {
			nt = nt || a != b
		}
	}
	classes := []string{"mode:table-concurrent", fmt.Sprintf("goroutines:%d", ng)}
	if hc {
		classes = append(classes, "live-health-checkers")
	}
	rec.Case(string(fpb), nt, classes...)
	rec.Sample(map[string]any{"mode": "table-concurrent", "healthcheck": hc, "gslb": g, "table": tc, "goroutines": ng})

	var fns [][]func() *c05Failure
	for gi := range progs {
		var l []func() *c05Failure
		for oi := range progs[gi] {
			op := &progs[gi][oi]
			l = append(l, func() *c05Failure { return env.tblStep(op, false) })
		}
		fns = append(fns, l)
	}
	if f, h := c05Watched(1, c05Window(), func(int) *c05Failure { return initStep() }); h >= 0 || f != nil {
		*poisoned = true
		if h >= 0 {
			f = &c05Failure{Key: "hang-table-initial-reload", Hang: true, Msg: "initial reload made no progress (deadlock or livelock)"}
		}
		c05Report(rt, rec, f, w)
		return
	}
	fail, hung := c05Concurrent(fns)
	if hung {
		*poisoned = true
		c05Report(rt, rec, &c05Failure{Key: "hang-table-concurrent", Hang: true, Msg: fmt.Sprintf("no goroutine made progress for %v (deadlock or livelock)", c05HangWindow)}, w)
		return
	}
	if !c05Report(rt, rec, fail, w) {
		*poisoned = true
		return
	}
	if f, h := c05Watched(1, c05Window(), func(int) *c05Failure { return finalStep() }); h >= 0 || f != nil {
		*poisoned = true
		if h >= 0 {
			f = &c05Failure{Key: "hang-table-final-empty-reload", Hang: true, Msg: "final reload to the empty configuration made no progress (deadlock or livelock)"}
		}
		c05Report(rt, rec, f, w)
		return
	}
	env.hcOn.Store(false)
	if hc && !waitCheckers(0, 15*time.Second) {
		// released backends' checkers did not stop in time: C06's subject, here only bookkeeping
		rec.Class("checker-leak-inconclusive")
	}
}

//go:build race

package bal2

const raceEnabled = true

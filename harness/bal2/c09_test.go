package bal2

import (
	"encoding/json"
	"fmt"
	"net"
	"sort"
	"strings"
	"testing"

	"github.com/bfenetworks/bfe/bfe_balance"
	"github.com/bfenetworks/bfe/bfe_balance/backend"
	"pgregory.net/rapid"

	"verif/harness/internal/ev"
)

// C09: after any sequence of cluster/backend reloads, backends whose name and
// address persist keep their availability and counters; removed backends,
// sub-clusters and clusters are released exactly once and never selected
// again; newly added ones become selectable.
//
// The machine drives one BalTable: Init from files, then reloads whose files
// are mutations of the previous pair (both files go through BalTableConfLoad,
// as GslbDataConfReload does), availability/counter changes on live backends,
// and Balance draws through Lookup + BalanceGslb.Balance.
//
// Oracle (harness model, computed from the configuration files only):
//   effective(c,s) = backends of cluster_table[c][s] if s is in gslb[c], else nothing.
//   after a reload, with L/L' the backend handles listed before/after:
//   I1 an old handle is either still listed under the same cluster/sub-cluster
//      (then not released and availability, conn and fail counters unchanged) or
//      not listed (then released: CloseChan() closed; a second release panics);
//   I2 a key (cluster,sub,addr:port) whose name and address persist keeps a handle
//      carrying the recorded state of one of its old handles;
//   I3 a key absent from the new effective configuration has no listed handle;
//   I4 a key that had no handle gets a fresh, available, unreleased one;
//   I5 no listed handle is released;
//   I6 Balance only returns listed, unreleased handles of that cluster, and every
//      eligible added key is returned within a bounded number of draws.

type c09Key struct{ Cluster, Sub, Addr string }

func (k c09Key) String() string { return k.Cluster + "/" + k.Sub + "/" + k.Addr }

type c09Snap struct {
	avail      bool
	conn, fail int
	name       string
}

func c09Closed(b *backend.BfeBackend) bool {
	select {
	case <-b.CloseChan():
		return true
	default:
		return false
	}
}

type c09Machine struct {
	tbl     *bfe_balance.BalTable
	g       gslbConf
	t       tableConf
	removed map[*backend.BfeBackend]c09Key // every handle that was ever dropped by a reload
	ver     int
	classes map[string]bool
	nt      bool
	hadRemoval, hadUnavailSurvivor, hadPartial bool
}

func (m *c09Machine) class(c string) { m.classes[c] = true }

// listing returns the handles currently held by the table, by key, in list order.
func (m *c09Machine) listing() (map[c09Key][]*backend.BfeBackend, map[string]map[*backend.BfeBackend]bool) {
	out := map[c09Key][]*backend.BfeBackend{}
	byCluster := map[string]map[*backend.BfeBackend]bool{}
	for _, c := range []string{"c0", "c1", "c2"} {
		bal, err := m.tbl.Lookup(c)
		if err != nil {
			continue
		}
		byCluster[c] = map[*backend.BfeBackend]bool{}
		for _, s := range bal.VerifBal2SubClusters() {
			for _, b := range s.RR.VerifBal2Backends() {
				k := c09Key{c, s.Name, b.AddrInfo}
				out[k] = append(out[k], b)
				byCluster[c][b] = true
			}
		}
	}
	return out, byCluster
}

// effective computes, from the two configuration descriptions only, the keys
// that must exist, with the configured entries (duplicates kept).
func c09Effective(g gslbConf, t tableConf) map[c09Key][]beConf {
	out := map[c09Key][]beConf{}
	for c, subs := range g {
		for s := range subs {
			for _, b := range t[c][s] {
				k := c09Key{c, s, b.addrInfo()}
				out[k] = append(out[k], b)
			}
		}
	}
	return out
}

type c09Fail struct{ key, msg string }

func c09F(key, f string, a ...any) *c09Fail { return &c09Fail{key, fmt.Sprintf(f, a...)} }

// drawCheck performs Balance draws on every cluster: I6.
func (m *c09Machine) drawCheck(mustSee map[c09Key]bool) *c09Fail {
	_, byCluster := m.listing()
	for _, c := range sortedKeys(m.g) {
		bal, err := m.tbl.Lookup(c)
		if err != nil {
			return c09F("cluster-not-found", "cluster %s of the loaded gslb conf is not in the table: %v", c, err)
		}
		want := map[c09Key]bool{}
		for k := range mustSee {
			if k.Cluster == c {
				want[k] = true
			}
		}
		draws := 64
		if len(want) > 0 {
			draws = 4000
		}
		for i := 0; i < draws; i++ {
			ip := net.IPv4(10, byte(i>>16), byte(i>>8), byte(i))
			req := newRequest(ip, "/", "", "", 0)
			var b *backend.BfeBackend
			var berr error
			if p := ev.Try(func() { b, berr = bal.Balance(req) }); p != nil {
				return c09F("panic-balance", "Balance on %s panicked: %v", c, p)
			}
			if berr != nil || b == nil {
				continue
			}
			if k, was := m.removed[b]; was {
				return c09F("removed-backend-selected", "Balance on %s returned %s (%s), a handle dropped by an earlier reload", c, b.AddrInfo, k)
			}
			if !byCluster[c][b] {
				return c09F("unlisted-backend-selected", "Balance on %s returned %s/%s which is not in the cluster's lists", c, req.Backend.SubclusterName, b.AddrInfo)
			}
			if c09Closed(b) {
				return c09F("released-backend-selected", "Balance on %s returned released backend %s", c, b.AddrInfo)
			}
			delete(want, c09Key{c, b.SubCluster, b.AddrInfo})
			if len(want) == 0 && i >= 63 {
				break
			}
		}
		if len(want) > 0 {
			var ks []string
			for k := range want {
				ks = append(ks, k.String())
			}
			sort.Strings(ks)
			return c09F("added-not-selectable", "added eligible backends never returned by %d draws on %s: %v", draws, c, ks)
		}
	}
	return nil
}

// reload applies (g2,t2) through the real loaders and checks I1..I6.
func (m *c09Machine) reload(g2 gslbConf, t2 tableConf, mutations []string) *c09Fail {
	m.ver++
	gf, tf := writeGslbFile(g2, fmt.Sprint(m.ver)), writeTableFile(t2, fmt.Sprint(m.ver))
	before, _ := m.listing()
	snaps := map[*backend.BfeBackend]c09Snap{}
	for _, l := range before {
		for _, b := range l {
			snaps[b] = c09Snap{b.Avail(), b.ConnNum(), b.FailNum(), b.Name}
		}
	}
	gl, tl, err := m.tbl.BalTableConfLoad(gf, tf)
	if err != nil {
		// rejected by the loaders: gslbDataConfReload returns before touching the table
		m.class("reload-rejected-by-loader")
		after, _ := m.listing()
		if !c09SameListing(before, after) {
			return c09F("rejected-reload-changed-table", "loader error %v but the table changed", err)
		}
		return nil
	}
	var rerr error
	if p := ev.Try(func() { rerr = m.tbl.BalTableReload(gl, tl) }); p != nil {
		key := "panic-reload"
		if strings.Contains(fmt.Sprint(p), "close of closed channel") {
			key = "double-release"
		}
		return c09F(key, "BalTableReload panicked: %v (mutations %v)", p, mutations)
	}
	// partial failure: a cluster of gslb.data without an entry in cluster_table.data
	// (the two files are shipped independently). BalTableReload applies the rest and
	// returns an error naming it; nothing is claimed about that cluster's own lists
	// (I2..I4 skip it), everything else - in particular the release of clusters
	// dropped by the same reload - is checked as usual.
	failed := map[string]bool{}
	for c := range g2 {
		if _, ok := t2[c]; !ok {
			failed[c] = true
		}
	}
	if rerr != nil && len(failed) == 0 {
		return c09F("reload-error-on-consistent-conf", "BalTableReload returned %v for a loader-accepted pair in which every gslb cluster has a cluster_table entry", rerr)
	}
	if len(failed) > 0 {
		m.class("reload-partial-failure")
		m.hadPartial = true
		if rerr == nil {
			m.class("partial-failure-not-reported")
		}
	}
	oldEff := c09Effective(m.g, m.t)
	newEff := c09Effective(g2, t2)
	after, _ := m.listing()
	listedAt := map[*backend.BfeBackend]c09Key{}
	for k, l := range after {
		for _, b := range l {
			listedAt[b] = k
		}
	}
	m.class("reload-applied")
	// I5
	for k, l := range after {
		for _, b := range l {
			if c09Closed(b) {
				return c09F("released-but-still-listed", "after reload %s holds a handle whose CloseChan is closed (mutations %v)", k, mutations)
			}
		}
	}
	// I1
	for k, l := range before {
		for _, b := range l {
			if nk, ok := listedAt[b]; ok {
				if nk != k {
					return c09F("handle-moved", "handle of %s now listed under %s", k, nk)
				}
				s := snaps[b]
				if b.Avail() != s.avail || b.ConnNum() != s.conn || b.FailNum() != s.fail {
					return c09F("survivor-state-changed", "%s: (avail,conn,fail) was (%v,%d,%d), after reload (%v,%d,%d) (mutations %v)", k, s.avail, s.conn, s.fail, b.Avail(), b.ConnNum(), b.FailNum(), mutations)
				}
			} else {
				m.removed[b] = k
				m.hadRemoval = true
				if !c09Closed(b) {
					return c09F("removed-not-released", "%s was dropped by the reload but its CloseChan is still open (health check would go on) (mutations %v)", k, mutations)
				}
			}
		}
	}
	// I3
	for k, l := range after {
		if failed[k.Cluster] {
			continue
		}
		if _, ok := newEff[k]; !ok && len(l) > 0 {
			if _, inG := g2[k.Cluster][k.Sub]; inG && t2[k.Cluster][k.Sub] == nil {
				return c09F("subcluster-absent-from-cluster-table-keeps-backends", "%s is still listed (and selectable) although sub-cluster %s is no longer in cluster_table for %s (mutations %v)", k, k.Sub, k.Cluster, mutations)
			}
			return c09F("removed-still-listed", "%s is not in the new configuration but is still listed (mutations %v)", k, mutations)
		}
	}
	// I2 / I4
	mustSee := map[c09Key]bool{}
	for k, confs := range newEff {
		l := after[k]
		if len(l) == 0 {
			return c09F("configured-backend-missing", "%s is configured but has no handle after the reload (mutations %v)", k, mutations)
		}
		olds := before[k]
		if len(olds) == 0 {
			// I4
			m.class("backend-added")
			for _, b := range l {
				if _, was := snaps[b]; was {
					return c09F("added-reuses-old-handle", "%s is new but reuses a handle of another key", k)
				}
				if !b.Avail() || b.ConnNum() != 0 || b.FailNum() != 0 {
					return c09F("added-not-fresh", "%s is new but starts with (avail,conn,fail)=(%v,%d,%d)", k, b.Avail(), b.ConnNum(), b.FailNum())
				}
			}
			elig := g2[k.Cluster][k.Sub] > 0
			for _, c := range confs {
				elig = elig && c.Weight > 0
			}
			if elig {
				mustSee[k] = true
			}
			continue
		}
		// key existed: does a (name, addr) pair persist?
		oldNames := map[string]bool{}
		for _, c := range oldEff[k] {
			oldNames[c.Name] = true
		}
		persists := false
		for _, c := range confs {
			persists = persists || oldNames[c.Name]
		}
		if !persists {
			m.class("rename-same-addr") // neither "persisting" nor clearly "removed+added": both outcomes accepted
			continue
		}
		m.class("backend-persists")
		m.class("persists-" + c09AddrClass(confs[0].Addr))
		ok := false
		for _, b := range l {
			for _, o := range olds {
				s := snaps[o]
				if b.Avail() == s.avail && b.ConnNum() == s.conn && b.FailNum() == s.fail {
					ok = true
				}
				if !s.avail || s.conn != 0 || s.fail != 0 {
					m.hadUnavailSurvivor = true
				}
			}
		}
		if !ok {
			s := snaps[olds[0]]
			return c09F("survivor-state-lost", "%s persists (same name and address) but its state (avail,conn,fail)=(%v,%d,%d) became (%v,%d,%d) (mutations %v)", k, s.avail, s.conn, s.fail, l[0].Avail(), l[0].ConnNum(), l[0].FailNum(), mutations)
		}
	}
	m.g, m.t = g2, t2
	return m.drawCheck(mustSee)
}

func c09SameListing(a, b map[c09Key][]*backend.BfeBackend) bool {
	if len(a) != len(b) {
		return false
	}
	for k, l := range a {
		l2 := b[k]
		if len(l) != len(l2) {
			return false
		}
		for i := range l {
			if l[i] != l2[i] {
				return false
			}
		}
	}
	return true
}

// ---- generation

// address forms the loader accepts: IPv4, IPv6 literals (bare and bracketed), host names
var c09Addrs = []string{"10.0.0.1", "2001:db8::1", "10.0.0.2", "[2001:db8::2]", "10.0.0.3", "be-3.example.org", "10.0.0.4", "10.0.0.5", "::1", "10.0.0.6"}

func c09AddrClass(addr string) string {
	switch {
	case strings.HasPrefix(addr, "["):
		return "addr:ipv6-bracketed"
	case strings.Contains(addr, ":"):
		return "addr:ipv6-bare"
	case strings.HasPrefix(addr, "be-"):
		return "addr:hostname"
	}
	return "addr:ipv4"
}

func c09GenBackend(rt *rapid.T, label string) beConf {
	w := rapid.IntRange(1, 3).Draw(rt, label+"-w")
	switch k := rapid.IntRange(0, 99).Draw(rt, label+"-wk"); {
	case k < 10:
		w = 0
	case k < 14:
		w = -1
	}
	return beConf{
		Name:   fmt.Sprintf("n%d", rapid.IntRange(0, 9).Draw(rt, label+"-name")),
		Addr:   c09Addrs[rapid.IntRange(0, len(c09Addrs)-1).Draw(rt, label+"-addr")],
		Port:   80 + rapid.IntRange(0, 1).Draw(rt, label+"-port"),
		Weight: w,
	}
}

func c09GenSub(rt *rapid.T, label string) subConf {
	n := rapid.IntRange(1, 4).Draw(rt, label+"-n")
	s := subConf{}
	pos := false
	for i := 0; i < n; i++ {
		b := c09GenBackend(rt, fmt.Sprintf("%s-b%d", label, i))
		pos = pos || b.Weight > 0
		s = append(s, b)
	}
	if !pos && rapid.IntRange(0, 15).Draw(rt, label+"-keepbad") < 15 {
		s[0].Weight = 1
	}
	return s
}

func c09GenGslbWeight(rt *rapid.T, label string) int {
	switch k := rapid.IntRange(0, 99).Draw(rt, label+"-k"); {
	case k < 12:
		return 0
	case k < 16:
		return -1
	}
	return rapid.IntRange(1, 3).Draw(rt, label)
}

func c09GenInitial(rt *rapid.T) (gslbConf, tableConf) {
	g, t := gslbConf{}, tableConf{}
	nc := rapid.IntRange(1, 3).Draw(rt, "init-nc")
	for ci := 0; ci < nc; ci++ {
		c := fmt.Sprintf("c%d", ci)
		g[c], t[c] = map[string]int{}, map[string]subConf{}
		ns := rapid.IntRange(1, 3).Draw(rt, "init-ns")
		for si := 0; si < ns; si++ {
			s := fmt.Sprintf("s%d", si)
			g[c][s] = c09GenGslbWeight(rt, "init-gw")
			t[c][s] = c09GenSub(rt, "init-"+c+s)
		}
		tot := 0
		for _, w := range g[c] {
			if w > 0 {
				tot += w
			}
		}
		if tot == 0 && rapid.IntRange(0, 15).Draw(rt, "init-gkeepbad") < 15 {
			g[c]["s0"] = 1
		}
	}
	return g, t
}

// c09Mutate returns a mutated copy of (g,t) and the names of the mutations.
func c09Mutate(rt *rapid.T, label string, g gslbConf, t tableConf) (gslbConf, tableConf, []string) {
	g2, t2 := g.clone(), t.clone()
	var names []string
	nm := rapid.IntRange(1, 3).Draw(rt, label+"-nmut")
	pickCluster := func(l string) string {
		ks := sortedKeys(g2)
		if len(ks) == 0 {
			return ""
		}
		return ks[rapid.IntRange(0, len(ks)-1).Draw(rt, l+"-cluster")]
	}
	pickSub := func(l, c string) string {
		ks := sortedKeys(t2[c])
		if len(ks) == 0 {
			return ""
		}
		return ks[rapid.IntRange(0, len(ks)-1).Draw(rt, l+"-sub")]
	}
	for i := 0; i < nm; i++ {
		l := fmt.Sprintf("%s-m%d", label, i)
		kind := rapid.SampledFrom([]string{
			"add-backend", "add-backend", "remove-backend", "remove-backend", "change-weight", "change-weight",
			"rename-backend", "move-backend-addr", "duplicate-backend", "add-subcluster", "remove-subcluster",
			"change-gslb-weight", "remove-cluster-while-another-fails", "add-cluster", "remove-cluster",
			"drop-cluster-from-table-only", "add-cluster-to-gslb-only", "restore-clusters-in-table", "drop-sub-from-gslb-only",
			"add-sub-to-gslb-only", "drop-sub-from-table-only", "shuffle", "noop",
		}).Draw(rt, l+"-kind")
		c := pickCluster(l)
		if c == "" && kind != "add-cluster" {
			kind = "add-cluster"
		}
		s := ""
		if c != "" {
			s = pickSub(l, c)
		}
		needSub := map[string]bool{"add-backend": true, "remove-backend": true, "change-weight": true, "rename-backend": true,
			"move-backend-addr": true, "duplicate-backend": true, "shuffle": true, "drop-sub-from-table-only": true, "drop-sub-from-gslb-only": true, "remove-subcluster": true}
		if needSub[kind] && s == "" {
			kind = "add-subcluster"
		}
		needIdx := map[string]bool{"remove-backend": true, "change-weight": true, "rename-backend": true, "move-backend-addr": true, "duplicate-backend": true}
		if needIdx[kind] && len(t2[c][s]) == 0 {
			kind = "add-backend"
		}
		if c != "" && t2[c] == nil && (kind == "add-subcluster" || kind == "add-sub-to-gslb-only") {
			kind = "restore-clusters-in-table" // the cluster has no cluster_table entry at the moment
		}
		idx := func() int {
			return rapid.IntRange(0, len(t2[c][s])-1).Draw(rt, l+"-idx")
		}
		switch kind {
		case "add-backend":
			t2[c][s] = append(t2[c][s], c09GenBackend(rt, l+"-new"))
		case "remove-backend":
			j := idx()
			t2[c][s] = append(t2[c][s][:j:j], t2[c][s][j+1:]...)
		case "change-weight":
			j := idx()
			t2[c][s][j].Weight = c09GenBackend(rt, l+"-w").Weight
		case "rename-backend":
			j := idx()
			t2[c][s][j].Name = fmt.Sprintf("r%d", rapid.IntRange(0, 9).Draw(rt, l+"-newname"))
		case "move-backend-addr":
			j := idx()
			nb := c09GenBackend(rt, l+"-addr")
			t2[c][s][j].Addr, t2[c][s][j].Port = nb.Addr, nb.Port
		case "duplicate-backend":
			j := idx()
			d := t2[c][s][j]
			if rapid.Bool().Draw(rt, l+"-dupw") {
				d.Weight = rapid.IntRange(1, 3).Draw(rt, l+"-dupweight")
			}
			t2[c][s] = append(t2[c][s], d)
		case "shuffle":
			l0 := t2[c][s]
			if len(l0) > 1 {
				j := rapid.IntRange(1, len(l0)-1).Draw(rt, l+"-rot")
				t2[c][s] = append(l0[j:len(l0):len(l0)], l0[:j]...)
			}
		case "add-subcluster":
			ns := fmt.Sprintf("s%d", rapid.IntRange(0, 3).Draw(rt, l+"-newsub"))
			if g2[c] == nil {
				g2[c], t2[c] = map[string]int{}, map[string]subConf{}
			}
			g2[c][ns] = c09GenGslbWeight(rt, l+"-gw")
			t2[c][ns] = c09GenSub(rt, l+"-sub")
		case "remove-subcluster":
			delete(g2[c], s)
			delete(t2[c], s)
		case "change-gslb-weight":
			ks := sortedKeys(g2[c])
			if len(ks) > 0 {
				g2[c][ks[rapid.IntRange(0, len(ks)-1).Draw(rt, l+"-gsub")]] = c09GenGslbWeight(rt, l+"-gw")
			}
		case "add-cluster":
			nc := fmt.Sprintf("c%d", rapid.IntRange(0, 2).Draw(rt, l+"-newcluster"))
			if _, ok := g2[nc]; !ok {
				g2[nc], t2[nc] = map[string]int{"s0": rapid.IntRange(1, 3).Draw(rt, l+"-gw")}, map[string]subConf{"s0": c09GenSub(rt, l+"-sub")}
			}
		case "remove-cluster":
			delete(g2, c)
			delete(t2, c)
		case "drop-cluster-from-table-only":
			delete(t2, c)
		case "add-cluster-to-gslb-only":
			nc := fmt.Sprintf("c%d", rapid.IntRange(0, 2).Draw(rt, l+"-newcluster"))
			if _, ok := g2[nc]; !ok {
				g2[nc] = map[string]int{"s0": rapid.IntRange(1, 3).Draw(rt, l+"-gw")}
				delete(t2, nc)
			}
		case "remove-cluster-while-another-fails":
			// one reload drops cluster c entirely and carries another gslb cluster
			// that has no cluster_table entry (yet / any more)
			delete(g2, c)
			delete(t2, c)
			others := sortedKeys(g2)
			if len(others) > 0 && rapid.Bool().Draw(rt, l+"-failexisting") {
				delete(t2, others[rapid.IntRange(0, len(others)-1).Draw(rt, l+"-other")])
			} else {
				for _, nc := range []string{"c0", "c1", "c2"} {
					if _, ok := g2[nc]; !ok && nc != c {
						g2[nc] = map[string]int{"s0": rapid.IntRange(1, 3).Draw(rt, l+"-gw")}
						delete(t2, nc)
						break
					}
				}
			}
		case "restore-clusters-in-table":
			for _, cc := range sortedKeys(g2) {
				if t2[cc] == nil {
					t2[cc] = map[string]subConf{}
					for _, ss := range sortedKeys(g2[cc]) {
						t2[cc][ss] = c09GenSub(rt, l+"-"+cc+ss)
					}
				}
			}
		case "drop-sub-from-table-only":
			delete(t2[c], s)
		case "drop-sub-from-gslb-only":
			delete(g2[c], s)
		case "add-sub-to-gslb-only":
			ns := fmt.Sprintf("s%d", rapid.IntRange(0, 3).Draw(rt, l+"-newsub"))
			if _, ok := t2[c][ns]; !ok {
				g2[c][ns] = c09GenGslbWeight(rt, l+"-gw")
			}
		case "noop":
		}
		names = append(names, kind)
	}
	return g2, t2, names
}

type c09Op struct {
	K         string
	Mutations []string  `json:",omitempty"`
	G         gslbConf  `json:",omitempty"`
	T         tableConf `json:",omitempty"`
	Idx       int       `json:",omitempty"`
	Val       int       `json:",omitempty"`
}

func TestC09(t *testing.T) {
	rec := ev.New("C09", "histories on one BalTable: Init from a generated gslb/cluster_table pair, then <=12 ops: reload with a pair mutated from the previous one (add/remove/rename/move/duplicate backend, weight change, add/remove sub-cluster or cluster, sub-cluster present in only one of the two files, reorder, no-op; rejected pairs leave the table unchanged), SetAvail / conn / fail counter changes on live backends; Balance draws after every reload. non-trivial: a removal followed by a later reload, or a persisting backend that carried non-default state (unavailable / counters) across a reload. distinct by history encoding")
	rapid.Check(t, func(rt *rapid.T) {
		g, tc := c09GenInitial(rt)
		m := &c09Machine{tbl: bfe_balance.NewBalTable(nil), removed: map[*backend.BfeBackend]c09Key{}, classes: map[string]bool{}}
		hist := []c09Op{{K: "init", G: g, T: tc}}
		var initErr error
		if p := ev.Try(func() { initErr = m.tbl.Init(writeGslbFile(g, "0"), writeTableFile(tc, "0")) }); p != nil {
			rec.Case("init-panic", false)
			rec.Fail(rt, "panic-init", hist, "BalTable.Init panicked: %v", p)
			return
		}
		if initErr != nil {
			fpb, _ := json.Marshal(hist)
			rec.Case(string(fpb), false, "init-rejected")
			rec.Excluded("initial-pair-rejected-by-loader")

			return
		}
		m.g, m.t = g, tc
		fail := func(f *c09Fail) bool {
			if f == nil {
				return false
			}
			fpb, _ := json.Marshal(hist)
			rec.Case(string(fpb), m.nt, "failed")
			if !rec.Fail(rt, f.key, hist, "%s", f.msg) {
				rec.Excluded("behind-known-finding:" + f.key)
			}
			return true
		}
		// after Init every configured key has a handle, available and unreleased
		lst, _ := m.listing()
		for k, confs := range c09Effective(g, tc) {
			if len(lst[k]) < 1 || len(lst[k]) > len(confs) {
				if fail(c09F("init-handles", "%s: %d handles for %d configured entries after Init", k, len(lst[k]), len(confs))) {
					return
				}
			}
			for _, b := range lst[k] {
				if !b.Avail() || c09Closed(b) {
					if fail(c09F("init-not-fresh", "%s not available/unreleased after Init", k)) {
						return
					}
				}
			}
			if len(confs) > 1 {
				m.class("init-duplicate-addr")
			}
		}
		if fail(m.drawCheck(nil)) {
			return
		}
		nops := rapid.IntRange(1, 12).Draw(rt, "nops")
		reloadsAfterRemoval := false
		for i := 0; i < nops; i++ {
			l := fmt.Sprintf("op%d", i)
			k := rapid.IntRange(0, 99).Draw(rt, l+"-kind")
			switch {
			case k < 55:
				g2, t2, names := c09Mutate(rt, l, m.g, m.t)
				hist = append(hist, c09Op{K: "reload", Mutations: names, G: g2, T: t2})
				for _, n := range names {
					m.class("mut:" + n)
				}
				if m.hadRemoval {
					reloadsAfterRemoval = true
				}
				if fail(m.reload(g2, t2, names)) {
					return
				}
			default:
				lst, _ := m.listing()
				var all []*backend.BfeBackend
				for _, kk := range sortedC09Keys(lst) {
					all = append(all, lst[kk]...)
				}
				op := c09Op{K: "avail-off", Idx: rapid.IntRange(0, 40).Draw(rt, l+"-idx")}
				switch {
				case k < 75:
				case k < 82:
					op.K = "avail-on"
				case k < 91:
					op.K, op.Val = "conn", rapid.IntRange(1, 3).Draw(rt, l+"-n")
				default:
					op.K, op.Val = "fail", rapid.IntRange(1, 3).Draw(rt, l+"-n")
				}
				hist = append(hist, op)
				if len(all) == 0 {
					continue
				}
				b := all[op.Idx%len(all)]
				switch op.K {
				case "avail-off":
					b.SetAvail(false)
				case "avail-on":
					b.SetAvail(true)
				case "conn":
					for j := 0; j < op.Val; j++ {
						b.IncConnNum()
					}
				case "fail":
					for j := 0; j < op.Val; j++ {
						b.AddFailNum()
					}
				}
				m.class("op:" + op.K)
			}
		}
		// final: everything removed by an empty pair must be released once
		hist = append(hist, c09Op{K: "reload", Mutations: []string{"remove-everything"}, G: gslbConf{}, T: tableConf{}})
		if m.hadRemoval {
			reloadsAfterRemoval = true
		}
		if fail(m.reload(gslbConf{}, tableConf{}, []string{"remove-everything"})) {
			return
		}
		m.nt = reloadsAfterRemoval || m.hadUnavailSurvivor || m.hadPartial
		fpb, _ := json.Marshal(hist)
		cl := []string{}
		for c := range m.classes {
			cl = append(cl, c)
		}
		if m.hadUnavailSurvivor {
			cl = append(cl, "survivor-with-state")
		}
		if reloadsAfterRemoval {
			cl = append(cl, "reload-after-removal")
		}
		if m.hadPartial {
			cl = append(cl, "history-with-partial-failure")
		}
		rec.Case(string(fpb), m.nt, cl...)
		rec.Sample(hist)
	})
}

func sortedC09Keys(m map[c09Key][]*backend.BfeBackend) []c09Key {
	ks := make([]c09Key, 0, len(m))
	for k := range m {
		ks = append(ks, k)
	}
	sort.Slice(ks, func(i, j int) bool { return ks[i].String() < ks[j].String() })
	return ks
}

package bal2

import (
	"encoding/json"
	"fmt"
	"net"
	"sync"
	"sync/atomic"
	"time"

	"github.com/bfenetworks/bfe/bfe_balance/backend"
	"github.com/bfenetworks/bfe/bfe_balance/bal_slb"
	"github.com/bfenetworks/bfe/bfe_config/bfe_cluster_conf/cluster_conf"
	"pgregory.net/rapid"

	"verif/harness/internal/ev"
)

// Storm mode of C05: slow start is enabled, goroutines that play the health
// checker of a backend keep raising its restart flag (SetRestart(true);
// SetAvail(true), optionally after SetAvail(false)), request-accounting writers
// hammer the same backends (IncConnNum/OnSuccess/DecConnNum, AddFailNum/
// ResetFailNum, SetAvail) and balancer goroutines call Balance: the first
// Balance after every restart runs the slow-start bookkeeping of that backend
// while writers are active on it. Optionally a reloader alternates two
// configurations so that backends added by a reload carry the flag too.
// Oracle as everywhere in C05: every goroutine keeps making progress (no
// progress at all over a full window = hang), no panic, backend or error.

type c05StormLoop struct {
	Kind  string // bal checker writer reload
	Algor int    `json:",omitempty"`
	Idx   int    `json:",omitempty"`
	N     int
	Down  bool   `json:",omitempty"`
	What  string `json:",omitempty"` // writer flavour: conn fail avail
}

type c05Storm struct {
	Level string // rr / table
	SS    int
	Init  subConf
	Alt   subConf // second configuration for the reloader
	Loops []c05StormLoop
}

func c05GenStorm(rt *rapid.T, env *c05Env) c05Storm {
	st := c05Storm{Level: rapid.SampledFrom([]string{"rr", "table"}).Draw(rt, "level"), SS: rapid.SampledFrom([]int{30, 1}).Draw(rt, "ss")}
	n := rapid.IntRange(1, 4).Draw(rt, "nbackends")
	for i := 0; i < n; i++ {
		st.Init = append(st.Init, beConf{Name: fmt.Sprintf("b%d", i), Addr: fmt.Sprintf("127.0.0.%d", i+1), Port: env.ports[1], Weight: rapid.IntRange(1, 4).Draw(rt, "w")})
	}
	st.Alt = append(st.Init.clone(), beConf{Name: "bx", Addr: "127.0.0.9", Port: env.ports[1], Weight: rapid.IntRange(1, 4).Draw(rt, "wx")})
	algs := []int{bal_slb.WrrSmooth, bal_slb.WlcSmooth, bal_slb.WrrSimple, bal_slb.WlcSimple, 9}
	nb := rapid.IntRange(1, 4).Draw(rt, "balancers")
	for i := 0; i < nb; i++ {
		st.Loops = append(st.Loops, c05StormLoop{Kind: "bal", Algor: rapid.SampledFrom(algs).Draw(rt, "algor"), N: rapid.IntRange(100, ev.N(1500, 4000)).Draw(rt, "bal-n")})
	}
	nc := rapid.IntRange(1, 3).Draw(rt, "checkers")
	for i := 0; i < nc; i++ {
		st.Loops = append(st.Loops, c05StormLoop{Kind: "checker", Idx: rapid.IntRange(0, n-1).Draw(rt, "chk-idx"), N: rapid.IntRange(100, ev.N(1500, 4000)).Draw(rt, "chk-n"), Down: rapid.Bool().Draw(rt, "chk-down")})
	}
	nw := rapid.IntRange(1, 4).Draw(rt, "writers")
	for i := 0; i < nw; i++ {
		st.Loops = append(st.Loops, c05StormLoop{Kind: "writer", Idx: rapid.IntRange(0, n-1).Draw(rt, "wr-idx"), N: rapid.IntRange(100, ev.N(2000, 5000)).Draw(rt, "wr-n"),
			What: rapid.SampledFrom([]string{"conn", "conn", "fail", "avail"}).Draw(rt, "wr-what")})
	}
	if rapid.IntRange(0, 2).Draw(rt, "reloader") == 0 {
		st.Loops = append(st.Loops, c05StormLoop{Kind: "reload", N: rapid.IntRange(2, 40).Draw(rt, "rl-n")})
	}
	return st
}

func c05CaseStorm(rt *rapid.T, rec *ev.Rec, env *c05Env, poisoned *bool) {
	st := c05GenStorm(rt, env)
	fpb, _ := json.Marshal(st)
	classes := []string{"mode:restart-storm", "storm:" + st.Level, fmt.Sprintf("storm-ss:%d", st.SS)}
	for _, l := range st.Loops {
		if l.Kind == "reload" {
			classes = append(classes, "storm:with-reloader")
		}
	}
	rec.Case(string(fpb), true, classes...)
	rec.Sample(st)
	env.hcOn.Store(false)

	la, err1 := loadSub(st.Init)
	lb, err2 := loadSub(st.Alt)
	if err1 != nil || err2 != nil {
		rec.Excluded("loader-rejected-initial")
		return
	}
	var (
		balance func(i int, algor int) *c05Failure
		reload  func(i int) *c05Failure
		handles []*backend.BfeBackend
		finish  func() *c05Failure
	)
	switch st.Level {
	case "rr":
		brr := bal_slb.NewBalanceRR("s0")
		brr.Init(la)
		brr.SetSlowStart(st.SS)
		handles = brr.VerifBal2Backends()
		rs := &c05RRState{rec: rec, brr: brr}
		balance = func(i, algor int) *c05Failure {
			f := rs.balanceOnce(algor, []byte{byte(i)}, false)
			if f != nil && rec.Known(f.Key) {
				// open finding (a recovered panic): count it and keep the storm going behind it
				rec.Fail(rt, f.Key, st, "%s", f.Msg)
				return nil
			}
			return f
		}
		reload = func(i int) *c05Failure {
			l := la
			if i%2 == 0 {
				l = lb
			}
			if p := ev.Try(func() { brr.Update(l) }); p != nil {
				return &c05Failure{Key: "panic-rr-update", Msg: fmt.Sprintf("BalanceRR.Update panicked: %v", p)}
			}
			return nil
		}
		finish = func() *c05Failure {
			if p := ev.Try(func() { brr.Release() }); p != nil {
				return &c05Failure{Key: "panic-rr-release", Msg: fmt.Sprintf("Release panicked: %v", p)}
			}
			return nil
		}
	default:
		ct, err := loadClusterTable(map[string]clusterBasic{"c0": {SlowStart: st.SS, Mode: rapid.SampledFrom([]string{"WRR", "WLC"}).Draw(rt, "mode"), Strategy: cluster_conf.ClientIpOnly, RetryMax: 2, CrossRetry: 1}})
		ga, e1 := loadGslb(gslbConf{"c0": {"s0": 1}}, "1")
		ta, e2 := loadTable(tableConf{"c0": {"s0": st.Init}}, "1")
		tb, e3 := loadTable(tableConf{"c0": {"s0": st.Alt}}, "2")
		if err != nil || e1 != nil || e2 != nil || e3 != nil {
			rec.Excluded("loader-rejected-initial")
			return
		}
		tbl := env.table()
		if f, h := c05Watched(1, c05Window(), func(int) *c05Failure {
			if p := ev.Try(func() {
				tbl.BalTableReload(ga, ta)
				env.curCT.Store(ct)
				tbl.SetGslbBasic(ct)
				tbl.SetSlowStart(ct)
			}); p != nil {
				return &c05Failure{Key: "panic-table-reload", Msg: fmt.Sprintf("initial reload panicked: %v", p)}
			}
			return nil
		}); h >= 0 || f != nil {
			*poisoned = true
			if h >= 0 {
				f = &c05Failure{Key: "hang-table-initial-reload", Hang: true, Msg: "initial reload made no progress"}
			}
			c05Report(rt, rec, f, st)
			return
		}
		for i := range st.Init {
			if b := env.pickBackend("c0", 0, i); b != nil {
				handles = append(handles, b)
			}
		}
		balance = func(i, algor int) *c05Failure {
			bal, err := tbl.Lookup("c0")
			if err != nil {
				return nil
			}
			req := newRequest(net.IPv4(10, 1, byte(i>>8), byte(i)), "/", "", "", 0)
			var b *backend.BfeBackend
			if p := ev.Try(func() { b, err = bal.Balance(req) }); p != nil {
				return &c05Failure{Key: "panic-gslb-balance", Msg: fmt.Sprintf("BalanceGslb.Balance panicked: %v", p)}
			}
			if err == nil && b == nil {
				return &c05Failure{Key: "nil-backend-nil-error-gslb", Msg: "BalanceGslb.Balance returned neither a backend nor an error"}
			}
			return nil
		}
		reload = func(i int) *c05Failure {
			t := ta
			if i%2 == 0 {
				t = tb
			}
			if p := ev.Try(func() { tbl.BalTableReload(ga, t); tbl.SetGslbBasic(ct); tbl.SetSlowStart(ct) }); p != nil {
				return &c05Failure{Key: "panic-table-reload", Msg: fmt.Sprintf("BalTableReload panicked: %v", p)}
			}
			return nil
		}
		finish = func() *c05Failure {
			if err := env.emptyReload(); err != nil && len(err.Error()) > 5 && err.Error()[:5] == "panic" {
				return &c05Failure{Key: "panic-table-reload", Msg: "final reload to the empty configuration: " + err.Error()}
			}
			return nil
		}
	}
	if len(handles) == 0 {
		rec.Excluded("storm-no-handles")
		return
	}

	var progress atomic.Int64
	var mu sync.Mutex
	var first *c05Failure
	var wg sync.WaitGroup
	start := make(chan struct{})
	for _, l := range st.Loops {
		wg.Add(1)
		go func(l c05StormLoop) {
			defer wg.Done()
			<-start
			b := handles[l.Idx%len(handles)]
			for i := 0; i < l.N; i++ {
				var f *c05Failure
				switch l.Kind {
				case "bal":
					f = balance(i, l.Algor)
				case "checker":
					if l.Down {
						b.SetAvail(false)
					}
					b.SetRestart(true)
					b.SetAvail(true)
				case "writer":
					switch l.What {
					case "conn":
						b.IncConnNum()
						b.OnSuccess()
						b.DecConnNum()
					case "fail":
						b.AddFailNum()
						b.ResetFailNum()
					default:
						b.SetAvail(i%3 != 0)
					}
				case "reload":
					f = reload(i)
				}
				if f != nil {
					mu.Lock()
					if first == nil {
						first = f
					}
					mu.Unlock()
					return
				}
				progress.Add(1)
			}
		}(l)
	}
	done := make(chan struct{})
	go func() { wg.Wait(); close(done) }()
	close(start)
	last := int64(-1)
	hung := false
wait:
	for {
		tm := time.NewTimer(c05Window())
		select {
		case <-done:
			tm.Stop()
			break wait
		case <-tm.C:
			c := progress.Load()
			if c == last {
				hung = true
				c05HangSeen.Store(true)
				break wait
			}
			last = c
		}
	}
	if hung {
		*poisoned = st.Level == "table"
		rec.Class("hang-observed")
		c05Report(rt, rec, &c05Failure{Key: "hang-slowstart-restart-storm-" + st.Level, Hang: true,
			Msg: fmt.Sprintf("no goroutine made progress for %v: Balance with slow start %ds while restart flags are raised and writers are active on the backends (deadlock or livelock)", c05HangWindow, st.SS)}, st)
		return
	}
	mu.Lock()
	f := first
	mu.Unlock()
	if !c05Report(rt, rec, f, st) {
		*poisoned = st.Level == "table"
		return
	}
	if f, h := c05Watched(1, c05Window(), func(int) *c05Failure { return finish() }); h >= 0 || f != nil {
		*poisoned = st.Level == "table"
		if h >= 0 {
			f = &c05Failure{Key: "hang-storm-final-release-" + st.Level, Hang: true, Msg: "final release/reload made no progress"}
		}
		c05Report(rt, rec, f, st)
	}
}

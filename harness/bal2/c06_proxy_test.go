package bal2

import (
	"bytes"
	"encoding/json"
	"fmt"
	"net"
	"os"
	"os/exec"
	"path/filepath"
	"strings"
	"sync"
	"testing"
	"time"

	"verif/harness/internal/ev"
	"verif/harness/internal/sys"
)

// Proxy part of C06: "its consecutive request failures" are booked by the
// reverse proxy (clusterInvoke -> backend.OnFail/OnSuccess). An in-process BFE
// proxies to a cluster {A: refused port, B: live harness backend}; FailNum is
// small, RetryMax >= 1. Requests are chunked uploads whose first attempt meets
// the refused A (a backend failure, always retried) and whose retry on B is
// aborted by the CLIENT (RST once B has received the request header). The
// harness model books a failure to a backend only when that backend refused,
// closed or timed out; client aborts are nobody's failure. B never fails, so by
// the statement it must never leave rotation: no health-check probe (a TCP
// connection that carries no byte) may ever reach B and a final GET is served.
// Fault enumeration over FailNum x number of aborted uploads x bytes sent
// before the abort x an interleaved successful request.

type c06ProxyScenario struct {
	FailNum   int
	Aborts    int  // number of aborted uploads (each: try 1 on A refused, retry on B aborted by the client)
	Chunks    int  // complete 600-byte chunks sent before the RST
	SuccessAt int  // -1: none; k: a plain GET (served by B) is issued before abort #k
	CL        bool // reserved (always chunked: Content-Length uploads wrap the client error, see notes)
}

type c06ProxyB struct {
	b      *sys.Backend
	mu     sync.Mutex
	probes int // connections closed by the peer without a single byte
	reqs   []string
	active int
}

func newC06ProxyB() (*c06ProxyB, error) {
	pb := &c06ProxyB{}
	b, err := sys.NewBackend("B", func(bc *sys.BackendConn) {
		pb.mu.Lock()
		pb.active++
		pb.mu.Unlock()
		defer func() {
			pb.mu.Lock()
			pb.active--
			pb.mu.Unlock()
		}()
		off := 0
		noted := false
		for {
			bc.Fill(30 * time.Second)
			data := bc.Bytes()
			if !noted && len(data) > off {
				if i := bytes.Index(data[off:], []byte("\r\n")); i >= 0 {
					pb.mu.Lock()
					pb.reqs = append(pb.reqs, string(data[off:off+i]))
					pb.mu.Unlock()
					noted = true
				}
			}
			if i := bytes.Index(data[off:], []byte("\r\n\r\n")); i >= 0 && bytes.HasPrefix(data[off:], []byte("GET ")) {
				bc.Conn.Write([]byte("HTTP/1.1 200 OK\r\nContent-Length: 2\r\n\r\nok"))
				off += i + 4
				noted = false
				continue
			}
			if bc.EOF() {
				if len(data) == 0 {
					pb.mu.Lock()
					pb.probes++
					pb.mu.Unlock()
				}
				return
			}
		}
	})
	if err != nil {
		return nil, err
	}
	pb.b = b
	return pb, nil
}

func (pb *c06ProxyB) snapshot() (probes int, reqs []string, active int) {
	pb.mu.Lock()
	defer pb.mu.Unlock()
	return pb.probes, append([]string(nil), pb.reqs...), pb.active
}

func (pb *c06ProxyB) waitReq(prefix string, d time.Duration) bool {
	dl := time.Now().Add(d)
	for {
		_, reqs, _ := pb.snapshot()
		for _, r := range reqs {
			if strings.HasPrefix(r, prefix) {
				return true
			}
		}
		if time.Now().After(dl) {
			return false
		}
		time.Sleep(200 * time.Microsecond)
	}
}

var (
	c06Rig    *sys.Rig
	c06RigSeq int
)

func c06ProxyConf(version string, failNum, portA, portB int) *sys.DataConf {
	cl := sys.Cluster{Name: "c", RetryMax: 2, CrossRetry: 0, RetryLevel: 0, TimeoutConnSrvMs: 1000, TimeoutResponseHeaderMs: 5000,
		FailNum: failNum, CheckIntervalMs: 20, MaxIdleConnsPerHost: 2,
		Sub: []sys.SubCluster{{Name: "c.sub", Weight: 100, Backends: []sys.BackendSpec{
			{Name: "A", Addr: "127.0.0.1", Port: portA, Weight: 1},
			{Name: "B", Addr: "127.0.0.1", Port: portB, Weight: 1}}}}}
	return sys.SimpleConf(version, []sys.Cluster{cl}, nil)
}

func c06ClosedPort() (int, error) {
	ln, err := net.Listen("tcp", "127.0.0.1:0")
	if err != nil {
		return 0, err
	}
	p := ln.Addr().(*net.TCPAddr).Port
	ln.Close()
	return p, nil
}

// c06ProxyGet issues a plain GET through the proxy and returns the status line.
func c06ProxyGet(rig *sys.Rig, target string) (string, error) {
	c, err := rig.Dial()
	if err != nil {
		return "", err
	}
	defer c.Close()
	fmt.Fprintf(c, "GET %s HTTP/1.1\r\nHost: example.org\r\nConnection: close\r\n\r\n", target)
	data, _ := sys.ReadAllTimeout(c, 10*time.Second)
	if i := bytes.Index(data, []byte("\r\n")); i >= 0 {
		return string(data[:i]), nil
	}
	return string(data), nil
}

func c06ProxyRun(sc c06ProxyScenario) (v *c06Verdict, classes []string) {
	c06RigSeq++
	id := c06RigSeq
	pb, err := newC06ProxyB()
	if err != nil {
		return c06Inconclusive("listen: " + err.Error()), nil
	}
	defer pb.b.Close()
	portA, err := c06ClosedPort()
	if err != nil {
		return c06Inconclusive("listen: " + err.Error()), nil
	}
	conf := c06ProxyConf(fmt.Sprintf("v%d", id), sc.FailNum, portA, pb.b.Port)
	if c06Rig == nil {
		rig, err := sys.Start(sys.Options{Data: conf})
		if err != nil {
			return c06Inconclusive("rig: " + err.Error()), nil
		}
		c06Rig = rig
	} else if err := c06Rig.Reload(conf); err != nil {
		return c06Inconclusive("reload: " + err.Error()), nil
	}
	rig := c06Rig
	aFirst := 0
	for k := 0; k < sc.Aborts; k++ {
		if sc.SuccessAt == k {
			st, err := c06ProxyGet(rig, fmt.Sprintf("/ok%d-%d", id, k))
			if err != nil || !strings.Contains(st, " 200") {
				return c06Viol("proxy-healthy-backend-not-serving", "GET before abort #%d answered %q (%v) although B never failed a request", k, st, err), classes
			}
			classes = append(classes, "proxy:success-between-aborts")
		}
		target := fmt.Sprintf("/up%d-%d", id, k)
		c, err := rig.Dial()
		if err != nil {
			return c06Inconclusive("dial: " + err.Error()), classes
		}
		var sb strings.Builder
		fmt.Fprintf(&sb, "POST %s HTTP/1.1\r\nHost: example.org\r\nTransfer-Encoding: chunked\r\n\r\n", target)
		for i := 0; i < sc.Chunks; i++ {
			sb.WriteString("258\r\n" + strings.Repeat("x", 600) + "\r\n")
		}
		sb.WriteString("258\r\n" + strings.Repeat("y", 100)) // an incomplete chunk: the upload is under way
		c.Write([]byte(sb.String()))
		// the abort happens once B has seen the request (so the retry on B is under way)
		if !pb.waitReq("POST "+target+" ", c06Deadline) {
			c.Close()
			return c06Inconclusive("retry did not reach B in time"), classes
		}
		if tc, ok := c.(*net.TCPConn); ok {
			tc.SetLinger(0) // RST: the client connection is reset mid-upload
		}
		c.Close()
		aFirst++
	}
	// let bfe finish the aborted exchanges (it closes its connections to B), then
	// give a wrongly started checker time for its first probe (sent at once)
	dl := time.Now().Add(c06Deadline)
	for {
		_, _, active := pb.snapshot()
		if active == 0 {
			break
		}
		if time.Now().After(dl) {
			return c06Inconclusive("backend connections of aborted uploads not closed in time"), classes
		}
		time.Sleep(time.Millisecond)
	}
	time.Sleep(120 * time.Millisecond)
	probes, reqs, _ := pb.snapshot()
	if probes > 0 {
		return c06Viol("proxy-healthy-backend-health-checked", "B never failed a request (FailNum=%d; %d uploads: try 1 refused by A, retry on B reset by the client after %d chunks) but %d health-check probes reached it: it was taken out of rotation (requests seen by B: %d)", sc.FailNum, sc.Aborts, sc.Chunks, probes, len(reqs)), classes
	}
	st, err := c06ProxyGet(rig, fmt.Sprintf("/final%d", id))
	if err != nil || !strings.Contains(st, " 200") {
		return c06Viol("proxy-healthy-backend-not-serving", "final GET answered %q (%v) although B never failed a request", st, err), classes
	}
	if probes, _, _ := pb.snapshot(); probes > 0 {
		return c06Viol("proxy-healthy-backend-health-checked", "B never failed a request but %d health-check probes reached it", probes), classes
	}
	return nil, classes
}

type c06ProxyResult struct {
	Scenario     c06ProxyScenario
	Key, Msg     string
	Inconclusive string
	Classes      []string
}

// TestC06ProxyChild runs the enumeration in a process of its own (re-exec by
// TestC06): the in-process BFE installs its own process-wide CheckConfFetcher and
// logger, which must not be swapped under the checker goroutines of TestC06.
func TestC06ProxyChild(t *testing.T) {
	if os.Getenv("VERIF_C06_PROXY") == "" {
		t.Skip("helper for TestC06")
	}
	for fn := 1; fn <= 3; fn++ {
		for extra := 0; extra <= 1; extra++ {
			for _, chunks := range []int{1, 3} {
				for _, succ := range []int{-1, 0, fn} {
					sc := c06ProxyScenario{FailNum: fn, Aborts: fn + extra, Chunks: chunks, SuccessAt: succ}
					if succ >= sc.Aborts {
						continue
					}
					v, cl := c06ProxyRun(sc)
					res := c06ProxyResult{Scenario: sc, Classes: cl}
					if v != nil {
						res.Key, res.Msg, res.Inconclusive = v.key, v.msg, v.inconclusive
					}
					b, _ := json.Marshal(res)
					fmt.Printf("C06PROXY %s\n", b)
				}
			}
		}
	}
}

// c06ProxyPart runs the child and books its results.
func c06ProxyPart(t *testing.T, rec *ev.Rec) {
	if shardOf() != 0 {
		return
	}
	cmd := exec.Command(os.Args[0], "-test.run", "^TestC06ProxyChild$", "-test.count", "1", "-test.timeout", "240s")
	env := []string{}
	for _, kv := range os.Environ() {
		if strings.HasPrefix(kv, "VERIF_EV_OUT=") || strings.HasPrefix(kv, "GORACE=") || strings.HasPrefix(kv, "VERIF_REPLAY_DIR=") || strings.HasPrefix(kv, "VERIF_WORK=") {
			continue
		}
		env = append(env, kv)
	}
	wd := filepath.Join(workDir(), "proxychild")
	os.MkdirAll(wd, 0o755)
	// data races inside the whole server are not this property's subject: reports do not stop the child
	env = append(env, "VERIF_C06_PROXY=1", "VERIF_WORK="+wd, "GORACE=halt_on_error=0 exitcode=0 log_path="+filepath.Join(wd, "race"))
	cmd.Env = env
	out, err := cmd.CombinedOutput()
	n := 0
	for _, line := range strings.Split(string(out), "\n") {
		if !strings.HasPrefix(line, "C06PROXY ") {
			continue
		}
		var res c06ProxyResult
		if json.Unmarshal([]byte(line[len("C06PROXY "):]), &res) != nil {
			continue
		}
		if res.Inconclusive != "" {
			rec.Excluded("inconclusive:proxy:" + res.Inconclusive)
			continue
		}
		fpb, _ := json.Marshal(res.Scenario)
		cl := append(res.Classes, "sweep:proxy-attribution", fmt.Sprintf("proxy-FailNum:%d", res.Scenario.FailNum))
		rec.Case("proxy|"+string(fpb), true, cl...)
		n++
		if res.Key != "" {
			if !rec.Fail(t, res.Key, res.Scenario, "%s", res.Msg) {
				rec.Excluded("behind-known-finding:" + res.Key)
			}
		}
	}
	rec.Set("proxy_attribution_scenarios", int64(n))
	if n == 0 {
		t.Logf("proxy child produced no result (inconclusive): %v\n%s", err, tailStr(strings.ReplaceAll(string(out), "DATA RACE", "DATA-RACE"), 2000))
		rec.Excluded("inconclusive:proxy-child-no-result")
	}
}

package bal2

import (
	"encoding/json"
	"fmt"
	"net"
	"net/http"
	"strings"
	"sync"
	"sync/atomic"
	"testing"
	"time"

	"github.com/bfenetworks/bfe/bfe_balance"
	"github.com/bfenetworks/bfe/bfe_balance/backend"
	"github.com/bfenetworks/bfe/bfe_config/bfe_cluster_conf/cluster_conf"
	"pgregory.net/rapid"

	"verif/harness/internal/ev"
)

// C06: a backend leaves rotation exactly when its consecutive request failures
// reach FailNum; while out of rotation at most one health checker runs for it;
// it returns only after SuccNum consecutive successful health checks; a backend
// removed by reload stops being checked.
//
// Rig: the backend points at a harness HTTP server that answers the k-th probe
// of a case from a generated pass/fail script and *holds* every probe until the
// harness releases it, so the interleaving of request outcomes, probe outcomes
// and reloads is owned by the harness and does not depend on timing. The oracle
// is a 10-line model of two consecutive counters written from the statement.
// Every wait has a generous deadline; a deadline hit makes the case
// inconclusive (skipped), never a violation.

const (
	c06Deadline = 20 * time.Second
)

type c06Inject struct {
	At int    // after probe #At (1-based) arrived and is held
	Ev string // "F" / "S"
}

type c06Round struct {
	Events string // request outcomes "F"/"S"; the harness appends nothing: generation guarantees a crossing or not
	ConcN  int    // >0: the crossing failure is issued by ConcN goroutines at once
	Script string // probe outcomes "P"/"F"
	Inject []c06Inject
	// Release: "" none; "held:j" while probe j is held; "after:j" right after answering probe j;
	// "avail" while in rotation before the events (then the events run against the released backend)
	Release string
	// How the reload removes the backend: "" / "backend" = its entry leaves the sub-cluster's list,
	// "sub-from-table" = its sub-cluster leaves cluster_table.data but stays in gslb.data,
	// "sub-from-gslb" = its sub-cluster leaves gslb.data, "cluster" = its cluster leaves both files
	How string `json:",omitempty"`
}

type c06Scenario struct {
	FailNum  int
	SuccNum  int
	Interval int
	Schem    string
	Rounds   []c06Round
}

// ---- scripted health-check server

type c06Case struct {
	mu          sync.Mutex
	script      string
	n           int // probes arrived
	inflight    int
	maxInflight int
	arrive      chan int
	gate        chan struct{}
	auto        chan struct{}
	autoOnce    sync.Once
}

func newC06Case() *c06Case {
	return &c06Case{arrive: make(chan int, 4096), gate: make(chan struct{}, 64), auto: make(chan struct{})}
}

func (c *c06Case) setAuto() { c.autoOnce.Do(func() { close(c.auto) }) }

func (c *c06Case) count() (n, inflight, maxInflight int) {
	c.mu.Lock()
	defer c.mu.Unlock()
	return c.n, c.inflight, c.maxInflight
}

func (c *c06Case) setScript(s string) {
	c.mu.Lock()
	c.script = s
	c.mu.Unlock()
}

// probe is called for every arriving probe; returns whether it passes.
func (c *c06Case) probe() bool {
	c.mu.Lock()
	k := c.n
	c.n++
	c.inflight++
	if c.inflight > c.maxInflight {
		c.maxInflight = c.inflight
	}
	pass := k < len(c.script) && c.script[k] == 'P'
	c.mu.Unlock()
	select {
	case c.arrive <- k + 1:
	default:
	}
	select {
	case <-c.gate:
	case <-c.auto:
	case <-time.After(3 * c06Deadline):
	}
	c.mu.Lock()
	c.inflight--
	c.mu.Unlock()
	return pass
}

type c06Server struct {
	ln    net.Listener
	port  int
	cases sync.Map // path -> *c06Case
}

func newC06Server(t *testing.T) *c06Server {
	ln, err := net.Listen("tcp", "127.0.0.1:0")
	if err != nil {
		t.Skipf("cannot listen on loopback: %v", err)
	}
	s := &c06Server{ln: ln, port: ln.Addr().(*net.TCPAddr).Port}
	srv := &http.Server{Handler: http.HandlerFunc(func(w http.ResponseWriter, r *http.Request) {
		v, ok := s.cases.Load(r.URL.Path)
		if !ok {
			w.WriteHeader(503)
			return
		}
		if v.(*c06Case).probe() {
			w.WriteHeader(200)
		} else {
			w.WriteHeader(500)
		}
	})}
	go srv.Serve(ln)
	return s
}

// ---- fetcher (global in bfe; installed once)

var (
	c06Confs   sync.Map // cluster -> *cluster_conf.BackendCheck
	c06CaseSeq atomic.Int64
)

func c06Fetch(cluster string) *cluster_conf.BackendCheck {
	if v, ok := c06Confs.Load(cluster); ok {
		return v.(*cluster_conf.BackendCheck)
	}
	return nil
}

// ---- model

type c06Model struct {
	failNum, succNum int
	avail            bool
	f                int
}

func (m *c06Model) onFail(n int) (crossed bool) {
	m.f += n
	if m.f >= m.failNum && m.avail {
		m.avail = false
		return true
	}
	return false
}
func (m *c06Model) onSuccess() { m.f = 0 }
func (m *c06Model) recovered() { m.avail = true; m.f = 0 }

// recoveryIndex: 1-based index of the probe that completes the first run of
// succNum consecutive passes; 0 if the script never gets there.
func c06RecoveryIndex(script string, succNum int) int {
	run := 0
	for i := 0; i < len(script); i++ {
		if script[i] == 'P' {
			run++
			if run == succNum {
				return i + 1
			}
		} else {
			run = 0
		}
	}
	return 0
}

type c06Verdict struct {
	key, msg     string
	inconclusive string
}

func c06Inconclusive(why string) *c06Verdict { return &c06Verdict{inconclusive: why} }
func c06Viol(key, f string, a ...any) *c06Verdict {
	return &c06Verdict{key: key, msg: fmt.Sprintf(f, a...)}
}

type c06Run struct {
	sc       c06Scenario
	srv      *c06Server
	cs       *c06Case
	tcpLn    net.Listener
	tcpN     atomic.Int64
	tcpAllowed int64
	cluster  string
	port     int
	back     *backend.BfeBackend
	m        c06Model
	countOK  bool
	released bool
	classes  map[string]bool
}

func (r *c06Run) class(c string) { r.classes[c] = true }

func (r *c06Run) checkAvail(ctx string) *c06Verdict {
	got := r.back.Avail()
	if got == r.m.avail {
		return nil
	}
	if !got {
		return c06Viol("out-of-rotation-early", "%s: backend unavailable but only %d consecutive failures (FailNum=%d)", ctx, r.m.f, r.m.failNum)
	}
	return c06Viol("out-of-rotation-late", "%s: backend still available after %d consecutive failures (FailNum=%d)", ctx, r.m.f, r.m.failNum)
}

func (r *c06Run) checkCheckers(ctx string, wantRunning bool) *c06Verdict {
	if !r.countOK {
		return nil
	}
	n := countCheckers()
	if n > 1 {
		return c06Viol("multiple-checkers", "%s: %d health-check goroutines live for one backend", ctx, n)
	}
	if wantRunning && n == 0 {
		r.class("checker-not-observed")
	}
	return nil
}

// event applies one request outcome.
func (r *c06Run) event(e byte, conc int, ctx string) (crossed bool, v *c06Verdict) {
	switch e {
	case 'S':
		r.back.OnSuccess()
		r.m.onSuccess()
	case 'F':
		if conc > 1 {
			var wg sync.WaitGroup
			start := make(chan struct{})
			for i := 0; i < conc; i++ {
				wg.Add(1)
				go func() { defer wg.Done(); <-start; r.back.OnFail(r.cluster) }()
			}
			close(start)
			wg.Wait()
			crossed = r.m.onFail(conc)
		} else {
			r.back.OnFail(r.cluster)
			crossed = r.m.onFail(1)
		}
	}
	if crossed && r.sc.Schem == "tcp" && !r.released {
		// tcp probes cannot be held: the checker may already have brought the backend back
		return crossed, nil
	}
	return crossed, r.checkAvail(ctx)
}

// waitArrival waits for probe #k; meanwhile the backend must stay out of rotation.
func (r *c06Run) waitArrival(k int, ctx string) *c06Verdict {
	dl := time.NewTimer(c06Deadline)
	defer dl.Stop()
	tick := time.NewTicker(500 * time.Microsecond)
	defer tick.Stop()
	for {
		select {
		case got := <-r.cs.arrive:
			if got < k {
				continue
			}
			if got > k {
				return c06Viol("probe-sequence", "%s: probe #%d arrived while waiting for #%d", ctx, got, k)
			}
			if _, infl, _ := r.cs.count(); infl > 1 {
				return c06Viol("overlapping-probes", "%s: %d probes in flight", ctx, infl)
			}
			return nil
		case <-tick.C:
			if r.back.Avail() {
				n, _, _ := r.cs.count()
				return c06Viol("early-recovery", "%s: backend back in rotation after %d probes in total (outcomes so far %q, X = earlier rounds; SuccNum=%d)", ctx, n, headStr(r.cs.scriptCopy(), n), r.m.succNum)
			}
		case <-dl.C:
			return c06Inconclusive("deadline waiting for probe arrival")
		}
	}
}

func (c *c06Case) scriptCopy() string {
	c.mu.Lock()
	defer c.mu.Unlock()
	return c.script
}

func (r *c06Run) release1() { r.cs.gate <- struct{}{} }

// round runs one unavailable->available cycle. Returns done=true if the case ended (release).
func (r *c06Run) round(ri int, rd c06Round) (done bool, v *c06Verdict) {
	ctx := func(s string, a ...any) string { return fmt.Sprintf("round %d: ", ri) + fmt.Sprintf(s, a...) }
	if rd.Release == "avail" {
		r.removeByReload(rd.How)
		r.class("release-while-in-rotation")
	}
	base, _, _ := r.cs.count()
	tcpBase := r.tcpN.Load()
	r.cs.setScript(strings.Repeat("X", base) + rd.Script)
	// request outcomes until the crossing
	crossed := false
	i := 0
	for ; i < len(rd.Events) && !crossed; i++ {
		conc := 0
		if rd.ConcN > 1 && r.sc.Schem != "tcp" && rd.Events[i] == 'F' && r.m.avail && r.m.f+1 >= r.m.failNum {
			conc = rd.ConcN
			r.class("concurrent-crossing")
		}
		if crossed, v = r.event(rd.Events[i], conc, ctx("event %d (%c)", i, rd.Events[i])); v != nil {
			return true, v
		}
		if !crossed && r.m.avail {
			if v = r.checkCheckers(ctx("event %d in rotation", i), false); v != nil {
				return true, v
			}
		}
	}
	rest := rd.Events[i:]
	if !crossed {
		r.class("round-without-crossing")
		return false, nil
	}
	r.class("crossing")
	if r.released {
		// checker of a removed backend must leave without probing
		for j := 0; j < len(rest); j++ {
			if _, v = r.event(rest[j], 0, ctx("post-release event")); v != nil {
				return true, v
			}
		}
		return true, r.afterRelease(base, tcpBase, 0, ctx("crossing after removal"))
	}
	if v = r.checkCheckers(ctx("after crossing"), false); v != nil { // a goroutine that has not run yet shows no entry frame
		return true, v
	}
	if r.sc.Schem == "tcp" {
		return r.roundTCP(ri, rd, rest, tcpBase)
	}
	R := c06RecoveryIndex(rd.Script, r.m.succNum)
	inj := map[int][]string{}
	for _, in := range rd.Inject {
		inj[in.At] = append(inj[in.At], in.Ev)
	}
	for k := 1; ; k++ {
		if v = r.waitArrival(base+k, ctx("probe %d", k)); v != nil {
			return true, v
		}
		// probe k is held: the checker is blocked inside CheckConnect
		if k == 1 {
			for j := 0; j < len(rest); j++ { // outcomes of requests that were in flight at the crossing
				if _, v = r.event(rest[j], 0, ctx("in-flight event")); v != nil {
					return true, v
				}
				r.class("request-outcome-while-out-of-rotation")
			}
		}
		for _, e := range inj[k] {
			if _, v = r.event(e[0], 0, ctx("injected %s at probe %d", e, k)); v != nil {
				return true, v
			}
			r.class("request-outcome-while-out-of-rotation")
		}
		if v = r.checkCheckers(ctx("probe %d held", k), true); v != nil {
			return true, v
		}
		if rd.Release == fmt.Sprintf("held:%d", k) {
			r.class("release-while-probe-held")
			r.removeByReload(rd.How)
			return true, r.afterRelease(base+k, tcpBase, 0, ctx("removed while probe %d held", k))
		}
		r.release1()
		if rd.Release == fmt.Sprintf("after:%d", k) && k != R {
			r.class("release-between-probes")
			r.removeByReload(rd.How)
			n, _, _ := r.cs.count()
			return true, r.afterRelease(n, tcpBase, 1, ctx("removed after probe %d", k))
		}
		if k == R {
			break
		}
		if k >= len(rd.Script) {
			return true, c06Inconclusive("script exhausted") // generation guarantees R>0
		}
	}
	// probe R answered with a pass: the run of SuccNum passes is complete
	dl := time.Now().Add(c06Deadline)
	for !r.back.Avail() {
		select {
		case got := <-r.cs.arrive:
			if got > base+R {
				return true, c06Viol("late-recovery", "%s", ctx("probe #%d arrived although probes 1..%d already contain %d consecutive passes (script %q, SuccNum=%d)", got-base, R, r.m.succNum, rd.Script, r.m.succNum))
			}
		default:
		}
		if time.Now().After(dl) {
			return true, c06Inconclusive("deadline waiting for recovery")
		}
		time.Sleep(100 * time.Microsecond)
	}
	r.m.recovered()
	r.class("recovered")
	if r.countOK && !waitCheckers(0, c06Deadline) {
		return true, c06Inconclusive("deadline waiting for checker exit after recovery")
	}
	if n, _, mx := r.cs.count(); n != base+R {
		return true, c06Viol("extra-probes-after-recovery", "%s", ctx("%d probes arrived, recovery was complete after %d (script %q, SuccNum=%d)", n-base, R, rd.Script, r.m.succNum))
	} else if mx > 1 {
		return true, c06Viol("overlapping-probes", "%s", ctx("%d probes were in flight at once", mx))
	}
	return false, r.checkAvail(ctx("after recovery"))
}

// roundTCP: tcp checks cannot be held; only all-pass scripts are generated.
func (r *c06Run) roundTCP(ri int, rd c06Round, rest string, tcpBase int64) (bool, *c06Verdict) {
	for j := 0; j < len(rest); j++ {
		// in-flight request outcomes race with the checker here; only issue successes (no model effect on avail)
		if rest[j] == 'S' {
			r.back.OnSuccess()
		}
	}
	dl := time.Now().Add(c06Deadline)
	for !r.back.Avail() {
		if time.Now().After(dl) {
			return true, c06Inconclusive("deadline waiting for tcp recovery")
		}
		time.Sleep(100 * time.Microsecond)
	}
	r.m.recovered()
	r.class("recovered-tcp")
	if r.countOK && !waitCheckers(0, c06Deadline) {
		return true, c06Inconclusive("deadline waiting for checker exit after recovery")
	}
	// connects are completed by the kernel; give the accept loop a moment, then count
	time.Sleep(3 * time.Millisecond)
	// cumulative over the rounds: a late accept of an earlier round's connect can
	// only make the count smaller, never larger than what the rounds so far allow
	r.tcpAllowed += int64(r.m.succNum)
	if n := r.tcpN.Load(); n > r.tcpAllowed {
		return true, c06Viol("late-recovery-tcp", "round %d: %d tcp connects so far, SuccNum=%d allows %d", ri, n, r.m.succNum, r.tcpAllowed)
	}
	return false, nil
}

// c06Table is the process-wide BalTable (one per process, as in bfe); every case
// owns one cluster of it.
var c06Table *bfe_balance.BalTable

func (r *c06Run) pair(how string) (gslbConf, tableConf) {
	target := beConf{Name: "target", Addr: "127.0.0.1", Port: r.port, Weight: 1}
	other := beConf{Name: "other", Addr: "127.0.0.2", Port: r.srv.port, Weight: 1}
	other2 := beConf{Name: "other2", Addr: "127.0.0.3", Port: r.srv.port, Weight: 1}
	g := gslbConf{r.cluster: {"s0": 1, "s1": 1}}
	t := tableConf{r.cluster: {"s0": {target, other}, "s1": {other2}}}
	switch how {
	case "initial":
	case "sub-from-table":
		delete(t[r.cluster], "s0")
	case "sub-from-gslb":
		delete(g[r.cluster], "s0")
	case "cluster", "empty":
		g, t = gslbConf{}, tableConf{}
	default: // "backend"
		t[r.cluster]["s0"] = subConf{other}
	}
	return g, t
}

func (r *c06Run) reloadTable(how string) error {
	g, t := r.pair(how)
	gl, tl, err := c06Table.BalTableConfLoad(writeGslbFile(g, how), writeTableFile(t, how))
	if err != nil {
		return err
	}
	var rerr error
	if p := ev.Try(func() { rerr = c06Table.BalTableReload(gl, tl) }); p != nil {
		return fmt.Errorf("panic: %v", p)
	}
	return rerr
}

// removeByReload removes the backend through a gslb/cluster_table reload of the table.
func (r *c06Run) removeByReload(how string) {
	if how == "" {
		how = "backend"
	}
	r.class("removed-by:" + how)
	if err := r.reloadTable(how); err != nil {
		panic(err)
	}
	r.released = true
}

// afterRelease: from now on probes are answered immediately; at most `allow`
// further probes may arrive and the checker must leave.
func (r *c06Run) afterRelease(at int, tcpBase int64, allow int, ctx string) *c06Verdict {
	r.cs.setAuto()
	dl := time.Now().Add(c06Deadline)
	for {
		n, _, _ := r.cs.count()
		if n-at > allow {
			return c06Viol("checked-after-removal", "%s: %d probes arrived after the backend was removed by reload (at most %d can be under way)", ctx, n-at, allow)
		}
		if r.countOK && countCheckers() == 0 {
			break
		}
		if time.Now().After(dl) {
			return c06Inconclusive("deadline waiting for checker exit after removal")
		}
		time.Sleep(300 * time.Microsecond)
	}
	if !r.countOK {
		time.Sleep(time.Duration(4*r.sc.Interval) * time.Millisecond)
	}
	if n, _, _ := r.cs.count(); n-at > allow {
		return c06Viol("checked-after-removal", "%s: %d probes arrived after the backend was removed by reload (at most %d can be under way)", ctx, n-at, allow)
	}
	r.class("checker-left-after-removal")
	return nil
}

func c06Execute(sc c06Scenario, srv *c06Server) (v *c06Verdict, classes map[string]bool) {
	id := c06CaseSeq.Add(1)
	r := &c06Run{sc: sc, srv: srv, cs: newC06Case(), cluster: fmt.Sprintf("c%d", id), classes: map[string]bool{}}
	r.m = c06Model{failNum: sc.FailNum, succNum: sc.SuccNum, avail: true}
	path := fmt.Sprintf("/hc/%d", id)
	port := srv.port
	if sc.Schem == "tcp" {
		ln, err := net.Listen("tcp", "127.0.0.1:0")
		if err != nil {
			return c06Inconclusive("listen: " + err.Error()), r.classes
		}
		r.tcpLn = ln
		port = ln.Addr().(*net.TCPAddr).Port
		go func() {
			for {
				c, err := ln.Accept()
				if err != nil {
					return
				}
				r.tcpN.Add(1)
				c.Close()
			}
		}()
		defer ln.Close()
	}
	chk, err := loadCheckConf(checkBasic{Schem: sc.Schem, Uri: path, StatusCode: 200, FailNum: sc.FailNum, SuccNum: sc.SuccNum, CheckInterval: sc.Interval})
	if err != nil {
		return c06Inconclusive("check conf rejected: " + err.Error()), r.classes
	}
	srv.cases.Store(path, r.cs)
	defer srv.cases.Delete(path)
	c06Confs.Store(r.cluster, chk)
	defer c06Confs.Delete(r.cluster)

	r.port = port
	if err := r.reloadTable("initial"); err != nil {
		return c06Inconclusive("initial pair rejected: " + err.Error()), r.classes
	}
	if bal, err := c06Table.Lookup(r.cluster); err == nil {
		for _, sub := range bal.VerifBal2SubClusters() {
			for _, b := range sub.RR.VerifBal2Backends() {
				if b.Name == "target" {
					r.back = b
				}
			}
		}
	}
	if r.back == nil {
		return c06Inconclusive("target backend not found after the initial reload"), r.classes
	}
	r.countOK = waitCheckers(0, 5*time.Second)
	if !r.countOK {
		r.class("stale-checker-count-disabled")
	}
	defer func() {
		// leave no checker behind
		r.cs.setAuto()
		ev.Try(func() { r.reloadTable("empty") })
		waitCheckers(0, 5*time.Second)
	}()
	if v := r.checkAvail("initial"); v != nil {
		return v, r.classes
	}
	for ri, rd := range sc.Rounds {
		done, v := r.round(ri, rd)
		if v != nil || done {
			return v, r.classes
		}
	}
	return nil, r.classes
}

// ---- generation

func c06GenEvents(rt *rapid.T, label string, failNum int, mustCross bool) string {
	n := rapid.IntRange(0, 8).Draw(rt, label+"-n")
	var sb strings.Builder
	for i := 0; i < n; i++ {
		if rapid.IntRange(0, 99).Draw(rt, label+"-e") < 62 {
			sb.WriteByte('F')
		} else {
			sb.WriteByte('S')
		}
	}
	if mustCross {
		sb.WriteString(strings.Repeat("F", failNum))
		// outcomes of requests still in flight when the backend goes out of rotation
		m := rapid.IntRange(0, 3).Draw(rt, label+"-tail")
		for i := 0; i < m; i++ {
			sb.WriteByte("FS"[rapid.IntRange(0, 1).Draw(rt, label+"-te")])
		}
	}
	return sb.String()
}

func c06GenScript(rt *rapid.T, label string, succNum int) string {
	n := rapid.IntRange(0, 7).Draw(rt, label+"-n")
	var sb strings.Builder
	for i := 0; i < n; i++ {
		if rapid.IntRange(0, 99).Draw(rt, label+"-o") < 60 {
			sb.WriteByte('P')
		} else {
			sb.WriteByte('F')
		}
	}
	sb.WriteString(strings.Repeat("P", succNum))
	return sb.String()
}

func c06Gen(rt *rapid.T) c06Scenario {
	sc := c06Scenario{
		FailNum:  rapid.IntRange(1, 5).Draw(rt, "FailNum"),
		SuccNum:  rapid.IntRange(1, 4).Draw(rt, "SuccNum"),
		Interval: rapid.IntRange(1, 3).Draw(rt, "CheckInterval"),
		Schem:    "http",
	}
	if rapid.IntRange(0, 9).Draw(rt, "schem") == 0 {
		sc.Schem = "tcp"
	}
	nr := rapid.IntRange(1, 2).Draw(rt, "rounds")
	for ri := 0; ri < nr; ri++ {
		l := fmt.Sprintf("r%d", ri)
		rd := c06Round{}
		rd.Events = c06GenEvents(rt, l+"-ev", sc.FailNum, rapid.IntRange(0, 9).Draw(rt, l+"-cross") > 0)
		if rapid.IntRange(0, 3).Draw(rt, l+"-conc") == 0 {
			rd.ConcN = rapid.IntRange(2, 8).Draw(rt, l+"-concn")
		}
		if sc.Schem == "tcp" {
			rd.ConcN = 0
			rd.Script = strings.Repeat("P", sc.SuccNum)
		} else {
			rd.Script = c06GenScript(rt, l+"-sc", sc.SuccNum)
			R := c06RecoveryIndex(rd.Script, sc.SuccNum)
			ni := rapid.IntRange(0, 2).Draw(rt, l+"-ninj")
			for i := 0; i < ni; i++ {
				rd.Inject = append(rd.Inject, c06Inject{At: rapid.IntRange(1, R).Draw(rt, l+"-injat"), Ev: string("FS"[rapid.IntRange(0, 1).Draw(rt, l+"-injev")])})
			}
			switch rapid.IntRange(0, 9).Draw(rt, l+"-release") {
			case 0:
				rd.Release = fmt.Sprintf("held:%d", rapid.IntRange(1, R).Draw(rt, l+"-relat"))
			case 1:
				if R > 1 {
					rd.Release = fmt.Sprintf("after:%d", rapid.IntRange(1, R-1).Draw(rt, l+"-relat"))
				}
			case 2:
				rd.Release = "avail"
			}
			if rd.Release != "" {
				rd.How = rapid.SampledFrom([]string{"backend", "sub-from-table", "sub-from-gslb", "cluster", "sub-from-table"}).Draw(rt, l+"-how")
			}
		}
		sc.Rounds = append(sc.Rounds, rd)
		if rd.Release != "" {
			break
		}
	}
	return sc
}

func c06NonTrivial(sc c06Scenario) bool {
	for _, rd := range sc.Rounds {
		if rd.ConcN > 1 {
			return true
		}
		// a fail after >=1 pass inside the part of the script that is consumed
		R := c06RecoveryIndex(rd.Script, sc.SuccNum)
		if i := strings.Index(rd.Script, "PF"); i >= 0 && i+1 < R {
			return true
		}
	}
	return false
}

func c06Classes(sc c06Scenario) []string {
	cl := []string{"schem:" + sc.Schem, fmt.Sprintf("FailNum:%d", sc.FailNum), fmt.Sprintf("SuccNum:%d", sc.SuccNum)}
	for _, rd := range sc.Rounds {
		if strings.Contains(rd.Events, "FS") {
			cl = append(cl, "failure-run-reset-by-success")
		}
		R := c06RecoveryIndex(rd.Script, sc.SuccNum)
		if i := strings.Index(rd.Script, "PF"); i >= 0 && i+1 < R {
			cl = append(cl, "pass-run-reset-by-fail")
		}
		if rd.Release != "" {
			cl = append(cl, "release:"+strings.SplitN(rd.Release, ":", 2)[0])
		}
	}
	if len(sc.Rounds) > 1 {
		cl = append(cl, "two-rounds")
	}
	return cl
}

func c06Check(tb ev.TB, rec *ev.Rec, srv *c06Server, sc c06Scenario, origin string) (inconclusive bool) {
	fpb, _ := json.Marshal(sc)
	v, run := c06Execute(sc, srv)
	if v != nil && v.inconclusive != "" {
		rec.Excluded("inconclusive:" + v.inconclusive)
		return true
	}
	cl := append(c06Classes(sc), origin)
	for c := range run {
		cl = append(cl, c)
	}
	rec.Case(string(fpb), c06NonTrivial(sc), cl...)
	if v != nil {
		if !rec.Fail(tb, v.key, sc, "%s", v.msg) {
			rec.Excluded("behind-known-finding:" + v.key)
		}
	}
	return false
}

func TestC06(t *testing.T) {
	rec := ev.New("C06", "scenarios: FailNum 1..5, SuccNum 1..4, CheckInterval 1..3 ms, 1..2 rounds of request outcomes (S/F, optional concurrent crossing by 2..8 goroutines, outcomes of in-flight requests while out of rotation), scripted probe outcomes served by a harness server that holds every probe, removal by reload while in rotation / while a probe is held / between probes; exhaustive sweeps of short outcome sequences and probe scripts. non-trivial: the consumed part of a probe script contains a fail after >=1 pass (succNum reset) or the crossing is concurrent. distinct by scenario encoding")
	c06Table = bfe_balance.NewBalTable(c06Fetch) // once per process, as in bfe (installs the fetcher)
	srv := newC06Server(t)
	defer srv.ln.Close()
	rec.Set("race_detector", raceEnabled)

	// exhaustive sweeps (fault enumeration): all request-outcome sequences up to
	// length L for FailNum 1..3, and all probe scripts up to length M for SuccNum 1..3
	L, M := ev.N(5, 7), ev.N(4, 6)
	var seqs func(prefix string, n int, alphabet string, out *[]string)
	seqs = func(prefix string, n int, alphabet string, out *[]string) {
		*out = append(*out, prefix)
		if len(prefix) == n {
			return
		}
		for i := 0; i < len(alphabet); i++ {
			seqs(prefix+string(alphabet[i]), n, alphabet, out)
		}
	}
	if os := shardOf(); os == 0 {
		var evs, scripts []string
		seqs("", L, "FS", &evs)
		seqs("", M, "PF", &scripts)
		for fn := 1; fn <= 3; fn++ {
			for _, e := range evs {
				c06Check(t, rec, srv, c06Scenario{FailNum: fn, SuccNum: 1, Interval: 1, Schem: "http", Rounds: []c06Round{{Events: e, Script: "P"}, {Events: e, Script: "P"}}}, "sweep:request-outcomes")
			}
		}
		for sn := 1; sn <= 3; sn++ {
			for _, s := range scripts {
				c06Check(t, rec, srv, c06Scenario{FailNum: 1, SuccNum: sn, Interval: 1, Schem: "http", Rounds: []c06Round{{Events: "F", Script: s + strings.Repeat("P", sn)}}}, "sweep:probe-scripts")
			}
		}
		rec.Set("exhaustive_request_outcomes_len", int64(L))
		rec.Set("exhaustive_probe_scripts_len", int64(M))
	}

	defer c06ProxyPart(t, rec) // last: see there
	rapid.Check(t, func(rt *rapid.T) {
		sc := c06Gen(rt)
		rec.Sample(sc)
		if c06Check(rt, rec, srv, sc, "generated") {
			rt.Skip("inconclusive (deadline)")
		}
	})
}

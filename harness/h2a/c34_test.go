package h2a

// C34: HTTP/2 outbound DATA respects peer windows and frame order.
//
// Oracle: client-side ledger (RFC 7540 6.9, 6.5.2, 5.1). The client knows every credit it
// has ever granted: connection window = 65535 + WINDOW_UPDATE(0) sent - DATA received;
// stream window = SETTINGS_INITIAL_WINDOW_SIZE + WINDOW_UPDATE(stream) sent - DATA
// received. A SETTINGS value the client has sent may be in force at the server from the
// moment it was sent until a later one is acknowledged, so the ledger uses the largest
// value among {last acknowledged, all sent later} - an upper bound on what the server
// may legally use. Credits are entered in the ledger before the frame is written. Every
// DATA frame must fit the stream window, the connection window and the max frame size;
// the concatenation per stream must be the handler's bytes in order; no frame may follow
// END_STREAM, the server's own RST_STREAM, or the client's RST_STREAM once a PING sent
// after it has been acknowledged.

import (
	"fmt"
	"os"
	"runtime"
	"strings"
	"testing"

	xh2 "golang.org/x/net/http2"
	"pgregory.net/rapid"

	"verif/harness/internal/ev"
)

type c34Snap struct{ iws, mfs int64 }

type c34Stream struct {
	idx          int
	id           uint32
	total        int
	credits      int64
	recv         int64
	gotHeaders   bool
	ended        bool
	srvRST       bool
	clientReset  bool
	resetBarrier bool
	// maybeNeg: the client lowered SETTINGS_INITIAL_WINDOW_SIZE while the stream was live,
	// so the server-side send window may be negative; wuAfterDec: a WINDOW_UPDATE for the
	// stream was sent after that. See negWindowNote.
	maybeNeg   bool
	wuAfterDec bool
	corrupt    string // first content mismatch seen on the stream
	h          *hctl
}

// c34KeyInflight: when a stream is closed (client RST_STREAM, or the server's own reset)
// while one of its DATA frames is still on its way through the writer goroutine, the
// handler is released at once, returns, and its responseWriterState - including the 4 KiB
// bufio buffer the in-flight frame still points into - goes back to
// responseWriterStatePool; the handler of the next request on any connection takes it and
// overwrites the buffer, so the in-flight frame is sent with bytes of another response.
// Timing-dependent (the race detector reports it as a data race between
// (*Framer).WriteDataPadded and bufio.(*Writer).Write).
const c34KeyInflight = "inflight-data-frame-of-reset-stream-carries-other-response"

// negWindowNote: bfe_http2 flow.add computes "(1<<31-1) - f.n" in int32, which overflows
// whenever the window f.n is negative (legal after the peer lowered
// SETTINGS_INITIAL_WINDOW_SIZE, RFC 7540 6.9.2). Every WINDOW_UPDATE for such a stream is
// then answered with RST_STREAM(FLOW_CONTROL_ERROR) and any further SETTINGS carrying
// INITIAL_WINDOW_SIZE with GOAWAY(FLOW_CONTROL_ERROR). C34 is a safety statement about the DATA the server sends
// and says nothing about accepting credit, so these two reactions are tolerated (and
// counted as classes) instead of being reported under C34; everything the server sends
// before and after is still checked.
const negWindowNote = "see c34_test.go"

type c34Conn struct {
	r       *rig
	connWin int64
	snaps   []c34Snap
	applied int // index of the newest snap known to be applied (PING barrier)
	streams []*c34Stream
	byID    map[uint32]*c34Stream
	binding map[string]bool
	trace   []string
	// incWithNeg: a further INITIAL_WINDOW_SIZE setting was sent while a live stream may
	// have had a negative window (GOAWAY(FLOW_CONTROL_ERROR) tolerated, see negWindowNote)
	incWithNeg     bool
	negWURejected  bool
	negIncRejected bool
}

func (c *c34Conn) logf(format string, args ...any) {
	c.trace = append(c.trace, fmt.Sprintf(format, args...))
}

func (c *c34Conn) upper() (iws, mfs int64) {
	// The server coalesces SETTINGS acknowledgements (one ACK may cover several SETTINGS
	// frames), so k acks only prove that the first k SETTINGS frames were applied; a PING
	// acknowledgement proves that everything sent before the PING was applied.
	k := c.r.settingsAck - 1
	if c.applied > k {
		k = c.applied
	}
	if k < 0 {
		// nothing acknowledged yet: protocol defaults may still be in force
		iws, mfs = 65535, 16384
		k = 0
	}
	for _, s := range c.snaps[k:] {
		if s.iws > iws {
			iws = s.iws
		}
		if s.mfs > mfs {
			mfs = s.mfs
		}
	}
	return
}

func (c *c34Conn) onFrame(e *fev) {
	if e.Stream == 0 {
		if e.Type == xh2.FrameGoAway {
			if c.incWithNeg && e.Code == uint32(xh2.ErrCodeFlowControl) {
				c.negIncRejected = true
			} else {
				c.r.violate("unexpected-goaway", "GOAWAY code %d", e.Code)
			}
		}
		return
	}
	s := c.byID[e.Stream]
	if s == nil {
		c.r.violate("frame-on-unknown-stream", "%v", e)
		return
	}
	if s.ended && !s.srvRST && e.Type == xh2.FrameRSTStream && e.Code == uint32(xh2.ErrCodeFlowControl) && s.maybeNeg && s.wuAfterDec {
		// negWindowNote: the WINDOW_UPDATE reached the server between its writing of the
		// END_STREAM frame and its bookkeeping for it
		s.srvRST = true
		c.negWURejected = true
		return
	}
	switch {
	case s.ended:
		c.r.violate("frame-after-end-stream", "stream %d: %v received after END_STREAM", s.id, e)
		return
	case s.srvRST:
		c.r.violate("frame-after-rst", "stream %d: %v received after the server's RST_STREAM", s.id, e)
		return
	case s.resetBarrier:
		c.r.violate("frame-after-client-reset", "stream %d: %v received after the client's RST_STREAM had been processed (PING barrier)", s.id, e)
		return
	}
	switch e.Type {
	case xh2.FrameHeaders:
		if s.gotHeaders {
			c.r.violate("second-headers", "stream %d: unexpected second HEADERS %v", s.id, e)
		}
		s.gotHeaders = true
		if e.End {
			s.ended = true
		}
	case xh2.FrameData:
		if !s.gotHeaders {
			c.r.violate("data-before-headers", "stream %d: %v", s.id, e)
		}
		iws, mfs := c.upper()
		l := int64(e.Len)
		sw := iws + s.credits - s.recv
		if l > mfs {
			c.r.violate("data-exceeds-max-frame-size", "stream %d: DATA length %d > SETTINGS_MAX_FRAME_SIZE %d", s.id, l, mfs)
		}
		if l > 0 && l > sw {
			c.r.violate("data-exceeds-stream-window", "stream %d: DATA length %d > stream window %d (initial %d + credits %d - received %d)", s.id, l, sw, iws, s.credits, s.recv)
		}
		if l > 0 && l > c.connWin {
			c.r.violate("data-exceeds-conn-window", "stream %d: DATA length %d > connection window %d", s.id, l, c.connWin)
		}
		if l > 0 && (l == sw || l == c.connWin) {
			c.binding["window"] = true
		}
		if l == mfs {
			c.binding["max-frame-size"] = true
		}
		if len(e.Data) != e.Len {
			c.r.violate("server-padded-data", "stream %d: unexpected padding", s.id)
		}
		off := int(s.recv)
		// A content mismatch is judged when the fate of the stream is known (see
		// c34KeyInflight): recorded here, classified at END_STREAM / reset / end of case.
		if off+len(e.Data) > s.total {
			if s.corrupt == "" {
				s.corrupt = fmt.Sprintf("received %d octets, handler wrote %d", off+len(e.Data), s.total)
			}
		} else if s.corrupt == "" {
			for i, b := range e.Data {
				if b != pat(s.idx, off+i) {
					s.corrupt = fmt.Sprintf("octet at body offset %d (frame %v) differs from what the handler wrote there", off+i, e)
					break
				}
			}
		}
		if s.corrupt != "" && e.End {
			c.r.violate("data-out-of-order", "stream %d: %s", s.id, s.corrupt)
		}
		s.recv += l
		c.connWin -= l
		if e.End {
			s.ended = true
		}
	case xh2.FrameRSTStream:
		s.srvRST = true
		if s.maybeNeg && s.wuAfterDec && e.Code == uint32(xh2.ErrCodeFlowControl) {
			c.negWURejected = true
		} else {
			c.r.violate("unexpected-rst", "stream %d: RST_STREAM code %d", s.id, e.Code)
		}
	default:
		c.r.violate("unexpected-frame", "stream %d: %v", s.id, e)
	}
}

func c34Run(rt *rapid.T, rec *ev.Rec) {
	c := &c34Conn{connWin: 65535, byID: map[uint32]*c34Stream{}, binding: map[string]bool{}}
	classes := map[string]bool{}
	snap := c34Snap{65535, 16384}
	var init []xh2.Setting
	switch rapid.IntRange(0, 5).Draw(rt, "iwsKind") {
	case 0:
		snap.iws = 0
		classes["iws-zero"] = true
	case 1:
		snap.iws = int64(rapid.IntRange(1, 300).Draw(rt, "iws"))
		classes["iws-tiny"] = true
	case 2:
		snap.iws = int64(rapid.IntRange(1000, 30000).Draw(rt, "iws"))
	case 3:
		// protocol default, not sent
	case 4, 5:
		snap.iws = int64(rapid.IntRange(70000, 400000).Draw(rt, "iws"))
		classes["iws-large"] = true
	}
	// dup returns the setting preceded by 0..2 earlier occurrences of the same identifier
	// with other values: RFC 7540 6.5.3 - the values of one SETTINGS frame are processed in
	// the order they appear, so the last occurrence is the one in force afterwards.
	dup := func(id xh2.SettingID, final int64, lo, hi int) []xh2.Setting {
		var out []xh2.Setting
		if rapid.IntRange(0, 2).Draw(rt, "dupSetting") == 0 {
			classes["duplicate-setting-id"] = true
			for n := rapid.IntRange(1, 2).Draw(rt, "nDup"); n > 0; n-- {
				out = append(out, xh2.Setting{ID: id, Val: uint32(rapid.IntRange(lo, hi).Draw(rt, "dupVal"))})
			}
		}
		return append(out, xh2.Setting{ID: id, Val: uint32(final)})
	}
	descr := func(ss []xh2.Setting) string {
		var d []string
		for _, x := range ss {
			d = append(d, fmt.Sprintf("%v=%d", x.ID, x.Val))
		}
		return strings.Join(d, ",")
	}
	if snap.iws != 65535 {
		init = append(init, dup(xh2.SettingInitialWindowSize, snap.iws, 0, 400000)...)
	}
	if rapid.IntRange(0, 2).Draw(rt, "mfsKind") == 0 {
		snap.mfs = int64(rapid.IntRange(16384, 1<<20).Draw(rt, "mfs"))
		init = append(init, xh2.Setting{ID: xh2.SettingMaxFrameSize, Val: uint32(snap.mfs)})
		classes["mfs-set"] = true
	}
	c.snaps = []c34Snap{snap}
	c.logf("client SETTINGS initial_window_size=%d max_frame_size=%d [%s]", snap.iws, snap.mfs, descr(init))

	// handler plans
	nStreams := rapid.IntRange(1, 6).Draw(rt, "nStreams")
	type plan struct {
		ops   []hop
		total int
		desc  string
	}
	plans := make([]plan, nStreams)
	for i := range plans {
		var p plan
		nw := rapid.IntRange(1, 6).Draw(rt, "nWrites")
		var d []string
		for j := 0; j < nw; j++ {
			var n int
			switch rapid.IntRange(0, 5).Draw(rt, "wKind") {
			case 0:
				n = rapid.IntRange(0, 100).Draw(rt, "w")
			case 1, 2:
				n = rapid.IntRange(100, 9000).Draw(rt, "w")
			case 3, 4:
				n = rapid.IntRange(16000, 70000).Draw(rt, "w")
			case 5:
				n = rapid.IntRange(4090, 4100).Draw(rt, "w") // around the 4 KiB handler buffer
			}
			p.ops = append(p.ops, hop{Kind: opWrite, Data: patBytes(i, p.total, n)})
			p.total += n
			d = append(d, fmt.Sprint(n))
			if rapid.IntRange(0, 2).Draw(rt, "flush") == 0 {
				p.ops = append(p.ops, hop{Kind: opFlush})
				d = append(d, "F")
			}
		}
		p.desc = strings.Join(d, ",")
		plans[i] = p
	}

	r, ok := newRig(nil, init, func(e *fev) { c.onFrame(e) })
	c.r = r
	if !ok {
		rec.Excluded("setup-incomplete")
		return
	}
	defer r.close()
	w := func() any { return map[string]any{"steps": c.trace} }
	failed, inconclusive := false, ""
	fail := func(key, format string, args ...any) {
		failed = true
		rec.Fail(rt, key, w(), format, args...)
	}
	checkViol := func() bool {
		if v := r.firstViolation(); v != nil {
			fail(v.key, "%s", v.msg)
			return true
		}
		return false
	}
	died := func() {
		if r.wasTimedOut() {
			inconclusive = "watchdog"
			if os.Getenv("H2A_DEBUG") != "" {
				buf := make([]byte, 1<<20)
				fmt.Printf("GOROUTINES\n%s\n", buf[:runtime.Stack(buf, true)])
			}
			return
		}
		if checkViol() {
			return
		}
		// see negWindowNote: after such a SETTINGS frame the server sends GOAWAY and closes
		// within 250 ms; under load the close can overtake the GOAWAY frame
		tolerated := false
		r.locked(func() { tolerated = c.negIncRejected || c.incWithNeg })
		if tolerated {
			inconclusive = "goaway-on-window-increase-with-negative-stream-window"
			return
		}
		var rdErr error
		r.locked(func() { rdErr = r.rdErr })
		fail("conn-closed-unexpectedly", "connection ended while the script was legal: %v", rdErr)
	}
	barrier := func() bool {
		idx := 0
		r.locked(func() { idx = len(c.snaps) - 1 })
		if r.ping() {
			r.locked(func() {
				if idx > c.applied {
					c.applied = idx
				}
			})
			return true
		}
		died()
		return false
	}
	open := func() {
		i := len(c.streams)
		s := &c34Stream{idx: i, id: uint32(2*i + 1), total: plans[i].total}
		path := fmt.Sprintf("/s%d", i)
		s.h = r.expectHandler(path, plans[i].ops)
		r.locked(func() {
			c.streams = append(c.streams, s)
			c.byID[s.id] = s
		})
		c.logf("GET stream %d: handler writes [%s] (%d octets)", s.id, plans[i].desc, s.total)
		if r.writeHeaders(s.id, reqFields("GET", path), true) != nil {
			died()
		}
	}
	sendSettings := func(ns c34Snap, ss ...xh2.Setting) {
		r.locked(func() { c.snaps = append(c.snaps, ns) })
		snap = ns
		if r.writeSettings(ss...) != nil {
			died()
		}
	}

	open()
	nSteps := rapid.IntRange(0, 25).Draw(rt, "nSteps")
	for step := 0; step < nSteps && !failed && inconclusive == ""; step++ {
		if checkViol() {
			break
		}
		var live []*c34Stream
		r.locked(func() {
			for _, s := range c.streams {
				if !s.ended && !s.clientReset && !s.srvRST {
					live = append(live, s)
				}
			}
		})
		type action struct {
			name string
			w    int
		}
		acts := []action{{"wu-conn", 3}, {"iws", 2}, {"mfs", 1}, {"ping", 1}}
		if len(c.streams) < nStreams {
			acts = append(acts, action{"open", 4})
		}
		if len(live) > 0 {
			acts = append(acts, action{"wu-stream", 5}, action{"rst", 1})
		}
		tot := 0
		for _, a := range acts {
			tot += a.w
		}
		pick := rapid.IntRange(0, tot-1).Draw(rt, "act")
		name := ""
		for _, a := range acts {
			if pick < a.w {
				name = a.name
				break
			}
			pick -= a.w
		}
		incDraw := func() uint32 {
			switch rapid.IntRange(0, 3).Draw(rt, "incKind") {
			case 0:
				return uint32(rapid.IntRange(1, 50).Draw(rt, "inc"))
			case 1:
				return uint32(rapid.IntRange(50, 5000).Draw(rt, "inc"))
			default:
				return uint32(rapid.IntRange(5000, 80000).Draw(rt, "inc"))
			}
		}
		switch name {
		case "open":
			open()
		case "wu-conn":
			inc := incDraw()
			c.logf("WINDOW_UPDATE(0,+%d)", inc)
			r.locked(func() { c.connWin += int64(inc) })
			if r.writeWindowUpdate(0, inc) != nil {
				died()
			}
		case "wu-stream":
			s := live[rapid.IntRange(0, len(live)-1).Draw(rt, "stream")]
			inc := incDraw()
			c.logf("WINDOW_UPDATE(%d,+%d)", s.id, inc)
			r.locked(func() {
				s.credits += int64(inc)
				if s.maybeNeg {
					s.wuAfterDec = true
				}
			})
			if r.writeWindowUpdate(s.id, inc) != nil {
				died()
			}
		case "iws":
			ns := snap
			switch rapid.IntRange(0, 3).Draw(rt, "iwsChange") {
			case 0:
				ns.iws = 0
			case 1:
				ns.iws = int64(rapid.IntRange(0, int(snap.iws)).Draw(rt, "iws")) // decrease
				classes["iws-decrease"] = true
			default:
				ns.iws = snap.iws + int64(rapid.IntRange(1, 60000).Draw(rt, "iwsUp"))
				classes["iws-increase"] = true
			}
			if ns.iws > 1000000 {
				ns.iws = 1000000
			}
			r.locked(func() {
				for _, s := range c.streams {
					if s.ended || s.clientReset || s.srvRST {
						continue
					}
					if s.maybeNeg {
						// any INITIAL_WINDOW_SIZE (even an unchanged value) hits flow.add
						c.incWithNeg = true
					}
					if ns.iws < snap.iws {
						s.maybeNeg = true
					}
				}
			})
			ss := dup(xh2.SettingInitialWindowSize, ns.iws, 0, 400000)
			c.logf("SETTINGS [%s] (initial_window_size=%d in force afterwards)", descr(ss), ns.iws)
			sendSettings(ns, ss...)
		case "mfs":
			ns := snap
			ns.mfs = int64(rapid.IntRange(16384, 1<<20).Draw(rt, "mfs"))
			if rapid.IntRange(0, 2).Draw(rt, "mfsMin") == 0 {
				ns.mfs = 16384
			}
			classes["mfs-change"] = true
			ss := dup(xh2.SettingMaxFrameSize, ns.mfs, 16384, 1<<20)
			c.logf("SETTINGS [%s] (max_frame_size=%d in force afterwards)", descr(ss), ns.mfs)
			sendSettings(ns, ss...)
		case "ping":
			c.logf("PING barrier")
			barrier()
		case "rst":
			s := live[rapid.IntRange(0, len(live)-1).Draw(rt, "stream")]
			var recv int64
			r.locked(func() { recv = s.recv; s.clientReset = true })
			c.logf("RST_STREAM(%d) after %d of %d octets, then PING barrier", s.id, recv, s.total)
			if r.writeRST(s.id, xh2.ErrCodeCancel) != nil {
				died()
				break
			}
			if !barrier() {
				break
			}
			r.locked(func() {
				if !s.ended {
					s.resetBarrier = true
					if s.recv > 0 && s.recv < int64(s.total) {
						classes["reset-mid-body"] = true
					}
				}
			})
			classes["client-reset"] = true
		}
	}
	// drain: open the remaining streams, make sure all SETTINGS are applied, grant what is needed
	for len(c.streams) < nStreams && !failed && inconclusive == "" {
		open()
	}
	if !failed && inconclusive == "" && !checkViol() {
		c.logf("drain: grant all credit needed and wait for END_STREAM on every live stream")
		barrier() // every SETTINGS frame sent so far is applied once the PING is acknowledged
	}
	if !failed && inconclusive == "" {
		type grant struct {
			id  uint32
			inc int64
		}
		var grants []grant
		r.locked(func() {
			for _, s := range c.streams {
				if s.ended || s.clientReset || s.srvRST {
					continue
				}
				if s.maybeNeg {
					s.wuAfterDec = true
				}
				need := int64(s.total) - s.recv - (snap.iws + s.credits - s.recv)
				if need > 0 {
					grants = append(grants, grant{s.id, need})
					s.credits += need
				}
			}
			c.connWin += 1 << 30
		})
		// The connection grant is deliberately huge: the server is known to consume
		// connection-level send window for frames of reset streams that it then drops
		// (not part of C34), which an exact grant would turn into a stall.
		if r.writeWindowUpdate(0, 1<<30) != nil {
			died()
		}
		for _, g := range grants {
			if failed || inconclusive != "" {
				break
			}
			if r.writeWindowUpdate(g.id, uint32(g.inc)) != nil {
				died()
			}
		}
		if !failed && inconclusive == "" {
			done := r.waitFor(func() bool {
				if len(r.viol) > 0 {
					return true
				}
				for _, s := range c.streams {
					if !s.ended && !s.clientReset && !s.srvRST {
						return false
					}
				}
				return true
			})
			if !done {
				if r.wasTimedOut() {
					inconclusive = "watchdog-in-drain"
				} else {
					died()
				}
			}
		}
	}
	if !failed && inconclusive == "" && !checkViol() {
		// one more barrier so that frames following END_STREAM would be seen
		if barrier() && !checkViol() {
			r.locked(func() {
				for _, s := range c.streams {
					if s.clientReset || s.srvRST {
						continue
					}
					if s.recv != int64(s.total) {
						c.r.violate("body-truncated", "stream %d ended after %d of %d octets", s.id, s.recv, s.total)
					}
				}
			})
			checkViol()
		}
	}
	if !failed {
		var corruptReset *c34Stream
		var corruptLive *c34Stream
		r.locked(func() {
			for _, s := range c.streams {
				if s.corrupt == "" {
					continue
				}
				if s.clientReset || s.srvRST {
					corruptReset = s
				} else if s.ended || inconclusive == "" {
					corruptLive = s
				}
			}
		})
		if corruptLive != nil {
			fail("data-out-of-order", "stream %d: %s", corruptLive.id, corruptLive.corrupt)
		} else if corruptReset != nil {
			classes["corrupt-inflight-frame-on-reset-stream"] = true
			rec.Fail(rt, c34KeyInflight, w(), "stream %d (reset while a DATA frame was in flight): %s", corruptReset.id, corruptReset.corrupt)
		}
	}
	if inconclusive != "" {
		rec.Excluded("inconclusive-" + inconclusive)
		if os.Getenv("H2A_DEBUG") != "" {
			fmt.Printf("INCONCLUSIVE %s\n  %s\n", inconclusive, strings.Join(c.trace, "\n  "))
			r.locked(func() {
				for _, s := range c.streams {
					fmt.Printf("  stream %d total=%d recv=%d credits=%d ended=%v clientReset=%v srvRST=%v maybeNeg=%v\n", s.id, s.total, s.recv, s.credits, s.ended, s.clientReset, s.srvRST, s.maybeNeg)
				}
			})
		}
	}
	var cl []string
	r.locked(func() {
		for k := range c.binding {
			classes["binding-"+k] = true
		}
		if c.negWURejected {
			classes["tolerated-rst-on-window-update-for-negative-window"] = true
		}
		if c.negIncRejected {
			classes["tolerated-goaway-on-window-increase-with-negative-window"] = true
		}
	})
	for k := range classes {
		cl = append(cl, k)
	}
	cl = append(cl, fmt.Sprintf("streams-%d", nStreams))
	nt := classes["binding-window"] || classes["binding-max-frame-size"]
	rec.Case(strings.Join(c.trace, "|"), nt, cl...)
	rec.Sample(map[string]any{"steps": c.trace})
}

func TestC34(t *testing.T) {
	rec := ev.New("C34", "scripts against ServeConn over an in-memory connection: client SETTINGS initial_window_size in {0, 1..300, 1000..30000, default, 70000..400000} and max_frame_size 16384..1Mi, 1..6 concurrent GET streams whose handlers write 1..6 chunks of 0..70000 octets with optional flushes, up to 25 steps of WINDOW_UPDATE(conn/stream) in generated increments, SETTINGS changes (window up/down/zero, frame size), RST_STREAM mid-body + PING barrier, then a drain. non-trivial: >=1 DATA frame whose length equals the stream/connection window or the max frame size at that moment (a write had to be split); distinct by the full step trace")
	rapid.Check(t, func(rt *rapid.T) { c34Run(rt, rec) })
}

package h2a

// Development aid, not a registered check (runs only with H2A_STRESS=<iterations>): tries
// to provoke the timing-dependent defect c34KeyInflight by resetting each stream as soon
// as its first DATA frame arrives and immediately starting the next request, whose handler
// then takes the recycled responseWriterState of the previous one.

import (
	"fmt"
	"os"
	"strconv"
	"testing"

	xh2 "golang.org/x/net/http2"
)

func TestC34InflightStress(t *testing.T) {
	iters, _ := strconv.Atoi(os.Getenv("H2A_STRESS"))
	if iters <= 0 {
		t.Skip("set H2A_STRESS=<iterations>")
	}
	type st struct {
		recv    int
		corrupt string
	}
	streams := map[uint32]*st{}
	var r *rig
	r, ok := newRig(nil, []xh2.Setting{{ID: xh2.SettingInitialWindowSize, Val: 1 << 20}}, func(e *fev) {
		if e.Type != xh2.FrameData {
			return
		}
		s := streams[e.Stream]
		if s == nil {
			return
		}
		idx := int(e.Stream / 2)
		for i, b := range e.Data {
			if b != pat(idx, s.recv+i) && s.corrupt == "" {
				s.corrupt = fmt.Sprintf("stream %d offset %d: got %#x want %#x (pattern of next stream would be %#x)", e.Stream, s.recv+i, b, pat(idx, s.recv+i), pat(idx+1, 0))
			}
		}
		s.recv += len(e.Data)
	})
	if !ok {
		t.Skip("setup")
	}
	defer r.close()
	r.writeWindowUpdate(0, 1<<30)
	bad := 0
	for i := 0; i < iters; i++ {
		id := uint32(2*i + 1)
		path := fmt.Sprintf("/x%d", i)
		var ops []hop
		for j := 0; j < 6; j++ {
			ops = append(ops, hop{Kind: opWrite, Data: patBytes(i, j*4096, 4096)})
		}
		s := &st{}
		r.locked(func() { streams[id] = s })
		r.expectHandler(path, ops)
		if r.writeHeaders(id, reqFields("GET", path), true) != nil {
			t.Fatalf("conn died at %d", i)
		}
		if !r.waitFor(func() bool { return s.recv > 0 }) {
			t.Fatalf("no data at %d", i)
		}
		r.writeRST(id, xh2.ErrCodeCancel)
	}
	r.ping()
	r.locked(func() {
		for _, s := range streams {
			if s.corrupt != "" {
				bad++
				if bad < 4 {
					t.Logf("CORRUPT %s", s.corrupt)
				}
			}
		}
	})
	t.Logf("iterations=%d corrupted streams=%d", iters, bad)
	if bad > 0 {
		t.Fail()
	}
}

package h2a

// C33: HTTP/2 inbound flow control is enforced and replenished.
//
// Oracle: a client-side window ledger written from RFC 7540 section 6.9. The client
// starts with the advertised windows (connection 65535, stream = the server's
// SETTINGS_INITIAL_WINDOW_SIZE), deducts the whole DATA payload length (pad length octet
// and padding included) when it sends, and adds WINDOW_UPDATE increments when it
// receives them.
//   (1) a DATA frame that overdraws the stream or connection window must be answered by
//       RST_STREAM/GOAWAY with FLOW_CONTROL_ERROR and its octets never reach the handler;
//       a frame that fits must not be answered with FLOW_CONTROL_ERROR;
//   (2) a window never exceeds its initial value (credit <= octets sent);
//   (3) after the handler has read k octets the windows are re-opened by k plus all
//       padding: stream window == initial - (octets buffered unread);
//   (4) no stall: at a barrier the connection window equals its initial value minus the
//       octets still buffered unread in open streams; once all streams are closed it is
//       back to the initial value.

import (
	"bytes"
	"fmt"
	"strings"
	"testing"

	"github.com/bfenetworks/bfe/bfe_http2"
	xh2 "golang.org/x/net/http2"
	"pgregory.net/rapid"

	"verif/harness/internal/ev"
)

const (
	c33KeyUnread     = "conn-window-leak-unread-at-stream-close"
	c33KeyOverCL     = "conn-window-leak-data-beyond-content-length"
	c33KeyBodyClosed = "conn-window-leak-data-after-body-close"
)

type c33Stream struct {
	idx         int
	id          uint32
	h           *hctl
	declCL      int64
	sendWin     int64 // client's view of the stream send window
	sent        int   // accepted data octets (pattern offset)
	read        int   // octets the handler has read
	clientEnded bool
	clientReset bool
	srvClosed   bool // the server has closed the stream (and a barrier has passed)
	handlerGone bool
	bodyClosed  bool
	overdrawn   bool
	expectRST   map[uint32]bool // RST codes that are explained by the script
	rst         []uint32
	gotEnd      bool
	wuAfterEnd  bool
}

func (s *c33Stream) unread() int { return s.sent - s.read }

type c33Conn struct {
	r         *rig
	connInit  int64
	isw       int64
	connWin   int64
	streams   []*c33Stream
	byID      map[uint32]*c33Stream
	overdrawn bool
	leak      map[string]int64
	trace     []string
	classes   map[string]bool
}

func (c *c33Conn) onFrame(e *fev) {
	switch e.Type {
	case xh2.FrameWindowUpdate:
		if e.Stream == 0 {
			c.connWin += int64(e.Inc)
			if c.connWin > c.connInit {
				c.r.violate("conn-window-overcredit", "connection window %d exceeds its initial value %d after WINDOW_UPDATE +%d", c.connWin, c.connInit, e.Inc)
			}
			return
		}
		if s := c.byID[e.Stream]; s != nil {
			s.sendWin += int64(e.Inc)
			if s.sendWin > c.isw {
				c.r.violate("stream-window-overcredit", "stream %d window %d exceeds its initial value %d after WINDOW_UPDATE +%d", e.Stream, s.sendWin, c.isw, e.Inc)
			}
		}
	case xh2.FrameRSTStream:
		if s := c.byID[e.Stream]; s != nil {
			s.rst = append(s.rst, e.Code)
			if !s.expectRST[e.Code] {
				key := "unexpected-rst"
				if e.Code == uint32(xh2.ErrCodeFlowControl) {
					key = "spurious-flow-control-error"
				}
				c.r.violate(key, "stream %d: RST_STREAM code %d not explained by the script", e.Stream, e.Code)
			}
		}
	case xh2.FrameHeaders, xh2.FrameData:
		if s := c.byID[e.Stream]; s != nil && e.End {
			s.gotEnd = true
		}
	case xh2.FrameGoAway:
		if !(c.overdrawn && e.Code == uint32(xh2.ErrCodeFlowControl)) {
			c.r.violate("unexpected-goaway", "GOAWAY code %d", e.Code)
		}
	}
}

func (c *c33Conn) logf(format string, args ...any) {
	c.trace = append(c.trace, fmt.Sprintf(format, args...))
}

// c33Run executes one generated script.
func c33Run(rt *rapid.T, rec *ev.Rec) {
	iswKind := rapid.IntRange(0, 5).Draw(rt, "iswKind")
	var cfg uint32
	switch iswKind {
	case 0:
		cfg = 0 // default 65535
	case 1:
		cfg = uint32(rapid.IntRange(1, 64).Draw(rt, "isw"))
	case 2, 3:
		cfg = uint32(rapid.IntRange(65, 4000).Draw(rt, "isw"))
	case 4:
		cfg = 65535
	case 5:
		cfg = uint32(rapid.IntRange(65536, 140000).Draw(rt, "isw"))
	}
	c := &c33Conn{connInit: 65535, byID: map[uint32]*c33Stream{}, leak: map[string]int64{}, classes: map[string]bool{}}
	c.logf("server MaxUploadBufferPerStream=%d", cfg)
	r, ok := newRig(&bfe_http2.Server{MaxUploadBufferPerStream: cfg}, nil, func(e *fev) { c.onFrame(e) })
	if !ok {
		rec.Excluded("setup-incomplete")
		return
	}
	c.r = r
	c.connWin = c.connInit
	defer r.close()
	r.locked(func() {
		c.isw = 65535
		if v, ok := r.srvSettings[xh2.SettingInitialWindowSize]; ok {
			c.isw = int64(v)
		}
	})
	want := int64(cfg)
	if cfg == 0 {
		want = 65535
	}
	w := func() any { return map[string]any{"steps": c.trace} }
	if c.isw != want {
		rec.Fail(rt, "advertised-window-mismatch", w(), "configured per-stream window %d but SETTINGS_INITIAL_WINDOW_SIZE=%d", want, c.isw)
		return
	}
	switch {
	case c.isw < 65:
		c.classes["isw-tiny"] = true
	case c.isw < 65535:
		c.classes["isw-small"] = true
	case c.isw == 65535:
		c.classes["isw-default"] = true
	default:
		c.classes["isw-large"] = true
	}

	inconclusive := ""
	failed := false
	stop := false // a known finding was hit: the rest of the case is excluded by construction
	fail := func(key, format string, args ...any) {
		failed = true
		rec.Fail(rt, key, w(), format, args...)
	}
	// checkViol reports ledger violations found by the reader goroutine.
	checkViol := func() bool {
		if v := r.firstViolation(); v != nil {
			fail(v.key, "%s", v.msg)
			return true
		}
		return false
	}
	barrier := func() bool {
		if r.ping() {
			return true
		}
		if r.wasTimedOut() {
			inconclusive = "watchdog"
		} else {
			var goaway *fev
			var rdErr error
			r.locked(func() { goaway, rdErr = r.goAway, r.rdErr })
			if c.overdrawn && goaway != nil && goaway.Code == uint32(xh2.ErrCodeFlowControl) {
				inconclusive = "goaway-after-overdraw"
			} else if !checkViol() {
				fail("conn-closed-unexpectedly", "connection ended without cause: goaway=%v err=%v", goaway, rdErr)
			}
		}
		return false
	}
	// equations (3) and (4); final=true demands that every stream is closed.
	checkpoint := func(final bool) bool {
		expectConn := func() int64 {
			v := c.connInit
			for _, s := range c.streams {
				if !s.srvClosed {
					v -= int64(s.unread())
				}
			}
			return v
		}
		leakTotal := int64(0)
		for _, v := range c.leak {
			leakTotal += v
		}
		streamsOK := func() bool {
			for _, s := range c.streams {
				if s.srvClosed || s.clientEnded || s.clientReset || s.overdrawn {
					continue
				}
				if s.sendWin != c.isw-int64(s.unread()) {
					return false
				}
			}
			return true
		}
		okNow := r.settle(60, func() bool {
			if !streamsOK() {
				return false
			}
			if c.overdrawn {
				return true
			}
			d := expectConn() - c.connWin
			return d == 0 || (leakTotal > 0 && d == leakTotal)
		})
		if checkViol() {
			return false
		}
		if !okNow {
			if r.dead() || r.wasTimedOut() {
				return barrier() // classifies the death
			}
			var msg string
			key := "conn-window-not-restored"
			r.locked(func() {
				if !streamsOK() {
					key = "stream-window-not-restored"
					for _, s := range c.streams {
						if !(s.srvClosed || s.clientEnded || s.clientReset || s.overdrawn) && s.sendWin != c.isw-int64(s.unread()) {
							msg += fmt.Sprintf("stream %d window=%d want %d (initial %d - %d unread); ", s.id, s.sendWin, c.isw-int64(s.unread()), c.isw, s.unread())
						}
					}
				} else {
					msg = fmt.Sprintf("connection window=%d want %d (known-leak routes would explain %d)", c.connWin, expectConn(), leakTotal)
				}
			})
			fail(key, "after %d PING round trips: %s", 60, msg)
			return false
		}
		if c.overdrawn {
			return true
		}
		d := int64(0)
		r.locked(func() { d = expectConn() - c.connWin })
		if d != 0 {
			// matches the leak prediction; make sure it is stable, then report per route
			for i := 0; i < 3; i++ {
				if !barrier() {
					return false
				}
			}
			r.locked(func() { d = expectConn() - c.connWin })
			if d == 0 {
				return true
			}
			if d != leakTotal {
				fail("conn-window-not-restored", "connection window short by %d, leak routes explain %d", d, leakTotal)
				return false
			}
			cont := true
			for _, k := range []string{c33KeyUnread, c33KeyOverCL, c33KeyBodyClosed} {
				if c.leak[k] > 0 {
					rec.Fail(rt, k, w(), "connection window is short by %d octets after a barrier (this route: %d): the client can never use them again", d, c.leak[k])
					stop = true
					cont = false
				}
			}
			return cont
		}
		return true
	}

	openStream := func() *c33Stream {
		idx := len(c.streams)
		s := &c33Stream{idx: idx, id: uint32(2*idx + 1), declCL: -1, sendWin: c.isw, expectRST: map[uint32]bool{}}
		path := fmt.Sprintf("/s%d", idx)
		extra := []hfield{}
		if rapid.IntRange(0, 3).Draw(rt, "declareCL") == 0 {
			s.declCL = int64(rapid.IntRange(0, 3000).Draw(rt, "cl"))
			extra = append(extra, hfield{"content-length", fmt.Sprint(s.declCL)})
			c.classes["declared-cl"] = true
		}
		s.h = r.expectHandler(path, nil)
		r.locked(func() {
			c.streams = append(c.streams, s)
			c.byID[s.id] = s
		})
		c.logf("open stream %d content-length=%d", s.id, s.declCL)
		if r.writeHeaders(s.id, reqFields("POST", path, extra...), false) != nil {
			barrier()
			return nil
		}
		if !r.waitStarted(s.h) {
			inconclusive = "watchdog"
			return nil
		}
		return s
	}

	finishHandler := func(s *c33Stream) bool {
		if s.handlerGone {
			return true
		}
		s.handlerGone = true
		if !s.srvClosed {
			r.locked(func() { s.expectRST[uint32(xh2.ErrCodeNo)] = true })
			r.do(s.h, hop{Kind: opWriteHeader, N: 200})
			r.do(s.h, hop{Kind: opWrite, Data: []byte("ok")})
		}
		close(s.h.ops)
		if !r.waitExited(s.h) {
			inconclusive = "watchdog"
			return false
		}
		if !s.srvClosed {
			if !r.waitFor(func() bool { return s.gotEnd }) {
				barrier()
				if inconclusive == "" && !failed {
					fail("response-missing", "stream %d: no END_STREAM after the handler returned", s.id)
				}
				return false
			}
			if !barrier() {
				return false
			}
			if u := s.unread(); u > 0 {
				c.leak[c33KeyUnread] += int64(u)
				c.classes["closed-unread"] = true
				c.classes["closed-unread-by-handler-return"] = true
			}
			r.locked(func() { s.srvClosed = true })
		}
		return true
	}

	// clean scripts avoid the three known leak routes so that equations (3)/(4) are
	// checked at full strength to the end of the script.
	clean := rapid.IntRange(0, 2).Draw(rt, "clean") == 0
	if clean {
		c.classes["clean-script"] = true
		c.logf("clean script")
	}
	nSteps := rapid.IntRange(3, 22).Draw(rt, "nSteps")
	for step := 0; step < nSteps && inconclusive == "" && !failed && !stop; step++ {
		if checkViol() {
			break
		}
		type action struct {
			name string
			s    *c33Stream
		}
		var acts []action
		if len(c.streams) < 4 {
			acts = append(acts, action{"open", nil})
		}
		for _, s := range c.streams {
			if !s.clientEnded && !s.clientReset && !s.overdrawn {
				acts = append(acts, action{"data", s}, action{"data", s})
			}
			if !s.srvClosed && !s.handlerGone && !s.bodyClosed && s.unread() > 0 {
				acts = append(acts, action{"read", s}, action{"read", s}, action{"read", s})
			}
			if !s.handlerGone && !s.srvClosed && !(clean && s.unread() > 0) {
				acts = append(acts, action{"finish", s})
			}
			if !s.srvClosed && !s.clientReset && !(clean && s.unread() > 0) {
				acts = append(acts, action{"rst", s})
			}
			if !s.srvClosed && !s.handlerGone && !s.bodyClosed && !clean {
				acts = append(acts, action{"closebody", s})
			}
		}
		acts = append(acts, action{"noise", nil}, action{"checkpoint", nil})
		a := acts[rapid.IntRange(0, len(acts)-1).Draw(rt, "act")]
		s := a.s
		switch a.name {
		case "open":
			openStream()
		case "data":
			mode := rapid.IntRange(0, 9).Draw(rt, "dataMode") // 0: overdraw, else fit
			if mode == 0 && !s.srvClosed && !s.bodyClosed {
				// An overdraw must be one against the windows the server has advertised, not
				// only against the client's (lagging) view: first collect every WINDOW_UPDATE
				// that is still in flight (equations (3)/(4) must hold).
				if !checkpoint(false) || stop || failed || inconclusive != "" {
					break
				}
			}
			var connWin, stWin int64
			r.locked(func() { connWin, stWin = c.connWin, s.sendWin })
			avail := stWin
			if connWin < avail {
				avail = connWin
			}
			padded := rapid.IntRange(0, 2).Draw(rt, "padded") == 0
			end := rapid.IntRange(0, 5).Draw(rt, "end") == 0
			var pad []byte
			n := 0
			overdraw := false
			serverOpen := !s.srvClosed
			wouldOverCL := func(n int) bool { return s.declCL >= 0 && int64(s.sent+n) > s.declCL }
			if mode == 0 && serverOpen && !s.bodyClosed && avail < 200000 {
				// overdraw: flow length avail+1 .. avail+300
				over := rapid.IntRange(1, 300).Draw(rt, "over")
				flow := int(avail) + over
				if padded {
					pl := rapid.IntRange(0, 255).Draw(rt, "padLen")
					if pl+1 > flow {
						pl = flow - 1
					}
					pad = make([]byte, pl)
					n = flow - 1 - pl
				} else {
					n = flow
				}
				if wouldOverCL(n) {
					// keep the two error classes apart: the statement does not rank them
					rec.Excluded("overdraw-and-over-content-length")
					c.logf("skip overdraw on stream %d (would also exceed content-length)", s.id)
					continue
				}
				if int64(flow) > connWin && c.leak[c33KeyOverCL] > 0 && rec.Known(c33KeyOverCL) {
					// known finding: the server never deducted the over-content-length frame, so its
					// connection window is larger than the client's; a connection-level overdraw
					// cannot be constructed from the client-side ledger any more.
					rec.Excluded("conn-overdraw-after-known-over-content-length-leak")
					c.logf("skip connection-level overdraw on stream %d (after known leak)", s.id)
					continue
				}
				overdraw = true
			} else {
				if padded {
					if avail < 1 {
						padded = false
					} else {
						maxPad := int(avail) - 1
						if maxPad > 255 {
							maxPad = 255
						}
						pad = make([]byte, rapid.IntRange(0, maxPad).Draw(rt, "padLen"))
					}
				}
				room := int(avail)
				if padded {
					room -= 1 + len(pad)
				}
				if clean && s.declCL >= 0 && !s.srvClosed && int64(room) > s.declCL-int64(s.sent) {
					room = int(s.declCL - int64(s.sent))
				}
				if room > 0 {
					hi := room
					if hi > 3000 && rapid.IntRange(0, 3).Draw(rt, "big") != 0 {
						hi = 3000
					}
					switch rapid.IntRange(0, 5).Draw(rt, "fitKind") {
					case 0:
						n = room // exactly exhaust the window
					case 1:
						n = 0
					default:
						n = rapid.IntRange(0, hi).Draw(rt, "n")
					}
				}
			}
			flow := n
			if pad != nil {
				flow += 1 + len(pad)
				c.classes["padded"] = true
			}
			var data []byte
			switch {
			case overdraw:
				data = bytes.Repeat([]byte{0xEE}, n)
				r.locked(func() { c.overdrawn = true })
				s.overdrawn = true
				if int64(flow) > stWin {
					c.classes["overdraw-stream"] = true
				}
				if int64(flow) > connWin {
					c.classes["overdraw-conn"] = true
				}
				r.locked(func() { s.expectRST[uint32(xh2.ErrCodeFlowControl)] = true })
				c.logf("DATA stream %d len=%d pad=%d end=%v OVERDRAW (stream window %d, connection window %d)", s.id, n, len(pad), end, stWin, connWin)
			case !serverOpen:
				data = bytes.Repeat([]byte{0xDD}, n)
				c.classes["late-data"] = true
				r.locked(func() {
					s.expectRST[uint32(xh2.ErrCodeStreamClosed)] = true
					c.connWin -= int64(flow)
					s.sendWin -= int64(flow)
				})
				c.logf("DATA stream %d len=%d pad=%d end=%v on a stream the server already closed", s.id, n, len(pad), end)
			case wouldOverCL(n):
				data = bytes.Repeat([]byte{0xCC}, n)
				c.classes["over-cl"] = true
				c.leak[c33KeyOverCL] += int64(flow)
				if u := s.unread(); u > 0 {
					c.leak[c33KeyUnread] += int64(u)
					c.classes["closed-unread"] = true
				}
				r.locked(func() {
					s.expectRST[uint32(xh2.ErrCodeProtocol)] = true
					c.connWin -= int64(flow)
					s.sendWin -= int64(flow)
				})
				c.logf("DATA stream %d len=%d pad=%d end=%v beyond declared content-length %d (already sent %d)", s.id, n, len(pad), end, s.declCL, s.sent)
			case s.bodyClosed && flow > 0:
				data = bytes.Repeat([]byte{0xBB}, n)
				if n > 0 {
					c.classes["data-after-body-close"] = true
					c.leak[c33KeyBodyClosed] += int64(flow)
					if u := s.unread(); u > 0 {
						c.leak[c33KeyUnread] += int64(u)
						c.classes["closed-unread"] = true
					}
					r.locked(func() { s.expectRST[uint32(xh2.ErrCodeStreamClosed)] = true })
				}
				r.locked(func() {
					c.connWin -= int64(flow)
					s.sendWin -= int64(flow)
				})
				c.logf("DATA stream %d len=%d pad=%d end=%v after the handler closed the request body", s.id, n, len(pad), end)
			default:
				data = patBytes(s.idx, s.sent, n)
				r.locked(func() {
					c.connWin -= int64(flow)
					s.sendWin -= int64(flow)
				})
				if int64(flow) == avail && flow > 0 {
					c.classes["window-exhausted"] = true
				}
				c.logf("DATA stream %d len=%d padded=%v/%d end=%v", s.id, n, pad != nil, len(pad), end)
			}
			if r.writeData(s.id, end, data, pad) != nil {
				barrier()
				break
			}
			if !barrier() {
				break
			}
			switch {
			case overdraw:
				// (1): must be refused with FLOW_CONTROL_ERROR
				got := r.settle(30, func() bool {
					for _, code := range s.rst {
						if code == uint32(xh2.ErrCodeFlowControl) {
							return true
						}
					}
					return r.goAway != nil && r.goAway.Code == uint32(xh2.ErrCodeFlowControl)
				})
				if !got {
					if r.dead() || r.wasTimedOut() {
						barrier()
					} else if !checkViol() {
						fail("overdraw-not-refused", "stream %d: DATA of flow length %d against stream window %d / connection window %d was not answered with FLOW_CONTROL_ERROR", s.id, flow, stWin, connWin)
					}
					break
				}
				r.locked(func() { s.srvClosed = true })
				if !s.handlerGone {
					res, ok := r.do(s.h, hop{Kind: opDrain})
					if !ok {
						inconclusive = "watchdog"
						break
					}
					if !bytes.Equal(res.Data, patBytes(s.idx, s.read, len(res.Data))) || len(res.Data) > s.unread() {
						fail("overdraw-reached-handler", "stream %d: handler read %d octets after the overdraw, %d were buffered; data differs from the accepted octets", s.id, len(res.Data), s.unread())
					}
				}
			case !serverOpen:
			case wouldOverCL(n), s.bodyClosed && n > 0:
				r.locked(func() { s.srvClosed = true })
				if end {
					s.clientEnded = true
				}
			default:
				s.sent += n
				if end {
					s.clientEnded = true
					c.classes["client-end-stream"] = true
				}
			}
			if end && !serverOpen {
				s.clientEnded = true
			}
		case "read":
			if !barrier() || checkViol() {
				break
			}
			n := rapid.IntRange(1, s.unread()).Draw(rt, "readN")
			if rapid.IntRange(0, 2).Draw(rt, "readAll") == 0 {
				n = s.unread()
			}
			c.logf("handler of stream %d reads %d octets", s.id, n)
			res, ok := r.do(s.h, hop{Kind: opRead, N: n})
			if !ok {
				inconclusive = "watchdog"
				break
			}
			if res.N != n || !bytes.Equal(res.Data, patBytes(s.idx, s.read, n)) {
				fail("accepted-data-not-delivered", "stream %d: handler asked for %d accepted octets at offset %d, got %d (err %q) or different content", s.id, n, s.read, res.N, res.Err)
				break
			}
			s.read += n
			c.classes["handler-read"] = true
		case "finish":
			if !barrier() {
				break
			}
			c.logf("handler of stream %d responds and returns (%d octets unread)", s.id, s.unread())
			finishHandler(s)
		case "rst":
			c.logf("client sends RST_STREAM(CANCEL) on stream %d (%d octets unread)", s.id, s.unread())
			if r.writeRST(s.id, xh2.ErrCodeCancel) != nil {
				barrier()
				break
			}
			s.clientReset = true
			if !barrier() {
				break
			}
			if u := s.unread(); u > 0 {
				c.leak[c33KeyUnread] += int64(u)
				c.classes["closed-unread"] = true
				c.classes["closed-unread-by-client-rst"] = true
			}
			r.locked(func() { s.srvClosed = true })
		case "closebody":
			if !barrier() {
				break
			}
			c.logf("handler of stream %d closes the request body (%d octets unread)", s.id, s.unread())
			if _, ok := r.do(s.h, hop{Kind: opCloseBody}); !ok {
				inconclusive = "watchdog"
				break
			}
			s.bodyClosed = true
		case "noise":
			switch rapid.IntRange(0, 2).Draw(rt, "noise") {
			case 0:
				inc := uint32(rapid.IntRange(1, 5000).Draw(rt, "inc"))
				c.logf("client sends WINDOW_UPDATE(0,+%d)", inc)
				r.writeWindowUpdate(0, inc)
			case 1:
				v := uint32(rapid.IntRange(1000, 100000).Draw(rt, "iws"))
				c.logf("client sends SETTINGS INITIAL_WINDOW_SIZE=%d", v)
				r.writeSettings(xh2.Setting{ID: xh2.SettingInitialWindowSize, Val: v})
			case 2:
				c.logf("client PING")
				barrier()
			}
		case "checkpoint":
			c.logf("checkpoint")
			checkpoint(false)
		}
	}
	if inconclusive == "" && !failed && !stop && !checkViol() {
		// quiescence: let every handler finish, close every stream, then equation (4)
		c.logf("final: finish all handlers")
		if barrier() {
			for _, s := range c.streams {
				if clean && !s.srvClosed && !s.handlerGone && !s.bodyClosed && s.unread() > 0 {
					n := s.unread()
					c.logf("handler of stream %d reads %d octets", s.id, n)
					res, ok := r.do(s.h, hop{Kind: opRead, N: n})
					if !ok {
						inconclusive = "watchdog"
						break
					}
					if res.N != n || !bytes.Equal(res.Data, patBytes(s.idx, s.read, n)) {
						fail("accepted-data-not-delivered", "stream %d: handler asked for %d accepted octets at offset %d, got %d (err %q) or different content", s.id, n, s.read, res.N, res.Err)
						break
					}
					s.read += n
				}
				if !finishHandler(s) {
					break
				}
			}
		}
		if inconclusive == "" && !failed && !checkViol() {
			all := true
			for _, s := range c.streams {
				if !s.srvClosed {
					all = false
				}
			}
			if all {
				c.logf("final checkpoint: all streams closed")
				if checkpoint(true) && !stop && !c.overdrawn {
					c.classes["quiescent-window-restored"] = true
				}
			}
		}
	}
	if inconclusive != "" {
		rec.Excluded("inconclusive-" + inconclusive)
	}
	classes := make([]string, 0, len(c.classes))
	for k := range c.classes {
		classes = append(classes, k)
	}
	nt := c.classes["padded"] || c.classes["closed-unread"] || c.classes["overdraw-stream"] || c.classes["overdraw-conn"]
	rec.Case(strings.Join(c.trace, "|"), nt, classes...)
	rec.Sample(map[string]any{"steps": c.trace})
}

func TestC33(t *testing.T) {
	rec := ev.New("C33", "scripts of 3..22 steps against ServeConn over an in-memory connection: configured per-stream window (1..140000), 1..4 POST streams (optional content-length), DATA frames that fit/exhaust/overdraw the client-side ledger with optional padding 0..255, handler reads of generated sizes, handler return / body close / client RST with unread data, DATA on closed streams, noise frames, checkpoints (PING barriers). non-trivial: >=1 padded frame or >=1 stream closed with unread data or >=1 overdraw; distinct by the full step trace")
	c33RaceSweep(t, rec, ev.N(1500, 6000))
	rapid.Check(t, func(rt *rapid.T) { c33Run(rt, rec) })
}

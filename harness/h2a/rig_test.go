package h2a

// Scripted HTTP/2 client rig shared by C33, C34 and C38.
//
// Server side: (&bfe_http2.Server{...}).ServeConn on one end of a net.Pipe, exactly the
// entry point bfe's TLS next-proto handler uses. Client side: golang.org/x/net/http2's
// Framer and hpack (an implementation unrelated to bfe's in-tree HTTP/2 stack) write the
// scripted frames; a reader goroutine parses every server frame into an ordered log and
// feeds a per-test ledger callback. PING round trips are used as barriers; there are no
// sleeps. All waits carry a generous watchdog; a watchdog hit is "inconclusive".

import (
	"bytes"
	"encoding/binary"
	"fmt"
	"io"
	"net"
	"os"
	"strconv"
	"sync"
	"time"

	bfe_http "github.com/bfenetworks/bfe/bfe_http"
	"github.com/bfenetworks/bfe/bfe_http2"
	xh2 "golang.org/x/net/http2"
	xhpack "golang.org/x/net/http2/hpack"
)

// watchdog bounds every wait; a hit makes the case inconclusive, never a violation.
// H2A_WATCHDOG_MS shortens it for development runs only.
var watchdog = func() time.Duration {
	if v, err := strconv.Atoi(os.Getenv("H2A_WATCHDOG_MS")); err == nil && v > 0 {
		return time.Duration(v) * time.Millisecond
	}
	return 30 * time.Second
}()

type hfield struct{ Name, Value string }

// fev is one frame received from the server (HEADERS+CONTINUATION are merged).
type fev struct {
	Seq      int
	Type     xh2.FrameType
	Stream   uint32
	Len      int      // payload length on the wire (flow-controlled length for DATA)
	Data     []byte   // DATA payload without padding
	End      bool     // END_STREAM
	Fields   []hfield // decoded header block
	HdrErr   string   // header block decoding error
	Code     uint32   // RST_STREAM / GOAWAY error code
	Last     uint32   // GOAWAY last stream id
	Inc      uint32   // WINDOW_UPDATE increment
	Ack      bool     // SETTINGS / PING ack
	Ping     uint64
	Settings []xh2.Setting
}

func (f *fev) String() string {
	return fmt.Sprintf("#%d %v s=%d len=%d end=%v code=%d inc=%d ack=%v", f.Seq, f.Type, f.Stream, f.Len, f.End, f.Code, f.Inc, f.Ack)
}

type violation struct{ key, msg string }

type rig struct {
	nc  net.Conn
	fr  *xh2.Framer
	wmu sync.Mutex // serialises client writes and the hpack encoder
	enc *xhpack.Encoder
	eb  bytes.Buffer

	mu          sync.Mutex
	cond        *sync.Cond
	log         []*fev
	rdDone      bool
	rdErr       error
	onFrame     func(*fev) // ledger callback; runs in the reader goroutine with mu held
	viol        []violation
	pingN       uint64
	pingAcked   map[uint64]bool
	srvSettings map[xh2.SettingID]uint32
	gotSettings bool
	settingsAck int // number of SETTINGS acks received from the server
	goAway      *fev
	timedOut    bool

	srvDone  chan struct{}
	closed   chan struct{} // closed by close(); handlers select on it
	hmu      sync.Mutex
	handlers map[string]*hctl
}

// newRig starts a server on an in-memory connection and performs the preface and
// SETTINGS exchange. ok=false means the set-up did not complete (inconclusive).
func newRig(srv *bfe_http2.Server, clientSettings []xh2.Setting, onFrame func(*fev)) (r *rig, ok bool) {
	c1, c2 := net.Pipe()
	r = &rig{nc: c1, onFrame: onFrame, pingAcked: map[uint64]bool{}, srvSettings: map[xh2.SettingID]uint32{},
		srvDone: make(chan struct{}), closed: make(chan struct{}), handlers: map[string]*hctl{}}
	r.cond = sync.NewCond(&r.mu)
	r.fr = xh2.NewFramer(c1, c1)
	r.fr.SetMaxReadFrameSize(1<<24 - 1)
	r.enc = xhpack.NewEncoder(&r.eb)
	if srv == nil {
		srv = &bfe_http2.Server{}
	}
	opts := &bfe_http2.ServeConnOpts{
		BaseConfig: &bfe_http.Server{ReadTimeout: 10 * time.Minute, GracefulShutdownTimeout: time.Minute, CloseNotifyCh: make(chan bool)},
		Handler:    bfe_http.HandlerFunc(r.serveHTTP),
	}
	go func() {
		defer close(r.srvDone)
		srv.ServeConn(c2, opts)
	}()
	go r.readLoop()
	r.wmu.Lock()
	_, err := io.WriteString(c1, xh2.ClientPreface)
	if err == nil {
		err = r.fr.WriteSettings(clientSettings...)
	}
	r.wmu.Unlock()
	if err != nil {
		r.close()
		return r, false
	}
	if !r.waitFor(func() bool { return r.gotSettings && r.settingsAck >= 1 }) {
		r.close()
		return r, false
	}
	return r, true
}

func (r *rig) readLoop() {
	dec := xhpack.NewDecoder(4096, nil)
	var err error
	for {
		var f xh2.Frame
		f, err = r.fr.ReadFrame()
		if err != nil {
			break
		}
		e := &fev{Type: f.Header().Type, Stream: f.Header().StreamID, Len: int(f.Header().Length)}
		ackSettings := false
		switch f := f.(type) {
		case *xh2.DataFrame:
			e.Data = append([]byte(nil), f.Data()...)
			e.End = f.StreamEnded()
		case *xh2.HeadersFrame:
			block := append([]byte(nil), f.HeaderBlockFragment()...)
			e.End = f.StreamEnded()
			ended := f.HeadersEnded()
			for !ended {
				var cf xh2.Frame
				cf, err = r.fr.ReadFrame()
				if err != nil {
					break
				}
				c, isC := cf.(*xh2.ContinuationFrame)
				if !isC {
					err = fmt.Errorf("expected CONTINUATION, got %v", cf.Header().Type)
					break
				}
				block = append(block, c.HeaderBlockFragment()...)
				ended = c.HeadersEnded()
			}
			if err != nil {
				break
			}
			hfs, derr := dec.DecodeFull(block)
			if derr != nil {
				e.HdrErr = derr.Error()
			}
			for _, hf := range hfs {
				e.Fields = append(e.Fields, hfield{hf.Name, hf.Value})
			}
		case *xh2.RSTStreamFrame:
			e.Code = uint32(f.ErrCode)
		case *xh2.GoAwayFrame:
			e.Code = uint32(f.ErrCode)
			e.Last = f.LastStreamID
		case *xh2.WindowUpdateFrame:
			e.Inc = f.Increment
		case *xh2.PingFrame:
			e.Ack = f.IsAck()
			e.Ping = binary.BigEndian.Uint64(f.Data[:])
		case *xh2.SettingsFrame:
			e.Ack = f.IsAck()
			if !e.Ack {
				f.ForeachSetting(func(s xh2.Setting) error {
					e.Settings = append(e.Settings, s)
					return nil
				})
				ackSettings = true
			}
		}
		if err != nil {
			break
		}
		r.mu.Lock()
		e.Seq = len(r.log)
		switch e.Type {
		case xh2.FramePing:
			if e.Ack {
				r.pingAcked[e.Ping] = true
			}
		case xh2.FrameSettings:
			if e.Ack {
				r.settingsAck++
			} else {
				for _, s := range e.Settings {
					r.srvSettings[s.ID] = s.Val
				}
				r.gotSettings = true
			}
		case xh2.FrameGoAway:
			if r.goAway == nil {
				r.goAway = e
			}
		}
		if r.onFrame != nil {
			r.onFrame(e)
		}
		r.log = append(r.log, e)
		r.cond.Broadcast()
		r.mu.Unlock()
		if ackSettings {
			r.wmu.Lock()
			r.fr.WriteSettingsAck()
			r.wmu.Unlock()
		}
	}
	r.mu.Lock()
	r.rdDone = true
	r.rdErr = err
	r.cond.Broadcast()
	r.mu.Unlock()
}

// violate records a ledger violation (first one per key wins). mu must be held.
func (r *rig) violate(key, format string, args ...any) {
	r.viol = append(r.viol, violation{key, fmt.Sprintf(format, args...)})
}

func (r *rig) firstViolation() *violation {
	r.mu.Lock()
	defer r.mu.Unlock()
	if len(r.viol) > 0 {
		v := r.viol[0]
		return &v
	}
	return nil
}

// waitFor blocks until pred (evaluated with mu held) is true. It returns false if the
// connection ended first or the watchdog fired (r.timedOut tells which).
func (r *rig) waitFor(pred func() bool) bool {
	fired := false
	t := time.AfterFunc(watchdog, func() {
		r.mu.Lock()
		fired = true
		r.cond.Broadcast()
		r.mu.Unlock()
	})
	defer t.Stop()
	r.mu.Lock()
	defer r.mu.Unlock()
	for {
		if pred() {
			return true
		}
		if r.rdDone {
			return false
		}
		if fired {
			r.timedOut = true
			return false
		}
		r.cond.Wait()
	}
}

func (r *rig) locked(f func()) {
	r.mu.Lock()
	f()
	r.mu.Unlock()
}

func (r *rig) dead() bool {
	r.mu.Lock()
	defer r.mu.Unlock()
	return r.rdDone
}

func (r *rig) wasTimedOut() bool {
	r.mu.Lock()
	defer r.mu.Unlock()
	return r.timedOut
}

// ping performs one PING round trip: when it returns true the server's serve loop has
// processed every frame written before the call.
func (r *rig) ping() bool {
	r.mu.Lock()
	r.pingN++
	n := r.pingN
	r.mu.Unlock()
	var d [8]byte
	binary.BigEndian.PutUint64(d[:], n)
	r.wmu.Lock()
	err := r.fr.WritePing(false, d)
	r.wmu.Unlock()
	if err != nil {
		return false
	}
	return r.waitFor(func() bool { return r.pingAcked[n] })
}

// settle repeats PING round trips until pred holds (at most n rounds). Used for
// "eventually" conditions on frames that the server queues behind control frames.
func (r *rig) settle(n int, pred func() bool) bool {
	for i := 0; i < n; i++ {
		if !r.ping() {
			return false
		}
		ok := false
		r.locked(func() { ok = pred() })
		if ok {
			return true
		}
		if i > 20 {
			time.Sleep(time.Millisecond)
		}
	}
	return false
}

func (r *rig) writeHeaders(id uint32, fields []hfield, endStream bool) error {
	r.wmu.Lock()
	defer r.wmu.Unlock()
	r.eb.Reset()
	for _, f := range fields {
		r.enc.WriteField(xhpack.HeaderField{Name: f.Name, Value: f.Value})
	}
	return r.fr.WriteHeaders(xh2.HeadersFrameParam{StreamID: id, BlockFragment: r.eb.Bytes(), EndStream: endStream, EndHeaders: true})
}

func (r *rig) writeData(id uint32, end bool, data []byte, pad []byte) error {
	r.wmu.Lock()
	defer r.wmu.Unlock()
	if pad == nil {
		return r.fr.WriteData(id, end, data)
	}
	return r.fr.WriteDataPadded(id, end, data, pad)
}

func (r *rig) writeWindowUpdate(id uint32, inc uint32) error {
	r.wmu.Lock()
	defer r.wmu.Unlock()
	return r.fr.WriteWindowUpdate(id, inc)
}

func (r *rig) writeRST(id uint32, code xh2.ErrCode) error {
	r.wmu.Lock()
	defer r.wmu.Unlock()
	return r.fr.WriteRSTStream(id, code)
}

func (r *rig) writeSettings(ss ...xh2.Setting) error {
	r.wmu.Lock()
	defer r.wmu.Unlock()
	return r.fr.WriteSettings(ss...)
}

// close tears the connection down and waits for the server and all handlers to finish.
func (r *rig) close() (clean bool) {
	select {
	case <-r.closed:
	default:
		close(r.closed)
	}
	r.nc.Close()
	clean = true
	select {
	case <-r.srvDone:
	case <-time.After(watchdog):
		clean = false
	}
	// wait for every handler that has started (one that the server spawned but that has
	// not reached its first statement yet only looks at r.closed and returns)
	r.hmu.Lock()
	hs := make([]*hctl, 0, len(r.handlers))
	for _, h := range r.handlers {
		hs = append(hs, h)
	}
	r.hmu.Unlock()
	for _, h := range hs {
		select {
		case <-h.started:
			select {
			case <-h.exited:
			case <-time.After(watchdog):
				clean = false
			}
		default:
		}
	}
	return clean
}

// ---------------------------------------------------------------------------
// scripted handlers

type opKind int

const (
	opRead      opKind = iota // read exactly N body bytes (io.ReadFull)
	opDrain                   // read the body until an error/EOF
	opCloseBody               // req.Body.Close()
	opSetHeader               // Header().Set(K, V)
	opAddHeader               // Header().Add(K, V)
	opDelHeader               // Header().Del(K)
	opWriteHeader             // WriteHeader(N)
	opWrite                   // Write(Data)
	opWriteString             // WriteString(string(Data))
	opFlush                   // Flush()
)

type hop struct {
	Kind opKind
	N    int
	K, V string
	Data []byte
}

type hres struct {
	N    int
	Err  string
	Data []byte
}

// hctl is the control block of one scripted handler invocation.
type hctl struct {
	path    string
	ops     chan hop // closed by the script when the handler should return
	mu      sync.Mutex
	res     []hres
	started chan struct{}
	exited  chan struct{}
	method  string
	reqHdr  bfe_http.Header
}

// expectHandler registers the control block for the request with the given path. With
// preload != nil the handler runs those ops and returns; otherwise ops are fed with do().
func (r *rig) expectHandler(path string, preload []hop) *hctl {
	n := 1
	if preload != nil {
		n = len(preload) + 1
	}
	h := &hctl{path: path, ops: make(chan hop, n), started: make(chan struct{}), exited: make(chan struct{})}
	if preload != nil {
		for _, o := range preload {
			h.ops <- o
		}
		close(h.ops)
	}
	r.hmu.Lock()
	r.handlers[path] = h
	r.hmu.Unlock()
	return h
}

func (r *rig) serveHTTP(w bfe_http.ResponseWriter, req *bfe_http.Request) {
	r.hmu.Lock()
	h := r.handlers[req.URL.Path]
	r.hmu.Unlock()
	if h == nil {
		w.WriteHeader(599)
		return
	}
	h.method = req.Method
	h.reqHdr = req.Header
	close(h.started)
	defer close(h.exited)
	for {
		var o hop
		var ok bool
		select {
		case o, ok = <-h.ops:
		case <-r.closed:
			return
		}
		if !ok {
			return
		}
		var res hres
		switch o.Kind {
		case opRead:
			buf := make([]byte, o.N)
			n, err := io.ReadFull(req.Body, buf)
			res.N, res.Data = n, buf[:n]
			if err != nil {
				res.Err = err.Error()
			}
		case opDrain:
			var all []byte
			buf := make([]byte, 4096)
			for {
				n, err := req.Body.Read(buf)
				all = append(all, buf[:n]...)
				if err != nil {
					res.Err = err.Error()
					break
				}
			}
			res.N, res.Data = len(all), all
		case opCloseBody:
			req.Body.Close()
		case opSetHeader:
			w.Header().Set(o.K, o.V)
		case opAddHeader:
			w.Header().Add(o.K, o.V)
		case opDelHeader:
			w.Header().Del(o.K)
		case opWriteHeader:
			w.WriteHeader(o.N)
		case opWrite:
			n, err := w.Write(o.Data)
			res.N = n
			if err != nil {
				res.Err = err.Error()
			}
		case opWriteString:
			n, err := w.(interface {
				WriteString(string) (int, error)
			}).WriteString(string(o.Data))
			res.N = n
			if err != nil {
				res.Err = err.Error()
			}
		case opFlush:
			w.(bfe_http.Flusher).Flush()
		}
		h.mu.Lock()
		h.res = append(h.res, res)
		h.mu.Unlock()
		r.mu.Lock()
		r.cond.Broadcast()
		r.mu.Unlock()
	}
}

// do sends one op to an interactive handler and waits for its result.
func (r *rig) do(h *hctl, o hop) (hres, bool) {
	h.mu.Lock()
	want := len(h.res) + 1
	h.mu.Unlock()
	select {
	case h.ops <- o:
	case <-h.exited:
		return hres{}, false
	case <-time.After(watchdog):
		r.locked(func() { r.timedOut = true })
		return hres{}, false
	}
	var out hres
	ok := r.waitForAlive(func() bool {
		h.mu.Lock()
		defer h.mu.Unlock()
		if len(h.res) >= want {
			out = h.res[want-1]
			return true
		}
		return false
	})
	return out, ok
}

// doAsync sends one op to an interactive handler and returns a function that waits for
// its result (used to let a handler read race with frames the client sends meanwhile).
func (r *rig) doAsync(h *hctl, o hop) func() (hres, bool) {
	h.mu.Lock()
	want := len(h.res) + 1
	h.mu.Unlock()
	sent := true
	select {
	case h.ops <- o:
	case <-h.exited:
		sent = false
	case <-time.After(watchdog):
		r.locked(func() { r.timedOut = true })
		sent = false
	}
	return func() (hres, bool) {
		if !sent {
			return hres{}, false
		}
		var out hres
		ok := r.waitForAlive(func() bool {
			h.mu.Lock()
			defer h.mu.Unlock()
			if len(h.res) >= want {
				out = h.res[want-1]
				return true
			}
			return false
		})
		return out, ok
	}
}

// waitForAlive is waitFor that does not give up when the connection's reader ended
// (handler results can still arrive after the connection is gone).
func (r *rig) waitForAlive(pred func() bool) bool {
	fired := false
	t := time.AfterFunc(watchdog, func() {
		r.mu.Lock()
		fired = true
		r.cond.Broadcast()
		r.mu.Unlock()
	})
	defer t.Stop()
	r.mu.Lock()
	defer r.mu.Unlock()
	for {
		if pred() {
			return true
		}
		if fired {
			r.timedOut = true
			return false
		}
		r.cond.Wait()
	}
}

func (r *rig) waitStarted(h *hctl) bool {
	select {
	case <-h.started:
		return true
	case <-time.After(watchdog):
		r.locked(func() { r.timedOut = true })
		return false
	}
}

func (r *rig) waitExited(h *hctl) bool {
	select {
	case <-h.exited:
		return true
	case <-time.After(watchdog):
		r.locked(func() { r.timedOut = true })
		return false
	}
}

func (h *hctl) results() []hres {
	h.mu.Lock()
	defer h.mu.Unlock()
	return append([]hres(nil), h.res...)
}

// pat is the deterministic body byte of stream index idx at offset off.
func pat(idx, off int) byte { return byte(31*idx + 7*off + off>>8) }

func patBytes(idx, off, n int) []byte {
	b := make([]byte, n)
	for i := range b {
		b[i] = pat(idx, off+i)
	}
	return b
}

func reqFields(method, path string, extra ...hfield) []hfield {
	fs := []hfield{{":method", method}, {":scheme", "https"}, {":authority", "verif.example"}, {":path", path}}
	return append(fs, extra...)
}

package h2a

// C33, schedule-dependent part: handler reads racing with the client's RST_STREAM.
//
// For every stream the handler is parked in a body-draining read loop, the client then
// sends 1..3 DATA frames immediately followed by RST_STREAM. Whatever the interleaving,
// every DATA octet is either read by the handler or discarded when the stream closes, so
// after the handler's loop has ended and one PING round trip the connection window must
// be back at its initial value (equation (4) of c33_test.go). The sweep is deterministic
// in what it sends; only the goroutine schedule varies.

import (
	"fmt"
	"testing"

	xh2 "golang.org/x/net/http2"

	"verif/harness/internal/ev"
)

func c33RaceSweep(t *testing.T, rec *ev.Rec, total int) {
	const perConn = 60
	for base := 0; base < total; base += perConn {
		connWin := int64(65535)
		unexpected := ""
		r, ok := newRig(nil, nil, func(e *fev) {
			switch e.Type {
			case xh2.FrameWindowUpdate:
				if e.Stream == 0 {
					connWin += int64(e.Inc)
				}
			case xh2.FrameRSTStream, xh2.FrameGoAway:
				if unexpected == "" {
					unexpected = e.String()
				}
			}
		})
		if !ok {
			rec.Excluded("setup-incomplete")
			continue
		}
		func() {
			defer r.close()
			for j := 0; j < perConn && base+j < total; j++ {
				i := base + j
				id := uint32(2*j + 1)
				path := fmt.Sprintf("/q%d", j)
				nFrames := 1 + i%3
				size := 1 + (i*131)%1500
				padded := i%5 == 0
				h := r.expectHandler(path, nil)
				if r.writeHeaders(id, reqFields("POST", path), false) != nil || !r.waitStarted(h) {
					rec.Excluded("inconclusive-race-setup")
					return
				}
				wait := r.doAsync(h, hop{Kind: opDrain})
				sent := 0
				for k := 0; k < nFrames; k++ {
					var pad []byte
					flow := size
					if padded {
						pad = make([]byte, k)
						flow += 1 + k
					}
					r.locked(func() { connWin -= int64(flow) })
					if r.writeData(id, false, patBytes(j, sent, size), pad) != nil {
						rec.Excluded("inconclusive-race-setup")
						return
					}
					sent += size
				}
				r.writeRST(id, xh2.ErrCodeCancel)
				res, ok := wait()
				close(h.ops)
				if !ok || !r.waitExited(h) {
					rec.Excluded("inconclusive-watchdog")
					return
				}
				w := map[string]any{"stream_on_connection": j, "data_frames": nFrames, "frame_size": size, "padded": padded, "handler_read": res.N}
				if string(res.Data) != string(patBytes(j, 0, len(res.Data))) || len(res.Data) > sent {
					rec.Fail(t, "accepted-data-not-delivered", w, "race sweep stream %d: handler read %d octets that are not a prefix of the %d sent", id, len(res.Data), sent)
					return
				}
				good := false
				var got int64
				for try := 0; try < 3 && !good; try++ {
					if !r.ping() {
						rec.Excluded("inconclusive-race-barrier")
						return
					}
					r.locked(func() { got = connWin; good = connWin == 65535 && unexpected == "" })
				}
				cls := "race-handler-read-none"
				if res.N == sent {
					cls = "race-handler-read-all"
				} else if res.N > 0 {
					cls = "race-handler-read-part"
				}
				rec.Case(fmt.Sprintf("race %d %d %v", nFrames, size, padded), true, "read-racing-reset", cls)
				if !good {
					if unexpected != "" {
						rec.Fail(t, "unexpected-rst", w, "race sweep stream %d: %s", id, unexpected)
						return
					}
					rec.Fail(t, "conn-window-not-restored-read-racing-reset", w, "stream %d: client sent %d DATA octets (%d frames) then RST_STREAM while the handler was reading (it got %d); all of them were read or discarded, but the connection window is %d instead of 65535 (%d octets never credited back)", id, sent, nFrames, res.N, got, 65535-got)
					return
				}
			}
		}()
	}
}

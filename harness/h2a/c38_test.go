package h2a

// C38: HTTP/2 responses carry exactly the handler's response.
//
// Oracle: a model of the documented ResponseWriter contract (net/http semantics that
// bfe_http mirrors) executed over the same generated handler script: the status is the
// first WriteHeader code (200 if the handler wrote/flushed/returned first); the header
// snapshot is taken at that moment; names go through textproto canonicalisation (what
// Header.Set/Add do) and must arrive lower-cased; Connection, Keep-Alive,
// Proxy-Connection, Transfer-Encoding and Upgrade must be absent; the server may add
// only content-type, content-length and date when the handler did not set them; the body
// is the concatenation of the bytes Write reported as written (nothing for HEAD, 1xx,
// 204, 304); trailers declared with "Trailer" before the header was written or with the
// "Trailer:" key prefix carry the values the header map holds when the handler returns
// and come after the body; END_STREAM appears exactly once, on the last frame.
// The response is decoded with golang.org/x/net's framer and hpack decoder.

import (
	"bytes"
	"fmt"
	"net/textproto"
	"runtime"
	"sort"
	"strconv"
	"strings"
	"testing"

	xh2 "golang.org/x/net/http2"
	"pgregory.net/rapid"

	"verif/harness/internal/ev"
)

const c38KeyUnsetTrailer = "no-end-stream-declared-trailer-never-set"

var c38ConnSpecific = map[string]bool{"connection": true, "keep-alive": true, "proxy-connection": true, "transfer-encoding": true, "upgrade": true}

var c38HeaderNames = []string{"X-Custom", "x-lower-case", "X-UPPER-CASE", "cache-control", "Set-Cookie", "ETag", "Server", "Vary", "X-a", "Last-Modified", "Location", "content-language"}
var c38ConnNames = []string{"Connection", "keep-alive", "Proxy-Connection", "TRANSFER-ENCODING", "Upgrade", "connection", "Keep-Alive", "transfer-encoding"}
var c38TrailerNames = []string{"X-Trailer-A", "X-Trailer-B", "Grpc-Status", "X-Checksum"}
var c38LateTrailerNames = []string{"X-Late-One", "X-Late-Two"}

type c38Model struct {
	hdr         map[string][]string
	snap        map[string][]string
	status      int
	wroteHeader bool
}

func (m *c38Model) writeHeader(code int) {
	if m.wroteHeader {
		return
	}
	m.wroteHeader = true
	m.status = code
	m.snap = map[string][]string{}
	for k, v := range m.hdr {
		m.snap[k] = append([]string(nil), v...)
	}
}

// declaredTrailers returns the canonical names declared before the header was written plus
// the "Trailer:"-prefixed keys present when the handler returns, and the final values.
func (m *c38Model) declaredTrailers() (decl []string, final map[string][]string, prefixed bool) {
	final = map[string][]string{}
	for k, v := range m.hdr {
		final[k] = v
	}
	seen := map[string]bool{}
	for _, v := range m.snap["Trailer"] {
		for _, t := range strings.Split(v, ",") {
			t = textproto.CanonicalMIMEHeaderKey(strings.TrimSpace(t))
			if t == "" || t == "Content-Length" || t == "Transfer-Encoding" || t == "Trailer" || seen[t] {
				continue
			}
			seen[t] = true
			decl = append(decl, t)
		}
	}
	for k, v := range m.hdr {
		if strings.HasPrefix(k, "Trailer:") {
			t := textproto.CanonicalMIMEHeaderKey(strings.TrimPrefix(k, "Trailer:"))
			if !seen[t] {
				seen[t] = true
				decl = append(decl, t)
			}
			final[t] = v
			prefixed = true
		}
	}
	sort.Strings(decl)
	return
}

// predictsUnsetTrailerHang: trailers were declared but none has a value (the shape of the
// known finding c38KeyUnsetTrailer).
func (m *c38Model) predictsUnsetTrailerHang(method string) bool {
	decl, final, _ := m.declaredTrailers()
	if method == "HEAD" || len(decl) == 0 {
		return false
	}
	for _, t := range decl {
		if len(final[t]) > 0 {
			return false
		}
	}
	return true
}

func c38Bodyless(status int) bool {
	return (status >= 100 && status <= 199) || status == 204 || status == 304
}

func randCase(rt *rapid.T, s string) string {
	switch rapid.IntRange(0, 3).Draw(rt, "case") {
	case 0:
		return strings.ToLower(s)
	case 1:
		return strings.ToUpper(s)
	case 2:
		b := []byte(s)
		for i := range b {
			if i%2 == 0 {
				b[i] = strings.ToUpper(string(b[i]))[0]
			} else {
				b[i] = strings.ToLower(string(b[i]))[0]
			}
		}
		return string(b)
	}
	return s
}

var c38ValueGen = rapid.StringMatching(`[a-zA-Z0-9][a-zA-Z0-9 ;=/_.-]{0,20}[a-zA-Z0-9]`)

type c38Req struct {
	method string
	ops    []hop
	desc   []string
	model  *c38Model
	writes []int // indexes into ops of write ops
}

func c38GenReq(rt *rapid.T, idx int) *c38Req {
	q := &c38Req{model: &c38Model{hdr: map[string][]string{}}}
	switch rapid.IntRange(0, 5).Draw(rt, "method") {
	case 0, 1:
		q.method = "HEAD"
	case 2:
		q.method = "POST"
	default:
		q.method = "GET"
	}
	m := q.model
	add := func(o hop, d string) {
		q.ops = append(q.ops, o)
		q.desc = append(q.desc, d)
	}
	setHeader := func(name string) {
		k := randCase(rt, name)
		v := c38ValueGen.Draw(rt, "value")
		if rapid.IntRange(0, 9).Draw(rt, "longValue") == 0 {
			v += strings.Repeat("x", rapid.IntRange(50, 400).Draw(rt, "extra"))
		}
		ck := textproto.CanonicalMIMEHeaderKey(k)
		switch rapid.IntRange(0, 3).Draw(rt, "hop") {
		case 0:
			add(hop{Kind: opAddHeader, K: k, V: v}, fmt.Sprintf("Add(%q,%q)", k, v))
			m.hdr[ck] = append(m.hdr[ck], v)
		case 1:
			add(hop{Kind: opDelHeader, K: k}, fmt.Sprintf("Del(%q)", k))
			delete(m.hdr, ck)
		default:
			add(hop{Kind: opSetHeader, K: k, V: v}, fmt.Sprintf("Set(%q,%q)", k, v))
			m.hdr[ck] = []string{v}
		}
	}
	headerPhase := func(n int, allowSpecial bool) {
		for i := 0; i < n; i++ {
			switch rapid.IntRange(0, 9).Draw(rt, "hkind") {
			case 0, 1:
				if allowSpecial {
					setHeader(rapid.SampledFrom(c38ConnNames).Draw(rt, "connName"))
					continue
				}
				fallthrough
			default:
				if rapid.IntRange(0, 4).Draw(rt, "overlap") == 0 {
					// a name that other responses use as a trailer, here as a plain header
					// (possibly undeclared): key names overlap across consecutive streams
					setHeader(rapid.SampledFrom(append(append([]string{}, c38TrailerNames...), c38LateTrailerNames...)).Draw(rt, "overlapName"))
					continue
				}
				setHeader(rapid.SampledFrom(c38HeaderNames).Draw(rt, "name"))
			case 2:
				if allowSpecial {
					ct := rapid.SampledFrom([]string{"text/plain", "application/json", "application/octet-stream"}).Draw(rt, "ctype")
					k := randCase(rt, "Content-Type")
					add(hop{Kind: opSetHeader, K: k, V: ct}, fmt.Sprintf("Set(%q,%q)", k, ct))
					m.hdr["Content-Type"] = []string{ct}
				}
			}
		}
	}
	// body plan first (so that a right/wrong Content-Length can be declared)
	nw := rapid.IntRange(0, 5).Draw(rt, "nWrites")
	sizes := make([]int, nw)
	total := 0
	for i := range sizes {
		switch rapid.IntRange(0, 5).Draw(rt, "wKind") {
		case 0:
			sizes[i] = 0
		case 1, 2, 3:
			sizes[i] = rapid.IntRange(1, 600).Draw(rt, "w")
		case 4:
			sizes[i] = rapid.IntRange(4000, 4200).Draw(rt, "w")
		case 5:
			sizes[i] = rapid.IntRange(5000, 40000).Draw(rt, "w")
		}
		total += sizes[i]
	}
	headerPhase(rapid.IntRange(0, 5).Draw(rt, "nHeaders"), true)
	switch rapid.IntRange(0, 6).Draw(rt, "clKind") {
	case 0, 2:
		add(hop{Kind: opSetHeader, K: "Content-Length", V: strconv.Itoa(total)}, fmt.Sprintf("Set(Content-Length,%d) [right]", total))
		m.hdr["Content-Length"] = []string{strconv.Itoa(total)}
	case 1:
		wrong := total + rapid.IntRange(-total, 50).Draw(rt, "clDelta")
		k := randCase(rt, "Content-Length")
		add(hop{Kind: opSetHeader, K: k, V: strconv.Itoa(wrong)}, fmt.Sprintf("Set(%q,%d) [body is %d]", k, wrong, total))
		m.hdr["Content-Length"] = []string{strconv.Itoa(wrong)}
	}
	// trailer declarations
	var declared []string
	if rapid.IntRange(0, 2).Draw(rt, "declTrailers") == 0 {
		n := rapid.IntRange(1, 3).Draw(rt, "nDecl")
		var names []string
		for i := 0; i < n; i++ {
			var nm string
			if rapid.IntRange(0, 5).Draw(rt, "forbidden") == 0 {
				nm = rapid.SampledFrom([]string{"Content-Length", "Transfer-Encoding", "Trailer"}).Draw(rt, "fname")
			} else {
				nm = rapid.SampledFrom(c38TrailerNames).Draw(rt, "tname")
				declared = append(declared, nm)
			}
			names = append(names, randCase(rt, nm))
		}
		if rapid.Bool().Draw(rt, "oneLine") {
			v := strings.Join(names, ", ")
			add(hop{Kind: opSetHeader, K: "Trailer", V: v}, fmt.Sprintf("Set(Trailer,%q)", v))
			m.hdr["Trailer"] = []string{v}
		} else {
			delete(m.hdr, "Trailer")
			add(hop{Kind: opDelHeader, K: "Trailer"}, "Del(Trailer)")
			for _, nm := range names {
				add(hop{Kind: opAddHeader, K: "trailer", V: nm}, fmt.Sprintf("Add(trailer,%q)", nm))
				m.hdr["Trailer"] = append(m.hdr["Trailer"], nm)
			}
		}
	}
	// status
	code := 200
	switch rapid.IntRange(0, 9).Draw(rt, "statusKind") {
	case 0, 1, 2:
		code = 0 // implicit
	case 3:
		code = 200
	case 4:
		code = rapid.SampledFrom([]int{204, 304}).Draw(rt, "bodyless")
	case 5:
		code = rapid.IntRange(100, 199).Draw(rt, "1xx")
	default:
		code = rapid.IntRange(200, 599).Draw(rt, "code")
	}
	if code != 0 {
		add(hop{Kind: opWriteHeader, N: code}, fmt.Sprintf("WriteHeader(%d)", code))
		m.writeHeader(code)
		if rapid.IntRange(0, 4).Draw(rt, "second") == 0 {
			c2 := rapid.IntRange(200, 599).Draw(rt, "code2")
			add(hop{Kind: opWriteHeader, N: c2}, fmt.Sprintf("WriteHeader(%d) [second call]", c2))
		}
	}
	lateHeader := func() {
		if rapid.IntRange(0, 2).Draw(rt, "late") == 0 {
			setHeader(rapid.SampledFrom([]string{"X-Late-Header", "X-Custom", "Server", "X-Trailer-A", "Grpc-Status"}).Draw(rt, "lateName"))
		}
	}
	off := 0
	for i, n := range sizes {
		if rapid.IntRange(0, 3).Draw(rt, "flushBefore") == 0 {
			add(hop{Kind: opFlush}, "Flush")
			m.writeHeader(200)
			lateHeader()
		}
		data := patBytes(idx, off, n)
		off += n
		kind := opWrite
		nm := "Write"
		if rapid.IntRange(0, 3).Draw(rt, "ws") == 0 {
			kind, nm = opWriteString, "WriteString"
		}
		q.writes = append(q.writes, len(q.ops))
		add(hop{Kind: kind, Data: data}, fmt.Sprintf("%s(%d)", nm, n))
		m.writeHeader(200)
		if i == 0 {
			lateHeader()
		}
	}
	if rapid.IntRange(0, 3).Draw(rt, "flushEnd") == 0 {
		add(hop{Kind: opFlush}, "Flush")
		m.writeHeader(200)
		lateHeader()
	}
	// trailer values
	for _, nm := range declared {
		if rapid.IntRange(0, 3).Draw(rt, "setTrailer") != 0 {
			k := randCase(rt, nm)
			v := c38ValueGen.Draw(rt, "tvalue")
			add(hop{Kind: opSetHeader, K: k, V: v}, fmt.Sprintf("Set(%q,%q) [trailer value]", k, v))
			m.hdr[textproto.CanonicalMIMEHeaderKey(k)] = []string{v}
		}
	}
	if rapid.IntRange(0, 3).Draw(rt, "prefixed") == 0 {
		// bfe_http2.TrailerPrefix is documented for "trailers that are not known prior to the
		// headers being written": make sure the header has been written (flushed) first.
		flushedAlready := false
		for _, o := range q.ops {
			if o.Kind == opFlush {
				flushedAlready = true
			}
		}
		if !flushedAlready {
			add(hop{Kind: opFlush}, "Flush")
			m.writeHeader(200)
		}
		for _, nm := range c38LateTrailerNames[:rapid.IntRange(1, 2).Draw(rt, "nPrefixed")] {
			v := c38ValueGen.Draw(rt, "pvalue")
			add(hop{Kind: opSetHeader, K: "Trailer:" + nm, V: v}, fmt.Sprintf("Set(%q,%q)", "Trailer:"+nm, v))
			m.hdr["Trailer:"+nm] = []string{v}
		}
	}
	m.writeHeader(200) // handler returns
	return q
}

type kv struct{ k, v string }

func multiset(fs []kv) map[kv]int {
	m := map[kv]int{}
	for _, f := range fs {
		m[f]++
	}
	return m
}

func c38Run(rt *rapid.T, rec *ev.Rec) {
	nReq := rapid.IntRange(1, 5).Draw(rt, "nReq")
	// Part of the cases run on a single P: sync.Pool then hands the state object released by
	// one response to the very next request, so state that leaks between responses through
	// bfe's pools (responseWriterState, writeData, buffers) becomes visible deterministically.
	singleP := rapid.IntRange(0, 2).Draw(rt, "singleP") == 0
	// concurrent: all requests are sent before the first response is awaited
	concurrent := nReq > 1 && rapid.IntRange(0, 3).Draw(rt, "concurrent") == 0
	if singleP {
		defer runtime.GOMAXPROCS(runtime.GOMAXPROCS(1))
	}
	reqs := make([]*c38Req, nReq)
	var trace []string
	for i := range reqs {
		reqs[i] = c38GenReq(rt, i)
		trace = append(trace, fmt.Sprintf("stream %d %s: %s", 2*i+1, reqs[i].method, strings.Join(reqs[i].desc, "; ")))
	}
	// A third of the clients advertise a small SETTINGS_MAX_HEADER_LIST_SIZE (advisory, RFC
	// 7540 6.5.2). A server may deliver a larger header list anyway (bfe does) or refuse it by
	// resetting that stream; either way every other response on the connection must still
	// decode to exactly the handler's fields (the HPACK state is connection wide).
	settings := []xh2.Setting{{ID: xh2.SettingInitialWindowSize, Val: 1 << 20}}
	mhls := int64(0)
	if rapid.IntRange(0, 2).Draw(rt, "advertiseMHLS") == 0 {
		mhls = int64(rapid.IntRange(40, 700).Draw(rt, "maxHeaderListSize"))
		settings = append(settings, xh2.Setting{ID: xh2.SettingMaxHeaderListSize, Val: uint32(mhls)})
		trace = append(trace, fmt.Sprintf("client SETTINGS max_header_list_size=%d", mhls))
	}
	r, ok := newRig(nil, settings, nil)
	if !ok {
		rec.Excluded("setup-incomplete")
		return
	}
	defer r.close()
	w := func() any { return map[string]any{"requests": trace} }
	if r.writeWindowUpdate(0, 1<<24) != nil {
		rec.Excluded("setup-incomplete")
		return
	}
	inconclusive := ""
	stop := false
	hs := make([]*hctl, nReq)
	send := func(i int) bool {
		path := fmt.Sprintf("/r%d", i)
		hs[i] = r.expectHandler(path, append([]hop{}, reqs[i].ops...))
		if r.writeHeaders(uint32(2*i+1), reqFields(reqs[i].method, path), true) != nil {
			rec.Fail(rt, "conn-closed-unexpectedly", w(), "connection ended before request %d", i)
			return false
		}
		return true
	}
	if concurrent {
		trace = append(trace, "all requests sent before the first response is awaited")
		for i := range reqs {
			if !send(i) {
				return
			}
		}
	}
	if singleP {
		trace = append(trace, "GOMAXPROCS(1)")
	}
	for i, q := range reqs {
		if inconclusive != "" || stop {
			break
		}
		id := uint32(2*i + 1)
		classes := map[string]bool{}
		if concurrent {
			classes["concurrent-requests"] = true
		}
		if singleP {
			classes["single-P"] = true
		}
		if i > 0 {
			classes["follows-another-response"] = true
		}
		if !concurrent && !send(i) {
			return
		}
		h := hs[i]
		if !r.waitStarted(h) || !r.waitExited(h) {
			inconclusive = "watchdog"
			break
		}
		ended := func() bool {
			for _, e := range r.log {
				if e.Stream == id && (e.End || e.Type == xh2.FrameRSTStream) {
					return true
				}
			}
			return false
		}
		gotEnd := r.settle(40, ended)
		if !gotEnd && !r.dead() && !r.wasTimedOut() && !(q.model.predictsUnsetTrailerHang(q.method) && rec.Known(c38KeyUnsetTrailer)) {
			// The handler function has returned but the server's final flush may still be
			// pending on a loaded machine: wait for END_STREAM up to the watchdog. Only a
			// response that is still unfinished then, on a connection that still answers
			// PING, counts as "no END_STREAM".
			gotEnd = r.waitFor(ended)
			if !gotEnd && r.wasTimedOut() {
				r.locked(func() { r.timedOut = false })
				if !r.ping() {
					inconclusive = "watchdog"
					break
				}
			}
		}
		if !gotEnd && (r.dead() || r.wasTimedOut()) {
			if r.wasTimedOut() {
				inconclusive = "watchdog"
				break
			}
			rec.Fail(rt, "conn-closed-unexpectedly", w(), "connection ended during response %d", i)
			return
		}
		if gotEnd && !r.ping() {
			inconclusive = "watchdog"
			break
		}
		var frames []*fev
		r.locked(func() {
			for _, e := range r.log {
				if e.Stream == id {
					frames = append(frames, e)
				}
			}
		})
		m := q.model
		res := h.results()
		fail := func(key, format string, args ...any) {
			rec.Fail(rt, key, w(), "stream %d: %s", id, fmt.Sprintf(format, args...))
		}
		// ---- expectations
		bodyless := q.method == "HEAD" || c38Bodyless(m.status)
		var wantBody []byte
		// A Write may be refused only for HEAD / a status without body or once the handler's own
		// declared Content-Length is exceeded; every other Write must be accepted in full
		// (the body is then the concatenation of what was accepted).
		resetSeen := false // the server reset the stream: judged below, Writes fail legitimately
		for _, e := range frames {
			if e.Type == xh2.FrameRSTStream {
				resetSeen = true
			}
		}
		declCL := int64(-1)
		if v := m.snap["Content-Length"]; len(v) > 0 {
			if n, err := strconv.ParseInt(v[0], 10, 64); err == nil {
				declCL = n
				classes["content-length-declared"] = true
			}
		}
		cum := int64(0)
		refused := false
		for _, oi := range q.writes {
			if oi >= len(res) {
				continue
			}
			l := len(q.ops[oi].Data)
			cum += int64(l)
			// (HEAD: the body is discarded; bfe reports "short write" after the first flush)
			mayRefuse := bodyless || (declCL >= 0 && cum > declCL) || resetSeen
			if !mayRefuse && (res[oi].N != l || res[oi].Err != "") && !refused {
				refused = true
				fail("write-refused", "Write of %d octets (total %d so far, handler declared content-length %d, status %d) returned n=%d err=%q", l, cum, declCL, m.status, res[oi].N, res[oi].Err)
			}
			wantBody = append(wantBody, q.ops[oi].Data[:res[oi].N]...)
		}
		if refused {
			continue
		}
		if declCL < 0 && cum > 0 {
			classes["body-without-content-length"] = true
		}
		if bodyless {
			wantBody = nil
			classes["bodyless"] = true
		}
		var wantHdr []kv
		handlerSet := map[string]bool{}
		for k, vv := range m.snap {
			if strings.HasPrefix(k, "Trailer:") {
				continue
			}
			lk := strings.ToLower(k)
			handlerSet[lk] = true
			if c38ConnSpecific[lk] {
				classes["conn-specific-set"] = true
				continue
			}
			for _, v := range vv {
				wantHdr = append(wantHdr, kv{lk, v})
			}
		}
		// declared trailers
		decl, final, prefixed := m.declaredTrailers()
		if prefixed {
			classes["prefixed-trailer"] = true
		}
		var wantTrailer []kv
		for _, t := range decl {
			for _, v := range final[t] {
				wantTrailer = append(wantTrailer, kv{strings.ToLower(t), v})
			}
		}
		for _, nm := range append(append([]string{}, c38TrailerNames...), c38LateTrailerNames...) {
			isDecl := false
			for _, t := range decl {
				if t == nm {
					isDecl = true
				}
			}
			if _, set := m.hdr[nm]; set && !isDecl {
				classes["trailer-name-as-undeclared-header"] = true
			}
		}
		if len(decl) > 0 {
			classes["trailers-declared"] = true
		}
		unsetTrailers := len(decl) > 0 && len(wantTrailer) == 0
		if unsetTrailers {
			classes["trailers-declared-never-set"] = true
		}
		flushed := false
		for _, o := range q.ops {
			if o.Kind == opFlush {
				flushed = true
			}
		}
		if flushed {
			classes["flush"] = true
		}
		nt := len(decl) > 0 || flushed || bodyless
		cl := []string{"method-" + q.method, fmt.Sprintf("status-%dxx", m.status/100)}
		for k := range classes {
			cl = append(cl, k)
		}
		rec.Case(trace[i], nt, cl...)
		rec.Sample(map[string]any{"request": trace[i]})

		// ---- the frames
		for _, e := range frames {
			if e.Type != xh2.FrameRSTStream {
				continue
			}
			// generous estimate of the header lists the server would have to send (RFC size:
			// name + value + 32 per field, plus up to three server-added fields)
			est := int64(len(":status") + 3 + 32 + 3*(32+45))
			for _, f := range wantHdr {
				est += int64(len(f.k) + len(f.v) + 32)
			}
			estT := int64(0)
			for _, f := range wantTrailer {
				estT += int64(len(f.k) + len(f.v) + 32)
			}
			if mhls > 0 && (est > mhls || estT > mhls) {
				classes["reset-header-list-over-advertised-max"] = true
				rec.Class("reset-header-list-over-advertised-max")
			} else {
				fail("response-reset", "the server reset the stream (code %d) although the handler completed its response; frames: %v", e.Code, frames)
			}
			gotEnd = false
			break
		}
		if len(frames) > 0 && frames[len(frames)-1].Type == xh2.FrameRSTStream && classes["reset-header-list-over-advertised-max"] {
			continue
		}
		if !gotEnd {
			key := "no-end-stream"
			if unsetTrailers && q.method != "HEAD" {
				key = c38KeyUnsetTrailer
			}
			var seenFrames []string
			for _, e := range frames {
				seenFrames = append(seenFrames, e.String())
			}
			fail(key, "handler returned but no frame with END_STREAM arrived after 40 PING round trips; frames: %v", seenFrames)
			stop = true // known finding: the connection stays usable but this case ends here
			continue
		}
		if len(frames) == 0 || frames[0].Type != xh2.FrameHeaders {
			fail("first-frame-not-headers", "frames: %v", frames)
			continue
		}
		var body []byte
		var trailerFrame *fev
		bad := false
		for j, e := range frames {
			last := j == len(frames)-1
			if e.End != last {
				if e.End {
					fail("frame-after-end-stream", "%v follows END_STREAM", frames[j+1])
				} else {
					fail("no-end-stream", "last frame %v has no END_STREAM", e)
				}
				bad = true
				break
			}
			if e.HdrErr != "" {
				fail("undecodable-header-block", "%s", e.HdrErr)
				bad = true
				break
			}
			switch {
			case j == 0:
			case e.Type == xh2.FrameData:
				if trailerFrame != nil {
					fail("data-after-trailers", "%v", e)
					bad = true
				}
				body = append(body, e.Data...)
			case e.Type == xh2.FrameHeaders:
				if trailerFrame != nil {
					fail("second-trailers", "%v", e)
					bad = true
				}
				trailerFrame = e
			default:
				fail("unexpected-frame", "%v", e)
				bad = true
			}
			if bad {
				break
			}
		}
		if bad {
			continue
		}
		// status and headers
		hf := frames[0].Fields
		if len(hf) == 0 || hf[0].Name != ":status" {
			fail("status-missing", "first field of the response is %v", hf)
			continue
		}
		if hf[0].Value != strconv.Itoa(m.status) {
			fail("status-mismatch", ":status %q, handler's status %d", hf[0].Value, m.status)
			continue
		}
		var got []kv
		for _, f := range hf[1:] {
			if strings.HasPrefix(f.Name, ":") {
				fail("extra-pseudo-header", "%q", f.Name)
				bad = true
			}
			if f.Name != strings.ToLower(f.Name) {
				fail("header-name-not-lower-case", "%q", f.Name)
				bad = true
			}
			if c38ConnSpecific[f.Name] {
				fail("connection-specific-header-sent", "%s: %s", f.Name, f.Value)
				bad = true
			}
			got = append(got, kv{f.Name, f.Value})
		}
		if bad {
			continue
		}
		gm, wm := multiset(got), multiset(wantHdr)
		for f, n := range wm {
			if gm[f] < n {
				fail("header-missing", "handler header %s: %q sent %d times, want %d", f.k, f.v, gm[f], n)
				bad = true
				break
			}
		}
		if bad {
			continue
		}
		for f, n := range gm {
			if n > wm[f] {
				allowed := (f.k == "content-type" || f.k == "content-length" || f.k == "date") && !handlerSet[f.k]
				if !allowed {
					fail("unexpected-header", "response carries %s: %q which the handler's header snapshot does not contain (%d times)", f.k, f.v, n-wm[f])
					bad = true
					break
				}
				if f.k == "content-length" {
					written := 0
					for _, oi := range q.writes {
						if oi < len(res) {
							written += res[oi].N
						}
					}
					if f.v != strconv.Itoa(written) && !c38Bodyless(m.status) {
						fail("server-content-length-wrong", "server added content-length %s, handler wrote %d octets", f.v, written)
						bad = true
						break
					}
				}
			}
		}
		if bad {
			continue
		}
		// body
		if !bytes.Equal(body, wantBody) {
			fail("body-mismatch", "body of %d octets, handler wrote %d (bodyless=%v); first difference at %d", len(body), len(wantBody), bodyless, firstDiff(body, wantBody))
			continue
		}
		// trailers
		if q.method == "HEAD" {
			if trailerFrame != nil {
				fail("trailers-on-head", "%v", trailerFrame)
			}
			continue
		}
		if trailerFrame == nil {
			if len(wantTrailer) > 0 && !c38Bodyless(m.status) {
				fail("trailers-missing", "declared trailers %v were not sent", wantTrailer)
			}
			continue
		}
		var gotT []kv
		for _, f := range trailerFrame.Fields {
			if strings.HasPrefix(f.Name, ":") || f.Name != strings.ToLower(f.Name) {
				fail("bad-trailer-field-name", "%q", f.Name)
				bad = true
			}
			gotT = append(gotT, kv{f.Name, f.Value})
		}
		if bad {
			continue
		}
		gt, wt := multiset(gotT), multiset(wantTrailer)
		same := len(gt) == len(wt)
		for f, n := range wt {
			if gt[f] != n {
				same = false
			}
		}
		if !same {
			fail("trailers-mismatch", "trailers %v, want %v", gotT, wantTrailer)
		}
	}
	if inconclusive != "" {
		rec.Excluded("inconclusive-" + inconclusive)
	}
}

func firstDiff(a, b []byte) int {
	n := len(a)
	if len(b) < n {
		n = len(b)
	}
	for i := 0; i < n; i++ {
		if a[i] != b[i] {
			return i
		}
	}
	return n
}

func TestC38(t *testing.T) {
	rec := ev.New("C38", "1..3 sequential requests (GET/HEAD/POST) per connection, each answered by a generated handler script: header Set/Add/Del with random-case names incl. connection-specific ones, right/wrong/absent Content-Length, Trailer declarations (one line or several, incl. forbidden names), explicit status 100..599 / implicit 200 / second WriteHeader, 0..5 Write/WriteString of 0..40000 octets with flushes, header changes after the header was written, trailer values set or left unset, Trailer:-prefixed late trailers. non-trivial: trailers declared or a flush or a body-less response; distinct by the handler script")
	rapid.Check(t, func(rt *rapid.T) { c38Run(rt, rec) })
}

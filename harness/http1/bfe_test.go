package http1

// Driving the code under test the way bfe_server/http_conn.go does:
// one bfe_bufio.Reader per connection, bfe_http.ReadRequest repeatedly,
// body drained before the next request is read.

import (
	"errors"
	"fmt"
	"io"

	"github.com/bfenetworks/bfe/bfe_bufio"
	"github.com/bfenetworks/bfe/bfe_http"
	"pgregory.net/rapid"

	"verif/harness/internal/ev"
)

// uni draws an (approximately) uniform integer in [0,n). rapid's own integer
// generators are deliberately biased towards small values, which would make
// "one in n" features fire far too often; the draw is still a rapid draw
// (reproducible from the seed, shrinks towards 0).
func uni(rt *rapid.T, label string, n int) int {
	if n <= 1 {
		return 0
	}
	x := rapid.Uint64().Draw(rt, label)
	x ^= x >> 33
	x *= 0xff51afd7ed558ccd
	x ^= x >> 33
	x *= 0xc4ceb9fe1a85ec53
	x ^= x >> 33
	return int(x % uint64(n))
}

const maxURIBytes = 8192 // conf/bfe.conf MaxHeaderUriBytes default

// segReader hands out the stream in pieces (like TCP segments) and counts
// what it handed out, so that the offset consumed by the parser is
// handed - Buffered().
type segReader struct {
	s      []byte
	pos    int
	segs   []int // successive maximum piece sizes; the last one repeats; empty = unlimited
	segIdx int
}

func (r *segReader) Read(p []byte) (int, error) {
	if r.pos >= len(r.s) {
		return 0, io.EOF
	}
	n := len(p)
	if len(r.segs) > 0 {
		lim := r.segs[r.segIdx]
		if r.segIdx < len(r.segs)-1 {
			r.segIdx++
		}
		if lim < 1 {
			lim = 1
		}
		if n > lim {
			n = lim
		}
	}
	if n > len(r.s)-r.pos {
		n = len(r.s) - r.pos
	}
	copy(p, r.s[r.pos:r.pos+n])
	r.pos += n
	return n, nil
}

var (
	errBodyExceedsInput = errors.New("harness: body reader returned more bytes than the connection carried")
	errReadNoProgress   = errors.New("harness: body reader keeps returning (0, nil)")
)

// drain reads r to EOF with a read size derived from the case (so different
// clamp paths are exercised). It never loops forever: a body longer than the
// whole input or 1000 consecutive empty reads are returned as sentinel errors
// (count based, no clock).
func drain(r io.Reader, inputLen int) ([]byte, error) {
	tmp := make([]byte, []int{512, 1, 7, 4096, 3, 64}[inputLen%6])
	var out []byte
	empty := 0
	for {
		n, err := r.Read(tmp)
		out = append(out, tmp[:n]...)
		if len(out) > inputLen {
			return out, errBodyExceedsInput
		}
		if err == io.EOF {
			return out, nil
		}
		if err != nil {
			return out, err
		}
		if n == 0 {
			if empty++; empty > 1000 {
				return out, errReadNoProgress
			}
		} else {
			empty = 0
		}
	}
}

type bfeConn struct {
	sr *segReader
	br *bfe_bufio.Reader
}

func newBfeConn(stream []byte, segs []int) *bfeConn {
	sr := &segReader{s: stream, segs: segs}
	return &bfeConn{sr: sr, br: bfe_bufio.NewReader(sr)}
}

func (c *bfeConn) offset() int { return c.sr.pos - c.br.Buffered() }

type bfeReq struct {
	Method, Target, Proto string
	Keys                  []string
	Header                map[string][]string
	Host                  string
	TE                    []string
	CL                    int64
	Body                  []byte
	Trailer               map[string][]string
	End                   int
}

// next reads one request and drains its body. err != nil means bfe did not
// accept a (complete) request at this point. A panic inside bfe is returned
// as panicVal.
func (c *bfeConn) next() (r *bfeReq, err error, panicVal any) {
	panicVal = ev.Try(func() {
		var req *bfe_http.Request
		req, err = bfe_http.ReadRequest(c.br, maxURIBytes)
		if err != nil {
			return
		}
		var body []byte
		if req.Body != nil {
			body, err = drain(req.Body, len(c.sr.s))
			if err != nil {
				err = fmt.Errorf("body: %w", err)
				return
			}
		}
		r = &bfeReq{Method: req.Method, Target: req.RequestURI, Proto: req.Proto,
			Keys: []string(req.HeaderKeys), Header: map[string][]string(req.Header), Host: req.Host,
			TE: req.TransferEncoding, CL: req.ContentLength, Body: body,
			Trailer: map[string][]string(req.Trailer), End: c.offset()}
	})
	return
}

// nextResponse reads one response (ReadResponse with a nil request, as a GET)
// and drains its body.
func (c *bfeConn) nextResponse() (body []byte, end int, err error, panicVal any) {
	panicVal = ev.Try(func() {
		var resp *bfe_http.Response
		resp, err = bfe_http.ReadResponse(c.br, nil)
		if err != nil {
			return
		}
		body, err = drain(resp.Body, len(c.sr.s))
		if err != nil {
			err = fmt.Errorf("body: %w", err)
			return
		}
		end = c.offset()
	})
	return
}

package http1

// Reference HTTP/1.x request parser and chunked decoder, written from
// RFC 7230 (sections 3, 3.1.1, 3.2, 3.2.4, 3.3.1, 3.3.2, 3.3.3, 3.5, 4.1, 7).
// It shares no code with net/http, net/textproto or bfe. It is deliberately
// naive: whole input in memory, byte offsets everywhere.
//
// Verdicts are three-valued (plus two bookkeeping values):
//   vAccept      the message is grammatical; the parse is THE parse
//   vMay         grammatical only under a leniency RFC 7230 explicitly allows
//                (3.5 bare LF / leading empty line, 3.2.4 obs-fold replaced by
//                SP, 3 whitespace-preceded lines after the start-line consumed,
//                3.3.2 identical duplicate Content-Length, 3.3.3 TE overrides
//                CL ...). The parse is the one the RFC prescribes if the
//                recipient chooses not to reject.
//   vMustReject  a recipient must not accept the message (classes name why)
//   vUnjudged    malformed in a way the properties do not name (request-line
//                syntax, HTTP version): the checks stop comparing here
//   vEnd         no bytes left

import (
	"bytes"
	"strings"
)

type verdict int

const (
	vAccept verdict = iota
	vMay
	vMustReject
	vUnjudged
	vEnd
)

func (v verdict) String() string {
	return [...]string{"ACCEPT", "MAY", "MUST-REJECT", "UNJUDGED", "END"}[v]
}

type field struct {
	Name  string // as received
	Value string // OWS-trimmed; obs-fold replaced by a single SP
	Fold  bool
}

type refReq struct {
	V        verdict
	Classes  []string // reject classes (vMustReject) or the unjudged reason
	Notes    []string // leniencies used (vMay) / informational
	Start    int      // offset of the first byte looked at
	End      int      // offset one past the message
	Method   string
	Target   string
	Version  string
	Minor    int
	Fields   []field
	Chunked  bool
	Body     []byte
	Trailers []field
	HasExt   bool // some chunk carried a chunk-ext
}

func (r *refReq) note(n string) {
	for _, x := range r.Notes {
		if x == n {
			return
		}
	}
	r.Notes = append(r.Notes, n)
}

func (r *refReq) class(c string) {
	for _, x := range r.Classes {
		if x == c {
			return
		}
	}
	r.Classes = append(r.Classes, c)
}

func (r *refReq) hasNote(n string) bool {
	for _, x := range r.Notes {
		if x == n {
			return true
		}
	}
	return false
}

// tchar per RFC 7230 3.2.6
func isTchar(b byte) bool {
	switch {
	case b >= '0' && b <= '9', b >= 'a' && b <= 'z', b >= 'A' && b <= 'Z':
		return true
	}
	return strings.IndexByte("!#$%&'*+-.^_`|~", b) >= 0
}

func isToken(s string) bool {
	if len(s) == 0 {
		return false
	}
	for i := 0; i < len(s); i++ {
		if !isTchar(s[i]) {
			return false
		}
	}
	return true
}

func isOWS(b byte) bool { return b == ' ' || b == '\t' }

func trimOWS(s string) string {
	i, j := 0, len(s)
	for i < j && isOWS(s[i]) {
		i++
	}
	for j > i && isOWS(s[j-1]) {
		j--
	}
	return s[i:j]
}

func allDigits(s string) bool {
	if len(s) == 0 {
		return false
	}
	for i := 0; i < len(s); i++ {
		if s[i] < '0' || s[i] > '9' {
			return false
		}
	}
	return true
}

// refLine returns the line starting at pos without its terminator, the offset
// after the terminator and the terminator kind: "crlf", "lf" or "eof" (no LF
// in the rest of the input).
func refLine(s []byte, pos int) (line []byte, next int, term string) {
	i := bytes.IndexByte(s[pos:], '\n')
	if i < 0 {
		return s[pos:], len(s), "eof"
	}
	end := pos + i
	if end > pos && s[end-1] == '\r' {
		return s[pos : end-1], end + 1, "crlf"
	}
	return s[pos:end], end + 1, "lf"
}

// canonName is the documented canonical form of a field name: first letter
// and letters after '-' upper case, the rest lower case.
func canonName(n string) string {
	b := []byte(n)
	up := true
	for i, c := range b {
		if up && c >= 'a' && c <= 'z' {
			b[i] = c - 32
		} else if !up && c >= 'A' && c <= 'Z' {
			b[i] = c + 32
		}
		up = c == '-'
	}
	return string(b)
}

// ---------------------------------------------------------------------------
// header block (shared by requests and, loosely, trailers)

// refHeaderBlock parses field lines from pos up to and including the empty
// line. ok=false means the input ended first.
//
// Lines are first unfolded (3.2.4: a line starting with SP/HTAB continues the
// previous line; obs-fold is only legitimate inside a field-value, so a fold
// before the colon simply makes the field-name contain whitespace), then each
// logical line is parsed as field-name ":" OWS field-value OWS.
func refHeaderBlock(r *refReq, s []byte, pos int) (fields []field, next int, ok bool) {
	type logical struct {
		text string
		fold bool
	}
	var lines []logical
	for {
		line, nx, term := refLine(s, pos)
		if term == "eof" {
			if len(lines) == 0 && len(line) > 0 && isOWS(line[0]) {
				// informational (names the finding if such a request is accepted)
				if len(trimOWS(string(line))) == 0 {
					r.note("first-line-ws-only")
				} else {
					r.note("first-line-ws")
				}
			}
			return nil, len(s), false
		}
		if term == "lf" {
			r.note("bare-lf")
		}
		pos = nx
		if len(line) == 0 {
			break
		}
		if isOWS(line[0]) {
			if len(lines) == 0 {
				// RFC 7230 3: whitespace between the start-line and the first
				// header field: reject, or consume the line without processing.
				if len(trimOWS(string(line))) == 0 {
					r.note("first-line-ws-only")
				} else {
					r.note("first-line-ws")
				}
				continue
			}
			// obs-fold (3.2.4): reject or replace by SP.
			r.note("obs-fold")
			l := &lines[len(lines)-1]
			l.text = l.text + " " + trimOWS(string(line))
			l.fold = true
			continue
		}
		lines = append(lines, logical{text: string(line)})
	}
	for _, l := range lines {
		colon := strings.IndexByte(l.text, ':')
		if colon < 0 {
			r.class("no-colon")
			continue
		}
		name := l.text[:colon]
		value := trimOWS(l.text[colon+1:])
		if len(name) == 0 {
			r.class("empty-field-name")
			continue
		}
		stripped := strings.TrimRight(name, " \t")
		if stripped != name {
			r.class("ws-before-colon")
			if stripped != "" && !isToken(stripped) {
				r.class("invalid-name-byte")
			}
		} else if !isToken(name) {
			r.class("invalid-name-byte")
		}
		for i := 0; i < len(value); i++ {
			if c := value[i]; (c < 0x20 && c != '\t') || c == 0x7f {
				r.note("ctl-in-value")
				break
			}
		}
		fields = append(fields, field{Name: name, Value: value, Fold: l.fold})
	}
	return fields, pos, true
}

// ---------------------------------------------------------------------------
// Transfer-Encoding / Content-Length (3.3.1 - 3.3.3)

type teResult struct {
	chunked bool   // framing is chunked
	class   string // non-empty: must reject
	notes   []string
}

func isUnicodeSpaceTrimmedChunked(tok string) bool {
	// only used to NAME the finding, not to judge: an invalid coding name that a
	// Unicode-space trimmer would turn into a token
	t := strings.TrimSpace(tok)
	return t != tok && isToken(t)
}

func analyzeTE(vals []string) teResult {
	type coding struct {
		name    string
		invalid bool
		nonstd  bool
	}
	var codings []coding
	var res teResult
	for _, v := range vals {
		for _, el := range strings.Split(v, ",") {
			el = trimOWS(el)
			if el == "" {
				continue // empty list elements are ignored (RFC 7230 7)
			}
			name := el
			if i := strings.IndexByte(el, ';'); i >= 0 {
				name = trimOWS(el[:i])
				res.notes = append(res.notes, "te-params")
			}
			c := coding{name: strings.ToLower(name)}
			if !isToken(name) {
				c.invalid = true
				c.nonstd = isUnicodeSpaceTrimmedChunked(name)
			}
			codings = append(codings, c)
		}
	}
	if len(codings) == 0 {
		res.class = "te-empty"
		return res
	}
	// the first offending coding (in list order) names the class
	for i, c := range codings {
		switch {
		case c.invalid && c.nonstd:
			res.class = "te-nonstd-ws"
		case c.invalid:
			res.class = "te-invalid-token"
		case c.name == "identity":
			res.class = "te-identity"
		case c.name != "chunked" && i == len(codings)-1:
			res.class = "te-not-last-chunked"
		case c.name != "chunked":
			res.class = "te-unsupported"
		}
		if res.class != "" {
			return res
		}
	}
	res.chunked = true
	if len(codings) > 1 {
		res.notes = append(res.notes, "te-chunked-twice")
	}
	return res
}

type clResult struct {
	n     int64
	class string
	notes []string
}

func classifyBadCL(v string) string {
	switch {
	case v == "":
		return "cl-empty"
	case v[0] == '+' && allDigits(v[1:]):
		return "cl-plus-sign"
	case v[0] == '-' && allDigits(v[1:]) && strings.Trim(v[1:], "0") == "":
		return "cl-minus-zero"
	}
	// naming only: padding that a Unicode-space trimmer would remove
	if t := strings.TrimSpace(v); t != v {
		if t == "" || allDigits(t) || (t[0] == '+' || t[0] == '-') && allDigits(t[1:]) {
			return "cl-nonstd-ws"
		}
	}
	return "cl-invalid"
}

const clHuge = int64(1) << 62

func parseDigits(v string) int64 {
	v = strings.TrimLeft(v, "0")
	if len(v) > 18 {
		return clHuge
	}
	var n int64
	for i := 0; i < len(v); i++ {
		n = n*10 + int64(v[i]-'0')
	}
	return n
}

func analyzeCL(vals []string) clResult {
	var res clResult
	var nums []int64
	for _, v := range vals {
		if allDigits(v) {
			nums = append(nums, parseDigits(v))
			continue
		}
		// "Content-Length: 42, 42" (3.3.2): a list of valid values
		els := strings.Split(v, ",")
		okList := len(els) > 1
		for i := range els {
			els[i] = trimOWS(els[i])
			if !allDigits(els[i]) {
				okList = false
			}
		}
		if !okList {
			res.class = classifyBadCL(v)
			if len(nums) > 0 {
				// valid field line(s) first, a bad one later: the same situation as
				// differing values (some Content-Length field contradicts the first)
				res.class = "cl-conflict"
			}
			return res
		}
		res.notes = append(res.notes, "cl-list")
		for _, e := range els {
			nums = append(nums, parseDigits(e))
		}
	}
	for _, n := range nums[1:] {
		if n != nums[0] {
			res.class = "cl-conflict"
			return res
		}
	}
	if len(nums) > 1 {
		res.notes = append(res.notes, "cl-duplicate")
	}
	res.n = nums[0]
	return res
}

// ---------------------------------------------------------------------------
// chunked body (4.1)

type chunkedResult struct {
	V        verdict // vAccept, vMay, vMustReject
	Class    string  // reject class
	Notes    []string
	Body     []byte
	End      int
	NChunks  int // data chunks
	HasExt   bool
	Trailers []field
	EdgeSize bool // some size line is not the minimal lower/upper hex form
}

func isHex(b byte) bool {
	return b >= '0' && b <= '9' || b >= 'a' && b <= 'f' || b >= 'A' && b <= 'F'
}

func hexVal(b byte) uint64 {
	switch {
	case b >= '0' && b <= '9':
		return uint64(b - '0')
	case b >= 'a' && b <= 'f':
		return uint64(b-'a') + 10
	}
	return uint64(b-'A') + 10
}

// validChunkExt: *( BWS ";" BWS token [ BWS "=" BWS ( token / quoted-string ) ] )
func validChunkExt(e string) bool {
	i := 0
	skip := func() {
		for i < len(e) && isOWS(e[i]) {
			i++
		}
	}
	tok := func() bool {
		st := i
		for i < len(e) && isTchar(e[i]) {
			i++
		}
		return i > st
	}
	for {
		skip()
		if i == len(e) {
			return true
		}
		if e[i] != ';' {
			return false
		}
		i++
		skip()
		if !tok() {
			return false
		}
		save := i
		skip()
		if i < len(e) && e[i] == '=' {
			i++
			skip()
			if i < len(e) && e[i] == '"' {
				i++
				for i < len(e) && e[i] != '"' {
					if e[i] == '\\' {
						i++
					}
					i++
				}
				if i >= len(e) {
					return false
				}
				i++
			} else if !tok() {
				return false
			}
		} else {
			i = save
		}
	}
}

func refChunked(s []byte, pos int) (res chunkedResult) {
	res.V = vAccept
	note := func(n string) {
		for _, x := range res.Notes {
			if x == n {
				return
			}
		}
		res.Notes = append(res.Notes, n)
		res.V = vMay
	}
	reject := func(c string) chunkedResult {
		res.V = vMustReject
		res.Class = c
		res.End = pos
		return res
	}
	for {
		line, nx, term := refLine(s, pos)
		if term == "eof" {
			return reject("truncated")
		}
		if term == "lf" {
			note("bare-lf")
		}
		l := string(line)
		// trailing whitespace / stray CR before the terminator: not in the
		// grammar, but cannot change the framing; treated as a leniency.
		if t := strings.TrimRight(l, " \t\r"); t != l {
			note("size-trailing-ws")
			l = t
		}
		sizePart, ext := l, ""
		if i := strings.IndexByte(l, ';'); i >= 0 {
			sizePart, ext = l[:i], l[i:]
			if t := strings.TrimRight(sizePart, " \t"); t != sizePart {
				note("ext-bws")
				sizePart = t
			}
			res.HasExt = true
			if !validChunkExt(ext) {
				note("ext-malformed")
			}
		}
		if len(sizePart) == 0 {
			return reject("chunk-size-empty")
		}
		for i := 0; i < len(sizePart); i++ {
			if !isHex(sizePart[i]) {
				return reject("chunk-size-nonhex")
			}
		}
		if len(sizePart) > 16 {
			if len(strings.TrimLeft(sizePart, "0")) > 16 {
				return reject("chunk-size-overflow")
			}
			return reject("chunk-size-too-long")
		}
		var size uint64
		for i := 0; i < len(sizePart); i++ {
			size = size<<4 | hexVal(sizePart[i])
		}
		if len(sizePart) > 1 && sizePart[0] == '0' || len(sizePart) >= 8 {
			res.EdgeSize = true
		}
		pos = nx
		if size == 0 {
			break
		}
		if size > uint64(len(s)-pos) {
			pos = len(s)
			return reject("truncated")
		}
		res.Body = append(res.Body, s[pos:pos+int(size)]...)
		res.NChunks++
		pos += int(size)
		switch {
		case pos+1 < len(s) && s[pos] == '\r' && s[pos+1] == '\n':
			pos += 2
		case pos < len(s) && s[pos] == '\n':
			note("bare-lf-after-data")
			pos++
		case pos >= len(s) || (s[pos] == '\r' && pos+1 >= len(s)):
			return reject("truncated")
		default:
			return reject("chunk-data-no-crlf")
		}
	}
	// trailer-part CRLF: line based; field syntax problems in trailers do not
	// change the framing and are only noted.
	for {
		line, nx, term := refLine(s, pos)
		if term == "eof" {
			pos = len(s)
			return reject("truncated")
		}
		if term == "lf" {
			note("bare-lf")
		}
		pos = nx
		if len(line) == 0 {
			break
		}
		if isOWS(line[0]) {
			if len(res.Trailers) == 0 {
				if trimOWS(string(line)) == "" {
					note("trailer-first-line-ws-only")
				} else {
					note("trailer-first-line-ws")
				}
			} else {
				note("trailer-obs-fold")
			}
			continue
		}
		colon := bytes.IndexByte(line, ':')
		if colon < 0 {
			note("trailer-no-colon")
			continue
		}
		name := string(line[:colon])
		if !isToken(name) {
			note("trailer-bad-name")
		}
		res.Trailers = append(res.Trailers, field{Name: name, Value: trimOWS(string(line[colon+1:]))})
	}
	res.End = pos
	return res
}

// ---------------------------------------------------------------------------
// request

func validTarget(t string) bool {
	if t == "" {
		return false
	}
	for i := 0; i < len(t); i++ {
		if c := t[i]; c <= 0x20 || c == 0x7f {
			return false
		}
	}
	return true
}

// refParseRequest parses one request starting at pos.
func refParseRequest(s []byte, pos int) *refReq {
	r := &refReq{V: vAccept, Start: pos}
	finish := func() *refReq {
		if r.V == vAccept && len(r.Notes) > 0 {
			r.V = vMay
		}
		return r
	}
	reject := func(classes ...string) *refReq {
		r.V = vMustReject
		r.Classes = classes
		r.End = pos
		return r
	}
	unjudged := func(why string) *refReq {
		r.V = vUnjudged
		r.Classes = []string{why}
		r.End = pos
		return r
	}
	// 3.5: empty lines before the request-line may be ignored
	var line []byte
	for {
		if pos >= len(s) {
			r.V = vEnd
			r.End = pos
			return r
		}
		l, nx, term := refLine(s, pos)
		if term == "eof" {
			pos = len(s)
			return reject("truncated")
		}
		pos = nx
		if len(l) == 0 {
			r.note("leading-empty-line")
			continue
		}
		if term == "lf" {
			r.note("bare-lf")
		}
		line = l
		break
	}
	// request-line = method SP request-target SP HTTP-version
	parts := strings.Split(string(line), " ")
	if len(parts) != 3 {
		return unjudged("bad-request-line")
	}
	r.Method, r.Target, r.Version = parts[0], parts[1], parts[2]
	if !isToken(r.Method) || !validTarget(r.Target) {
		return unjudged("bad-request-line")
	}
	v := r.Version
	if len(v) != 8 || v[:5] != "HTTP/" || v[5] != '1' || v[6] != '.' || v[7] < '0' || v[7] > '9' {
		return unjudged("bad-version")
	}
	r.Minor = int(v[7] - '0')

	fields, nx, ok := refHeaderBlock(r, s, pos)
	pos = nx
	if !ok {
		return reject("truncated")
	}
	r.Fields = fields
	if len(r.Classes) > 0 {
		// field syntax errors: anything derived from the fields is moot
		return reject(r.Classes...)
	}
	var te, cl []string
	for _, f := range fields {
		switch strings.ToLower(f.Name) {
		case "transfer-encoding":
			te = append(te, f.Value)
		case "content-length":
			cl = append(cl, f.Value)
		}
	}
	switch {
	case len(te) > 0:
		tr := analyzeTE(te)
		if tr.class != "" {
			key := tr.class
			if first := analyzeTE(te[:1]); len(te) > 1 && first.class == "" {
				key = "te-multi-line" // the first field line alone would be fine
			}
			return reject(key)
		}
		for _, n := range tr.notes {
			r.note(n)
		}
		if len(cl) > 0 {
			r.note("te-and-cl")
		}
		if r.Minor == 0 {
			r.note("te-http10")
		}
		r.Chunked = true
		cr := refChunked(s, pos)
		pos = cr.End
		if cr.V == vMustReject {
			if cr.Class == "truncated" {
				return reject("truncated")
			}
			// a chunked body that must be rejected: accepting the request would
			// give it boundaries no RFC 7230 parser assigns
			return reject("chunked-body:" + cr.Class)
		}
		for _, n := range cr.Notes {
			r.note("body-" + n)
		}
		r.Body, r.Trailers, r.HasExt = cr.Body, cr.Trailers, cr.HasExt
	case len(cl) > 0:
		c := analyzeCL(cl)
		if c.class != "" {
			return reject(c.class)
		}
		for _, n := range c.notes {
			r.note(n)
		}
		if c.n > int64(len(s)-pos) {
			pos = len(s)
			return reject("truncated")
		}
		r.Body = s[pos : pos+int(c.n)]
		pos += int(c.n)
	}
	r.End = pos
	return finish()
}

package http1

// C24, connection level: the bytes of one keep-alive connection are framed by
// bfe's server loop (bfe_server conn.serve: ReadRequest, handlers, response,
// finishRequest, next ReadRequest), not by ReadRequest alone. Whatever a
// handler does with the body - in particular when a module answers without
// reading it (mod_redirect, mod_block, mod_static ... or bfe's own 500), with
// or without "Expect: 100-continue" - the requests bfe serves on the
// connection must be the ones the reference parser finds in the byte stream,
// in order (bfe may stop early by closing the connection).
//
// Rig: one in-process BFE (internal/sys, assembled like StartUp), a filter at
// HandleBeforeLocation (the documented module callback interface) that records
// every request it is given and replies 200; with "X-Read: 1" it reads the
// body first (as the proxy path does). The client writes the whole pipelined
// stream, the last request carries "Connection: close", and reads to EOF.

import (
	"bytes"
	"fmt"
	"io"
	"sync"
	"time"

	"github.com/bfenetworks/bfe/bfe_basic"
	"github.com/bfenetworks/bfe/bfe_http"
	"github.com/bfenetworks/bfe/bfe_module"
	"github.com/bfenetworks/bfe/bfe_server"
	"pgregory.net/rapid"

	"verif/harness/internal/ev"
	"verif/harness/internal/sys"
)

type c24Served struct {
	Method, Target string
	Read           bool
	Body           []byte
	ReadErr        error
}

var (
	c24RigOnce sync.Once
	c24Rig     *sys.Rig
	c24RigErr  error
	c24LogMu   sync.Mutex
	c24Log     = map[string][]c24Served{} // client address -> requests served
)

func c24StartRig() (*sys.Rig, error) {
	c24RigOnce.Do(func() {
		c24Rig, c24RigErr = sys.Start(sys.Options{ClientReadTimeout: 15, AfterInit: func(srv *bfe_server.BfeServer) error {
			return srv.CallBacks.AddFilter(bfe_module.HandleBeforeLocation,
				func(req *bfe_basic.Request) (int, *bfe_http.Response) {
					r := req.HttpRequest
					e := c24Served{Method: r.Method, Target: r.RequestURI}
					if r.Header.Get("X-Read") != "" && r.Body != nil {
						e.Read = true
						e.Body, e.ReadErr = io.ReadAll(r.Body)
					}
					c24LogMu.Lock()
					c24Log[r.RemoteAddr] = append(c24Log[r.RemoteAddr], e)
					c24LogMu.Unlock()
					return bfe_module.BfeHandlerResponse, bfe_basic.CreateInternalResp(req, 200)
				})
		}})
	})
	return c24Rig, c24RigErr
}

// c24ServerCase sends stream on one connection and checks what was served.
func c24ServerCase(tb ev.TB, rec *ev.Rec, stream []byte, feats []string) bool {
	rig, err := c24StartRig()
	if err != nil {
		tb.Fatalf("INFRA: cannot start the in-process BFE: %v", err)
		return false
	}
	// reference parse of the whole stream
	var refs []*refReq
	for pos := 0; len(refs) < c24MaxReqs; {
		r := refParseRequest(stream, pos)
		if r.V != vAccept && r.V != vMay {
			break
		}
		refs = append(refs, r)
		pos = r.End
	}
	labels := []string{"gen:server"}
	for _, f := range feats {
		labels = append(labels, "f:"+f)
	}
	conn, err := rig.Dial()
	if err != nil {
		tb.Fatalf("INFRA: dial: %v", err)
		return false
	}
	defer conn.Close()
	addr := conn.LocalAddr().String()
	conn.SetWriteDeadline(time.Now().Add(20 * time.Second))
	if _, err := conn.Write(stream); err != nil {
		labels = append(labels, "server:write-error")
	}
	resp, closed := sys.ReadAllTimeout(conn, 30*time.Second)
	c24LogMu.Lock()
	served := c24Log[addr]
	delete(c24Log, addr)
	c24LogMu.Unlock()
	labels = append(labels, fmt.Sprintf("server:served-%d-of-%d", len(served), len(refs)))
	if !closed {
		labels = append(labels, "server:inconclusive-not-closed")
	}
	rec.Case("server|"+fmt.Sprintf("%x", stream), true, labels...)
	if !closed {
		return true // watchdog hit: inconclusive, never a violation
	}
	var got, want []string
	for _, s := range served {
		got = append(got, s.Method+" "+s.Target)
	}
	for _, r := range refs {
		want = append(want, r.Method+" "+r.Target)
	}
	w := map[string]any{"stream": string(stream), "stream_hex": fmt.Sprintf("%x", stream), "features": feats,
		"served": got, "reference": want, "responses": clip(resp, 600)}
	for i, s := range served {
		if i >= len(refs) || got[i] != want[i] {
			return rec.Fail(tb, "server-request-sequence", w,
				"bfe served %q on one connection; the byte stream contains the requests %q (request %d is not a request of the stream: body bytes were parsed as a request, or a request was skipped)\nstream: %s",
				got, want, i, clip(stream, 400))
		}
		if s.Read && s.ReadErr == nil && !bytes.Equal(s.Body, refs[i].Body) {
			return rec.Fail(tb, "server-body-mismatch", w, "request %d (%s): handler read body %s, reference body %s", i, got[i], clip(s.Body, 80), clip(refs[i].Body, 80))
		}
	}
	return true
}

// genServerStream: 2..4 well-formed requests; bodies with Content-Length or
// chunked framing, often carrying bytes that look like a request; optional
// Expect: 100-continue; the handler reads the body only when X-Read is set.
func genServerStream(rt *rapid.T) (stream []byte, feats []string) {
	feat := func(f string) {
		for _, x := range feats {
			if x == f {
				return
			}
		}
		feats = append(feats, f)
	}
	n := 1 + uni(rt, "srv_nreq", 3)
	var b bytes.Buffer
	for i := 0; i < n; i++ {
		method := []string{"POST", "PUT", "GET", "POST"}[uni(rt, "srv_method", 4)]
		fmt.Fprintf(&b, "%s /r%d HTTP/1.1\r\nHost: example.org\r\n", method, i)
		plan := []string{"cl", "cl", "chunked", "none"}[uni(rt, "srv_plan", 4)]
		var payload []byte
		if uni(rt, "srv_embed", 3) != 0 {
			feat("body:embedded-request")
			payload = []byte(fmt.Sprintf("GET /smuggled%d HTTP/1.1\r\nHost: example.org\r\n\r\n", i))
			if uni(rt, "srv_embed2", 3) == 0 {
				payload = append(payload, payload...)
			}
		} else {
			payload = genData(rt, fmt.Sprintf("srv_payload%d", i), 300)
		}
		if len(payload) == 0 {
			payload = []byte("x") // bfe answers 400 to Expect: 100-continue without a body
		}
		if plan != "none" {
			if uni(rt, "srv_expect", 2) == 0 {
				feat("expect-100-continue")
				b.WriteString("Expect: " + []string{"100-continue", "100-Continue"}[uni(rt, "srv_expect_case", 2)] + "\r\n")
			}
			if uni(rt, "srv_read", 4) == 0 {
				feat("handler-reads-body")
				b.WriteString("X-Read: 1\r\n")
			} else {
				feat("handler-ignores-body")
			}
		}
		switch plan {
		case "cl":
			feat("plan:cl")
			fmt.Fprintf(&b, "Content-Length: %d\r\n\r\n%s", len(payload), payload)
		case "chunked":
			feat("plan:te")
			b.WriteString("Transfer-Encoding: chunked\r\n\r\n")
			rest := payload
			for len(rest) > 0 {
				k := 1 + uni(rt, "srv_chunk", len(rest))
				fmt.Fprintf(&b, "%x\r\n%s\r\n", k, rest[:k])
				rest = rest[k:]
			}
			b.WriteString("0\r\n\r\n")
		default:
			feat("plan:none")
			b.WriteString("\r\n")
		}
	}
	b.WriteString("GET /last HTTP/1.1\r\nHost: example.org\r\nConnection: close\r\n\r\n")
	return b.Bytes(), feats
}

// c24ServerSeeds: fixed connection-level streams.
var c24ServerSeeds = func() []string {
	smug := "GET /smuggled HTTP/1.1\r\nHost: example.org\r\n\r\n"
	last := "GET /last HTTP/1.1\r\nHost: example.org\r\nConnection: close\r\n\r\n"
	var out []string
	for _, expect := range []string{"", "Expect: 100-continue\r\n"} {
		for _, read := range []string{"", "X-Read: 1\r\n"} {
			out = append(out,
				fmt.Sprintf("POST /first HTTP/1.1\r\nHost: example.org\r\n%s%sContent-Length: %d\r\n\r\n%s", expect, read, len(smug), smug)+last,
				fmt.Sprintf("POST /first HTTP/1.1\r\nHost: example.org\r\n%s%sTransfer-Encoding: chunked\r\n\r\n%x\r\n%s\r\n0\r\n\r\n", expect, read, len(smug), smug)+last,
				fmt.Sprintf("PUT /first HTTP/1.1\r\nHost: example.org\r\n%s%sContent-Length: %d\r\n\r\n%s", expect, read, len(smug), smug)+
					"GET /second HTTP/1.1\r\nHost: example.org\r\n\r\n"+last)
		}
	}
	return out
}()


package http1

// C23: chunked transfer coding is decoded exactly; chunk-size lines that are
// not 1..16 hex digits (or overflow) and other chunked grammar deviations are
// errors.
//
// Oracle: refChunked (ref_test.go, RFC 7230 4.1). bfe is driven through the
// exported paths ReadRequest / ReadResponse with "Transfer-Encoding: chunked"
// over a bfe_bufio.Reader; encoding through Request.Write / Response.Write
// with unknown length.

import (
	"bytes"
	"errors"
	"fmt"
	"io"
	"strings"
	"testing"

	"pgregory.net/rapid"

	"verif/harness/internal/ev"
)

const c23Rule = "(e) concurrent writers: 2..8 goroutines each writing its own unknown-length request/response to its own yielding writer, every wire image must equal the one produced when written alone. Otherwise: chunked bodies behind a request/response head with Transfer-Encoding: chunked, read via ReadRequest/ReadResponse over bfe_bufio (random head padding and TCP-like segmentation): (a) random bodies x random chunkings written by bfe's own encoder (Request.Write/Response.Write, unknown length); (b) grammar-generated valid streams (upper/lower/mixed hex, leading zeros up to 16 digits, chunk-ext, trailers); (c) one targeted mutation of (b): empty/17+ digit/overflowing/non-hex size lines, trailing ws, bare LF, broken CRLF after data, off-by-one size, truncation, trailer line deviations, random byte edit, each size-line deviation optionally followed by a chunk extension; (d) seed constants. non-trivial: >=2 data chunks or a size-line edge case (leading zeros, >=8 digits, or any size-line mutation); distinct by (mode, padding, tail, chunked bytes)"

const c23Sentinel = "GET /sentinel HTTP/1.1\r\nHost: s\r\n\r\n"

type c23Case struct {
	Mode  string // "request" | "response"
	Pad   int
	Blob  []byte
	Tail  bool
	Segs  []int
	Class string // generator class
	Want  []byte // non-nil: the body the encoder was given
}

func c23Head(mode string, pad int) string {
	var sb strings.Builder
	if mode == "response" {
		sb.WriteString("HTTP/1.1 200 OK\r\n")
	} else {
		sb.WriteString("POST /c23 HTTP/1.1\r\nHost: h\r\n")
	}
	if pad > 0 {
		sb.WriteString("X-Pad: " + strings.Repeat("p", pad) + "\r\n")
	}
	sb.WriteString("Transfer-Encoding: chunked\r\n\r\n")
	return sb.String()
}

func clip(b []byte, n int) string {
	if len(b) > n {
		return fmt.Sprintf("%q...(%d bytes)", b[:n], len(b))
	}
	return fmt.Sprintf("%q", b)
}

func hasAny(list []string, names ...string) bool {
	for _, l := range list {
		for _, n := range names {
			if l == n {
				return true
			}
		}
	}
	return false
}

// c23Check runs one case. Returns false when the case hit an open known finding.
func c23Check(tb ev.TB, rec *ev.Rec, c c23Case) bool {
	head := c23Head(c.Mode, c.Pad)
	stream := append([]byte(head), c.Blob...)
	if c.Tail {
		stream = append(stream, c23Sentinel...)
	}
	ref := refChunked(stream, len(head))

	conn := newBfeConn(stream, c.Segs)
	var body []byte
	var end int
	var err error
	var pv any
	if c.Mode == "response" {
		body, end, err, pv = conn.nextResponse()
	} else {
		var r *bfeReq
		r, err, pv = conn.next()
		if r != nil {
			body, end = r.Body, r.End
		}
	}

	sizeEdge := ref.EdgeSize || strings.HasPrefix(ref.Class, "chunk-size") || hasAny(ref.Notes, "size-trailing-ws", "ext-bws") || strings.HasPrefix(c.Class, "mut:size")
	nt := ref.NChunks >= 2 || sizeEdge
	labels := []string{"gen:" + c.Class, "mode:" + c.Mode, "ref:" + ref.V.String()}
	if ref.Class != "" {
		labels = append(labels, "refclass:"+ref.Class)
	}
	for _, n := range ref.Notes {
		labels = append(labels, "note:"+n)
	}
	if ref.HasExt {
		labels = append(labels, "has-ext")
	}
	if len(ref.Trailers) > 0 {
		labels = append(labels, "has-trailers")
	}
	if err == nil {
		labels = append(labels, "bfe:accept")
	} else {
		labels = append(labels, "bfe:reject")
	}
	if ref.NChunks >= 2 {
		labels = append(labels, "chunks>=2")
	}
	if len(c.Segs) > 0 {
		labels = append(labels, "segmented")
	}
	rec.Case(fmt.Sprintf("%s|%d|%v|%x", c.Mode, c.Pad, c.Tail, c.Blob), nt, labels...)

	w := map[string]any{"mode": c.Mode, "pad": c.Pad, "tail": c.Tail, "segs": c.Segs, "gen": c.Class,
		"chunked_body": string(c.Blob), "chunked_body_hex": fmt.Sprintf("%x", c.Blob),
		"ref_verdict": ref.V.String(), "ref_class": ref.Class, "ref_notes": ref.Notes,
		"ref_body": clip(ref.Body, 200), "ref_end_rel": ref.End - len(head),
		"bfe_err": fmt.Sprint(err), "bfe_body": clip(body, 200), "bfe_end_rel": end - len(head)}

	if pv != nil {
		return rec.Fail(tb, "panic", w, "bfe panicked decoding %s: %v", clip(c.Blob, 80), pv)
	}
	if errors.Is(err, errBodyExceedsInput) || errors.Is(err, errReadNoProgress) {
		return rec.Fail(tb, "body-reader-runaway", w, "decoding %s: %v (body so far %s)", clip(c.Blob, 120), err, clip(body, 60))
	}
	if c.Want != nil {
		// encoder output must be plain RFC 7230 chunked data carrying exactly the body
		if ref.V != vAccept || ref.HasExt || !bytes.Equal(ref.Body, c.Want) || ref.End != len(head)+len(c.Blob) {
			return rec.Fail(tb, "encoder-output-invalid", w, "bfe's chunked encoder output is not a valid encoding of its input: ref=%s class=%s notes=%v", ref.V, ref.Class, ref.Notes)
		}
	}
	switch ref.V {
	case vMustReject:
		if err == nil {
			key := ref.Class
			if key == "truncated" {
				key = "truncated-accepted"
			}
			return rec.Fail(tb, key, w, "chunked data that must be rejected (%s) was accepted: %s -> body %s, consumed %d of %d", ref.Class, clip(c.Blob, 120), clip(body, 80), end-len(head), len(c.Blob))
		}
	default:
		if err != nil {
			if ref.V == vAccept && !ref.HasExt {
				return rec.Fail(tb, "valid-rejected", w, "valid chunked data rejected (%v): %s", err, clip(c.Blob, 120))
			}
			return true
		}
		kind := ""
		switch {
		case !bytes.Equal(body, ref.Body):
			kind = "body-mismatch"
		case end != ref.End:
			kind = "boundary-mismatch"
		}
		if kind != "" {
			key := kind
			switch {
			case hasAny(ref.Notes, "trailer-first-line-ws-only"):
				key = "trailer-ws-only-first-line"
			case len(ref.Notes) > 0:
				key = ref.Notes[0] + ":" + kind
			}
			return rec.Fail(tb, key, w, "chunked data framed differently from the reference (%s): %s -> bfe body %s end %d, ref body %s end %d", kind, clip(c.Blob, 120), clip(body, 80), end-len(head), clip(ref.Body, 80), ref.End-len(head))
		}
	}
	return true
}

// ---------------------------------------------------------------------------
// encoder side

type pieceReader struct {
	pieces [][]byte
}

func (p *pieceReader) Read(b []byte) (int, error) {
	for len(p.pieces) > 0 && len(p.pieces[0]) == 0 {
		p.pieces = p.pieces[1:]
	}
	if len(p.pieces) == 0 {
		return 0, io.EOF
	}
	n := copy(b, p.pieces[0])
	p.pieces[0] = p.pieces[0][n:]
	return n, nil
}

// c23Encode writes pieces through bfe's encoder and returns the wire bytes
// after the header block.
func c23Encode(mode string, pieces [][]byte, cl int64) (blob []byte, err error) {
	var buf bytes.Buffer
	if err = c23EncodeWire(&buf, c23EncSpec{Mode: mode, Pieces: pieces, CL: cl}); err != nil {
		return nil, err
	}
	wire := buf.Bytes()
	i := bytes.Index(wire, []byte("\r\n\r\n"))
	if i < 0 || !bytes.Contains(wire[:i+2], []byte("\r\nTransfer-Encoding: chunked\r\n")) {
		return nil, fmt.Errorf("encoder did not choose chunked: %q", clip(wire, 200))
	}
	return wire[i+4:], nil
}

// ---------------------------------------------------------------------------
// generators

var c23DataAlphabet = []string{"a", "b", "0", "5", "f", "\r", "\n", "\r\n", " ", ";", ":", "0\r\n\r\n", "\x00", "\xff", "GET / HTTP/1.1\r\n", "1\r\nZ\r\n"}

func genData(rt *rapid.T, label string, max int) []byte {
	switch uni(rt, label+"_kind", 10) {
	case 0:
		return nil
	case 1, 2, 3:
		parts := rapid.SliceOfN(rapid.SampledFrom(c23DataAlphabet), 1, 12).Draw(rt, label+"_parts")
		return []byte(strings.Join(parts, ""))
	case 4:
		n := rapid.IntRange(1, max).Draw(rt, label+"_n")
		return bytes.Repeat([]byte{byte('A' + n%26)}, n)
	default:
		return rapid.SliceOfN(rapid.Byte(), 1, 40).Draw(rt, label)
	}
}

func genSegs(rt *rapid.T) []int {
	if uni(rt, "segmented", 3) != 0 {
		return nil
	}
	return rapid.SliceOfN(rapid.IntRange(1, 64), 1, 12).Draw(rt, "segs")
}

func genPad(rt *rapid.T) int {
	switch uni(rt, "pad_kind", 4) {
	case 0:
		return 0
	case 1:
		return rapid.IntRange(1, 64).Draw(rt, "pad_small")
	default:
		// put the buffer boundary (4096) somewhere inside the chunked data
		return rapid.IntRange(3900, 4200).Draw(rt, "pad_edge")
	}
}

func fmtHex(rt *rapid.T, n uint64, label string) string {
	h := fmt.Sprintf("%x", n)
	switch uni(rt, label+"_case", 4) {
	case 1:
		h = strings.ToUpper(h)
	case 2:
		b := []byte(h)
		for i := range b {
			if i%2 == 0 && b[i] >= 'a' {
				b[i] -= 32
			}
		}
		h = string(b)
	}
	switch uni(rt, label+"_zeros", 6) {
	case 0:
		h = strings.Repeat("0", rapid.IntRange(1, 16-len(h)).Draw(rt, label+"_nz")) + h
	case 1:
		h = strings.Repeat("0", 16-len(h)) + h // exactly 16 digits
	}
	return h
}

var c23Exts = []string{";a", ";a=b", ";name=\"q;v\\\"x\"", ";a;b=c", " ;a=b", ";a = b", ";", ";=", ";a=\"unterminated"}

type c23Chunk struct {
	sizeLine string // text before the line terminator
	sizeEOL  string
	data     []byte
	dataEOL  string
}

type c23Stream struct {
	chunks   []c23Chunk
	lastLine string
	lastEOL  string
	trailers []string // complete lines incl. terminator
	finalEOL string
}

func (s *c23Stream) render() []byte {
	var b bytes.Buffer
	for _, c := range s.chunks {
		b.WriteString(c.sizeLine)
		b.WriteString(c.sizeEOL)
		b.Write(c.data)
		b.WriteString(c.dataEOL)
	}
	b.WriteString(s.lastLine)
	b.WriteString(s.lastEOL)
	for _, t := range s.trailers {
		b.WriteString(t)
	}
	b.WriteString(s.finalEOL)
	return b.Bytes()
}

var c23TrailerNames = []string{"X-T", "Etag", "x-checksum", "A", "Content-MD5"}
var c23TrailerValues = []string{"v", "", "a b", "\"q\"", "1, 2", "x:y"}

func genValidStream(rt *rapid.T, allowExt bool) *c23Stream {
	s := &c23Stream{lastEOL: "\r\n", finalEOL: "\r\n"}
	n := uni(rt, "nchunks", 6)
	for i := 0; i < n; i++ {
		d := genData(rt, fmt.Sprintf("d%d", i, 6), 300)
		if len(d) == 0 {
			d = []byte("x")
		}
		c := c23Chunk{sizeLine: fmtHex(rt, uint64(len(d)), fmt.Sprintf("sz%d", i)), sizeEOL: "\r\n", data: d, dataEOL: "\r\n"}
		if allowExt && uni(rt, "ext?", 6) == 0 {
			c.sizeLine += rapid.SampledFrom(c23Exts).Draw(rt, "ext")
		}
		s.chunks = append(s.chunks, c)
	}
	s.lastLine = strings.Repeat("0", rapid.SampledFrom([]int{1, 1, 1, 2, 7, 16}).Draw(rt, "lastzeros"))
	if allowExt && uni(rt, "lastext?", 10) == 0 {
		s.lastLine += rapid.SampledFrom(c23Exts).Draw(rt, "lastext")
	}
	nt := rapid.SampledFrom([]int{0, 0, 0, 1, 2, 3}).Draw(rt, "ntrailers")
	for i := 0; i < nt; i++ {
		s.trailers = append(s.trailers, rapid.SampledFrom(c23TrailerNames).Draw(rt, "tn")+": "+rapid.SampledFrom(c23TrailerValues).Draw(rt, "tv")+"\r\n")
	}
	return s
}

var c23NonHex = []string{"+%s", "0x%s", "%sh", "-%s", "%s %s", " %s", "%sg", "\t%s", "%s,", "%s.0", "\"%s\"", "%s\x00", "\x00%s", "%s:"}
var c23DataEOLs = []string{"", "\n", "\r", "\n\r", "XY", "\r\r\n", " \r\n", "\r\n\r\n", "\x00\n"}
var c23BadTrailerFirst = []string{" \r\n", "\t\r\n", "  \t \r\n", " X-T: v\r\n", "\tX-T: v\r\n", "no colon here\r\n", "X-T : v\r\n", ": v\r\n", "X-T: v\n", "X\x00T: v\r\n"}

// genMutatedStream applies one targeted mutation; returns blob, class and
// whether the blob must not be followed by the sentinel.
func genMutatedStream(rt *rapid.T) (blob []byte, class string, noTail bool) {
	s := genValidStream(rt, false)
	if len(s.chunks) == 0 {
		s.chunks = append(s.chunks, c23Chunk{sizeLine: "5", sizeEOL: "\r\n", data: []byte("hello"), dataEOL: "\r\n"})
	}
	ci := rapid.IntRange(0, len(s.chunks)-1).Draw(rt, "ci")
	c := &s.chunks[ci]
	onLast := uni(rt, "on_last", 4) == 0
	hexLen := fmt.Sprintf("%x", len(c.data))
	ops := []string{"size-empty", "size-17plus", "size-overflow", "size-nonhex", "size-trailing-ws",
		"size-bare-lf", "data-eol", "size-off-by-one", "truncate", "trailer", "byte-edit", "size-huge16"}
	op := ops[uni(rt, "op", len(ops))]
	class = "mut:" + op
	switch op {
	case "size-empty":
		if onLast {
			s.lastLine = ""
		} else {
			c.sizeLine = ""
		}
	case "size-17plus":
		z := rapid.SampledFrom([]int{17, 17, 18, 24, 32, 100, 4000, 5000}).Draw(rt, "digits")
		if onLast {
			s.lastLine = strings.Repeat("0", z)
		} else {
			c.sizeLine = strings.Repeat("0", z-len(hexLen)) + hexLen
		}
	case "size-overflow":
		// low 64 bits equal the true length, so a decoder that lets the
		// accumulator wrap sees a perfectly framed body
		pre := rapid.SampledFrom([]string{"1", "f", "10", "8000", "100000000", "deadbeef"}).Draw(rt, "pre")
		if onLast {
			s.lastLine = pre + strings.Repeat("0", 16)
		} else {
			c.sizeLine = pre + strings.Repeat("0", 16-len(hexLen)) + hexLen
		}
	case "size-nonhex":
		f := rapid.SampledFrom(c23NonHex).Draw(rt, "nonhex")
		if onLast {
			s.lastLine = strings.ReplaceAll(f, "%s", "0")
		} else {
			c.sizeLine = strings.ReplaceAll(f, "%s", hexLen)
		}
	case "size-trailing-ws":
		ws := rapid.SampledFrom([]string{" ", "\t", "\r", "  \t", "\r\r"}).Draw(rt, "ws")
		if onLast {
			s.lastLine += ws
		} else {
			c.sizeLine += ws
		}
	case "size-bare-lf":
		if onLast {
			s.lastEOL = "\n"
		} else {
			c.sizeEOL = "\n"
		}
	case "data-eol":
		c.dataEOL = rapid.SampledFrom(c23DataEOLs).Draw(rt, "dataeol")
	case "size-off-by-one":
		d := rapid.SampledFrom([]int{-1, 1, 2, -2, 16}).Draw(rt, "delta")
		if n := len(c.data) + d; n >= 0 {
			c.sizeLine = fmt.Sprintf("%x", n)
		}
	case "size-huge16":
		c.sizeLine = rapid.SampledFrom([]string{"8000000000000000", "ffffffffffffffff", "7fffffffffffffff", "FFFFFFFFFFFFFFFF", "0100000000000000"}).Draw(rt, "huge")
	case "trailer":
		first := rapid.SampledFrom(c23BadTrailerFirst).Draw(rt, "badtrailer")
		s.trailers = append([]string{first}, s.trailers...)
		if rapid.Bool().Draw(rt, "final_bare_lf") {
			s.finalEOL = "\n"
		}
	}
	if strings.HasPrefix(op, "size-") && op != "size-bare-lf" && uni(rt, "mut_ext", 3) == 0 {
		// the same size-line deviation followed by a chunk extension: an
		// implementation that understands extensions cuts the line at ';' and
		// must still apply every size check to what is in front of it
		ext := c23Exts[uni(rt, "mut_ext_form", len(c23Exts))]
		if onLast && op != "size-off-by-one" && op != "size-huge16" {
			s.lastLine += ext
		} else {
			c.sizeLine += ext
		}
		class += "+ext"
	}
	blob = s.render()
	switch op {
	case "truncate":
		if len(blob) > 0 {
			blob = blob[:rapid.IntRange(0, len(blob)-1).Draw(rt, "cut")]
		}
		noTail = uni(rt, "cut_notail", 4) != 0
	case "byte-edit":
		if len(blob) > 0 {
			i := rapid.IntRange(0, len(blob)-1).Draw(rt, "edit_at")
			repl := rapid.SampledFrom([]string{"", "\r", "\n", " ", "0", "f", ";", "\x00", "\r\n", "+", "-"}).Draw(rt, "edit_repl")
			if rapid.Bool().Draw(rt, "edit_insert") {
				blob = append(append(append([]byte(nil), blob[:i]...), repl...), blob[i:]...)
			} else {
				blob = append(append(append([]byte(nil), blob[:i]...), repl...), blob[i+1:]...)
			}
		}
	}
	return blob, class, noTail
}

// c23Seeds: hand-written streams (also the FuzzC23 seed corpus).
var c23Seeds = []string{
	"0\r\n\r\n",
	"5\r\nhello\r\n0\r\n\r\n",
	"3\r\nfoo\r\n3\r\nbar\r\n0\r\n\r\n", // readrequest_test.go style
	"7\r\nhello, \r\n17\r\nworld! 0123456789abcdef\r\n0\r\n\r\n", // chunked_test.go style
	"a\r\n0123456789\r\nA\r\n0123456789\r\n000\r\nX-T: v\r\n\r\n",
	"0000000000000005\r\nhello\r\n0\r\n\r\n",
	"00000000000000005\r\nhello\r\n0\r\n\r\n",
	"10000000000000005\r\nhello\r\n0\r\n\r\n",
	"f0000000000000000\r\n\r\n",
	"5\r\nhello\r\n\r\n\r\n",
	"\r\n\r\n",
	"5\r\nhello\r\n\r\nGET /smuggled HTTP/1.1\r\nHost: x\r\n\r\n0\r\n\r\n",
	"+5\r\nhello\r\n0\r\n\r\n",
	"0x5\r\nhello\r\n0\r\n\r\n",
	"5 \r\nhello\r\n0\r\n\r\n",
	"5\nhello\r\n0\r\n\r\n",
	"5\r\nhello\n0\r\n\r\n",
	"5\r\nhello0\r\n\r\n",
	"5;ext=1\r\nhello\r\n0;last\r\n\r\n",
	"5\r\nhello\r\n0\r\n \r\nX-T: v\r\n\r\n",
	"5\r\nhello\r\n0\r\n X: y\r\n\r\n",
	"5\r\nhello\r\n0\r\nX-T: v\r\nY: w\r\n\r\n",
	"ffffffffffffffff\r\nhello\r\n0\r\n\r\n",
	"5\r\nhel",
	"0\r\n",
	"",
}

func TestC23(t *testing.T) {
	rec := ev.New("C23", c23Rule)
	// deterministic part: every seed in both modes, with and without sentinel, several paddings
	for _, s := range c23Seeds {
		for _, mode := range []string{"request", "response"} {
			for _, pad := range []int{0, 4040, 4060} {
				for _, tail := range []bool{true, false} {
					c23Check(t, rec, c23Case{Mode: mode, Pad: pad, Blob: []byte(s), Tail: tail, Class: "seed"})
				}
			}
		}
	}
	// deterministic sweep of size-line digit counts 1..40 (value 5 with leading zeros; and wrapped values)
	for digits := 1; digits <= 40; digits++ {
		for _, tmpl := range []string{"%s5", "1%s5", "%s0"} {
			zeros := strings.Repeat("0", digits-1)
			line := fmt.Sprintf(tmpl, zeros)
			blob := line + "\r\nhello\r\n0\r\n\r\n"
			if tmpl == "%s0" {
				blob = "5\r\nhello\r\n" + line + "\r\n\r\n"
			}
			for _, mode := range []string{"request", "response"} {
				c23Check(t, rec, c23Case{Mode: mode, Blob: []byte(blob), Tail: true, Class: "sweep-digits"})
			}
			// the same size followed by a chunk extension
			for _, ext := range []string{";x", ";a=b", " ;x", ";"} {
				eb := strings.Replace(blob, line+"\r\n", line+ext+"\r\n", 1)
				c23Check(t, rec, c23Case{Mode: "request", Blob: []byte(eb), Tail: true, Class: "sweep-digits+ext"})
			}
		}
	}
	// concurrent writers (deterministic part): 8 goroutines, each writing its own
	// unknown-length request (ContentLength 0 = probe path, and -1) / response 20 times
	// to its own slow connection; once with all of them on one P, once on all Ps
	for _, procs := range []int{1, 0, 1} {
		var specs []c23EncSpec
		for i := 0; i < 8; i++ {
			mode, cl := "request", int64(0)
			if i%4 == 2 {
				cl = -1
			}
			if i%4 == 3 {
				mode = "response"
			}
			body := bytes.Repeat([]byte{byte('A' + i)}, 4+i)
			specs = append(specs, c23EncSpec{Mode: mode, CL: cl, Pieces: [][]byte{body[:2], body[2:], []byte(fmt.Sprintf(" body of writer %d", i))}})
		}
		c23ConcurrentGroup(t, rec, specs, 20, procs, "concurrent-fixed")
	}
	// deterministic sweep: every non-hex byte as a one-character chunk-size, with data
	// lengths a sloppy digit mapping could produce ('g' -> 16, ':' -> 10, '@' -> 9 ...)
	for b := 0; b < 256; b++ {
		if isHex(byte(b)) || b == '\n' {
			continue
		}
		for _, l := range []int{0, 1, 9, 10, 15, 16, 17, 22, 36, 42, 255} {
			blob := string([]byte{byte(b)}) + "\r\n" + strings.Repeat("x", l) + "\r\n0\r\n\r\n"
			c23Check(t, rec, c23Case{Mode: "request", Blob: []byte(blob), Tail: true, Class: "sweep-nonhex-byte"})
			blob = "1" + string([]byte{byte(b)}) + "\r\n" + strings.Repeat("x", 16+l) + "\r\n0\r\n\r\n"
			c23Check(t, rec, c23Case{Mode: "response", Blob: []byte(blob), Tail: true, Class: "sweep-nonhex-byte"})
		}
	}
	rapid.Check(t, func(rt *rapid.T) {
		c := c23Case{Mode: rapid.SampledFrom([]string{"request", "request", "response"}).Draw(rt, "mode")}
		c.Pad = genPad(rt)
		c.Segs = genSegs(rt)
		c.Tail = true
		kind := uni(rt, "kind", 10)
		if kind == 0 && uni(rt, "concurrent?", 2) == 0 { // (a') concurrent writers
			n := 2 + uni(rt, "nwriters", 5)
			var specs []c23EncSpec
			for i := 0; i < n; i++ {
				sp := c23EncSpec{Mode: "request", CL: int64(-uni(rt, "ccl", 2))}
				if uni(rt, "cresp", 5) == 0 {
					sp.Mode = "response"
				}
				for j, np := 0, 1+uni(rt, "cnp", 3); j < np; j++ {
					p := genData(rt, fmt.Sprintf("c%d_%d", i, j), 200)
					if len(p) == 0 {
						p = []byte{byte('a' + i)}
					}
					sp.Pieces = append(sp.Pieces, p)
				}
				specs = append(specs, sp)
			}
			procs := []int{1, 1, 0, 2}[uni(rt, "procs", 4)]
			rec.Sample(map[string]any{"gen": "concurrent", "writers": n, "gomaxprocs": procs})
			c23ConcurrentGroup(rt, rec, specs, 1+uni(rt, "crounds", 4), procs, "concurrent")
			return
		}
		switch {
		case kind <= 1: // (a, 10) encoder round trip
			np := rapid.IntRange(0, 6).Draw(rt, "npieces")
			var pieces [][]byte
			var want []byte
			for i := 0; i < np; i++ {
				var p []byte
				if uni(rt, "big?", 20) == 0 {
					n := rapid.SampledFrom([]int{4095, 4096, 4097, 32768, 32769, 70000}).Draw(rt, "bign")
					p = bytes.Repeat([]byte{byte('a' + i)}, n)
				} else {
					p = genData(rt, fmt.Sprintf("p%d", i), 600)
				}
				pieces = append(pieces, p)
				want = append(want, p...)
			}
			if want == nil {
				want = []byte{}
			}
			cl := int64(rapid.SampledFrom([]int{0, -1}).Draw(rt, "cl"))
			if len(want) == 0 {
				// an empty body is not chunked by Request.Write (no body is sent at all)
				if c.Mode == "request" {
					rec.Excluded("encoder: empty request body is sent without framing")
					return
				}
			}
			blob, err := c23Encode(c.Mode, pieces, cl)
			if err != nil {
				rec.Fail(rt, "encoder-error", map[string]any{"pieces": len(pieces), "err": err.Error()}, "encoder failed: %v", err)
				return
			}
			c.Blob, c.Want, c.Class = blob, want, "encoder"
			c.Tail = rapid.Bool().Draw(rt, "tail")
		case kind <= 4: // (b) valid grammar
			s := genValidStream(rt, uni(rt, "allow_ext", 3) == 0)
			c.Blob, c.Class = s.render(), "valid"
			c.Tail = uni(rt, "tail", 4) != 0
		default: // (c, 4) mutations
			blob, class, noTail := genMutatedStream(rt)
			c.Blob, c.Class, c.Tail = blob, class, !noTail
		}
		rec.Sample(map[string]any{"gen": c.Class, "mode": c.Mode, "pad": c.Pad, "segs": len(c.Segs), "chunked": clip(c.Blob, 120)})
		c23Check(rt, rec, c)
	})
}

func FuzzC23(f *testing.F) {
	rec := ev.New("C23", c23Rule)
	for _, s := range c23Seeds {
		f.Add([]byte(s))
	}
	f.Fuzz(func(t *testing.T, blob []byte) {
		if len(blob) > 1<<16 {
			return
		}
		for _, mode := range []string{"request", "response"} {
			for _, tail := range []bool{true, false} {
				c23Check(t, rec, c23Case{Mode: mode, Blob: blob, Tail: tail, Class: "fuzz"})
			}
		}
		c23Check(t, rec, c23Case{Mode: "request", Pad: 4050, Blob: blob, Tail: true, Segs: []int{7, 1, 64}, Class: "fuzz"})
	})
}

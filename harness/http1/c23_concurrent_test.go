package http1

// C23, concurrent-writers mode: bfe writes backend requests from one goroutine
// per backend connection (transport write loops), so several Request.Write /
// Response.Write calls with unknown-length bodies run at the same time, each
// to its own connection. The chunked stream each of them produces must be the
// one the same call produces when it runs alone (which the sequential part of
// the check compares with the RFC 7230 reference decoder).

import (
	"bytes"
	"fmt"
	"io"
	"runtime"
	"sync"

	"github.com/bfenetworks/bfe/bfe_http"

	"verif/harness/internal/ev"
)

// yieldWriter is a "slow connection": every Write yields the processor, as a
// blocking socket write does. It is not an io.ByteWriter, so Request.Write
// wraps it in a bfe_bufio.Writer exactly as it does for a net.Conn.
type yieldWriter struct {
	buf bytes.Buffer
}

func (w *yieldWriter) Write(p []byte) (int, error) {
	runtime.Gosched()
	w.buf.Write(p)
	runtime.Gosched()
	return len(p), nil
}

type c23EncSpec struct {
	Mode   string // "request" | "response"
	Pieces [][]byte
	CL     int64 // request: 0 (probe path) or -1
}

// c23EncodeWire writes one message with an unknown-length body to w.
func c23EncodeWire(w io.Writer, s c23EncSpec) error {
	cp := make([][]byte, len(s.Pieces))
	copy(cp, s.Pieces)
	body := &pieceReader{pieces: cp}
	if s.Mode == "response" {
		resp := &bfe_http.Response{StatusCode: 200, ProtoMajor: 1, ProtoMinor: 1, Header: bfe_http.Header{},
			Body: io.NopCloser(body), ContentLength: -1, TransferEncoding: []string{"chunked"}}
		return resp.Write(w)
	}
	req, err := bfe_http.NewRequest("POST", "http://h/c23", body)
	if err != nil {
		return err
	}
	req.ContentLength = s.CL
	req.State = new(bfe_http.RequestState) // as ReadRequest sets it; Write records BodySize there
	return req.Write(w)
}

// c23ConcurrentGroup writes every spec `rounds` times from its own goroutine
// (all released together) and compares each wire image with the image the
// same spec produces when written alone. procs > 0 pins GOMAXPROCS for the
// group (1 = all writers share one P, the densest interleaving).
func c23ConcurrentGroup(tb ev.TB, rec *ev.Rec, specs []c23EncSpec, rounds, procs int, class string) bool {
	want := make([][]byte, len(specs))
	for i, s := range specs {
		var b bytes.Buffer
		if err := c23EncodeWire(&b, s); err != nil {
			return rec.Fail(tb, "encoder-error", map[string]any{"spec": i, "err": err.Error()}, "encoder failed: %v", err)
		}
		want[i] = b.Bytes()
	}
	if procs > 0 {
		defer runtime.GOMAXPROCS(runtime.GOMAXPROCS(procs))
	}
	type bad struct {
		spec, round int
		got         []byte
		err         error
	}
	var (
		mu    sync.Mutex
		first *bad
		wg    sync.WaitGroup
		gate  = make(chan struct{})
	)
	for i := range specs {
		wg.Add(1)
		go func(i int) {
			defer wg.Done()
			<-gate
			for r := 0; r < rounds; r++ {
				w := &yieldWriter{}
				err := c23EncodeWire(w, specs[i])
				if err != nil || !bytes.Equal(w.buf.Bytes(), want[i]) {
					mu.Lock()
					if first == nil {
						first = &bad{spec: i, round: r, got: append([]byte(nil), w.buf.Bytes()...), err: err}
					}
					mu.Unlock()
					return
				}
			}
		}(i)
	}
	close(gate)
	wg.Wait()

	var fp bytes.Buffer
	for _, s := range specs {
		fmt.Fprintf(&fp, "%s|%d|", s.Mode, s.CL)
		for _, p := range s.Pieces {
			fmt.Fprintf(&fp, "%x.", p)
		}
		fp.WriteByte('/')
	}
	rec.Case("concurrent|"+fp.String(), len(specs) >= 2, "gen:"+class, fmt.Sprintf("concurrent-writers:%d", len(specs)), fmt.Sprintf("gomaxprocs:%d", procs))
	if first == nil {
		return true
	}
	w := map[string]any{"writers": len(specs), "rounds": rounds, "gomaxprocs": procs, "spec": first.spec, "round": first.round,
		"mode": specs[first.spec].Mode, "content_length": specs[first.spec].CL,
		"want_wire": clip(want[first.spec], 300), "got_wire": clip(first.got, 300), "err": fmt.Sprint(first.err)}
	return rec.Fail(tb, "concurrent-encoder-mismatch", w,
		"writer %d of %d concurrent writers (round %d, GOMAXPROCS %d) produced a different chunked stream than when writing alone (err %v):\n got  %s\n want %s",
		first.spec, len(specs), first.round, procs, first.err, clip(first.got, 200), clip(want[first.spec], 200))
}

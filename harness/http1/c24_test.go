package http1

// C24: every HTTP/1 request bfe accepts has the boundaries, field names and
// body an RFC 7230 reference parser assigns; requests such a parser must
// reject (whitespace before the colon, invalid field-name bytes, conflicting /
// invalid Content-Length, unsupported or misordered Transfer-Encoding) are
// rejected.
//
// Oracle: refParseRequest (ref_test.go). bfe is driven like
// bfe_server/http_conn.go drives it: ReadRequest repeatedly over one
// bfe_bufio.Reader, bodies drained in between.

import (
	"bytes"
	"errors"
	"fmt"
	"strings"
	"testing"

	"pgregory.net/rapid"

	"verif/harness/internal/ev"
)

const c24Rule = "(connection level, ~2% of cases + 12 fixed streams: 2..5 well-formed pipelined requests sent to an in-process BFE whose BeforeLocation filter answers 200 with or without reading the body, bodies CL/chunked with embedded request look-alikes, optional Expect: 100-continue; the requests served must be a prefix of the reference parse) byte streams of 1..4 pipelined requests from a request grammar with smuggling-style header generators (Content-Length forms: +n, -0, empty, leading zeros, lists, duplicates equal/conflicting, non-RFC whitespace; Transfer-Encoding forms: case, identity before/after chunked, gzip, xchunked, repeated field lines, params, \\v/\\f padding; CL+TE combinations with bodies valid under either reading; chunk sizes with 16 / 17+ / overflowing hex digits and chunk extensions; field-name forms: whitespace before colon, NUL/CTL/space/high bytes, empty name, no colon; first-line whitespace, obs-fold, bare LF, leading empty lines, lines longer than the 4096-byte buffer, CTLs in values), TCP-like segmentation, optional random byte edit; plus seed constants. non-trivial: the stream contains a Content-Length or Transfer-Encoding field (any spelling); distinct by stream bytes"

const c24MaxReqs = 8

type c24Disc struct {
	keys []string
	msg  string
}

func foldSpaces(s string) string { return strings.Join(strings.Fields(s), " ") }

// c24Compare compares an accepted bfe request with the reference parse.
func c24Compare(ref *refReq, b *bfeReq) (kind, detail string) {
	if b.End != ref.End {
		return "boundary-mismatch", fmt.Sprintf("bfe ends the request at offset %d, reference at %d", b.End, ref.End)
	}
	if b.Method != ref.Method {
		return "method-mismatch", fmt.Sprintf("method %q vs %q", b.Method, ref.Method)
	}
	if b.Target != ref.Target {
		return "target-mismatch", fmt.Sprintf("target %q vs %q", b.Target, ref.Target)
	}
	if b.Proto != ref.Version {
		return "version-mismatch", fmt.Sprintf("version %q vs %q", b.Proto, ref.Version)
	}
	var names []string
	vals := map[string][]field{}
	for _, f := range ref.Fields {
		n := canonName(f.Name)
		names = append(names, n)
		vals[n] = append(vals[n], f)
	}
	if len(names) != len(b.Keys) {
		return "field-names-mismatch", fmt.Sprintf("bfe field names %q, reference %q", b.Keys, names)
	}
	for i := range names {
		if names[i] != b.Keys[i] {
			return "field-names-mismatch", fmt.Sprintf("bfe field names %q, reference %q", b.Keys, names)
		}
	}
	for n, fs := range vals {
		bv, ok := b.Header[n]
		if !ok {
			switch {
			case n == "Host", n == "Transfer-Encoding", n == "Trailer":
			case n == "Content-Length" && ref.Chunked:
			case n == "Connection" && strings.ToLower(fs[0].Value) == "close":
			default:
				return "field-missing", fmt.Sprintf("field %q missing from bfe's header map", n)
			}
			continue
		}
		if n == "Content-Length" && len(fs) > 1 && len(bv) == 1 {
			// RFC 7230 3.3.2: identical duplicates may be replaced by a single field
			ok := false
			for _, f := range fs {
				ok = ok || f.Value == bv[0] || f.Fold && foldSpaces(f.Value) == foldSpaces(bv[0])
			}
			if ok {
				continue
			}
		}
		if len(bv) != len(fs) {
			return "field-value-mismatch", fmt.Sprintf("field %q: bfe values %q, reference %d values", n, bv, len(fs))
		}
		for i := range fs {
			want, got := fs[i].Value, bv[i]
			if fs[i].Fold {
				want, got = foldSpaces(want), foldSpaces(got)
			}
			if want != got {
				return "field-value-mismatch", fmt.Sprintf("field %q value %q vs reference %q", n, bv[i], fs[i].Value)
			}
		}
	}
	for n, bv := range b.Header {
		if _, ok := vals[n]; ok {
			continue
		}
		if p := vals["Pragma"]; n == "Cache-Control" && len(p) > 0 && p[0].Value == "no-cache" && len(bv) == 1 && bv[0] == "no-cache" {
			continue // documented Pragma -> Cache-Control mapping
		}
		return "field-extra", fmt.Sprintf("bfe has field %q=%q the reference does not", n, bv)
	}
	if !bytes.Equal(b.Body, ref.Body) {
		return "body-mismatch", fmt.Sprintf("body %s vs reference %s", clip(b.Body, 80), clip(ref.Body, 80))
	}
	return "", ""
}

func containsFold(s []byte, sub string) bool {
	return bytes.Contains(bytes.ToLower(s), []byte(sub))
}

// c24CheckStream runs bfe and the reference over one connection's bytes.
func c24CheckStream(tb ev.TB, rec *ev.Rec, stream []byte, segs []int, gen string, feats []string) bool {
	conn := newBfeConn(stream, segs)
	pos := 0
	labels := []string{"gen:" + gen}
	for _, f := range feats {
		labels = append(labels, "f:"+f)
	}
	if len(segs) > 0 {
		labels = append(labels, "segmented")
	}
	var disc *c24Disc
	var last *refReq
	var lastErr error
	agreed := 0
	for i := 0; i < c24MaxReqs; i++ {
		ref := refParseRequest(stream, pos)
		last = ref
		labels = append(labels, "ref:"+ref.V.String())
		for _, c := range ref.Classes {
			labels = append(labels, "refclass:"+c)
		}
		for _, n := range ref.Notes {
			labels = append(labels, "note:"+n)
		}
		if ref.V == vUnjudged {
			break
		}
		b, err, pv := conn.next()
		lastErr = err
		if pv != nil {
			disc = &c24Disc{keys: []string{"panic"}, msg: fmt.Sprintf("bfe panicked on request %d: %v", i, pv)}
			break
		}
		if errors.Is(err, errBodyExceedsInput) || errors.Is(err, errReadNoProgress) {
			disc = &c24Disc{keys: []string{"body-reader-runaway"}, msg: fmt.Sprintf("request %d at offset %d: %v", i, pos, err)}
			break
		}
		if err == nil {
			labels = append(labels, "bfe:accept")
		} else {
			labels = append(labels, "bfe:reject")
		}
		stop := true
		switch ref.V {
		case vEnd:
			if err == nil {
				disc = &c24Disc{keys: []string{"accepted-at-end"}, msg: fmt.Sprintf("bfe returned a request at offset %d where no bytes are left", pos)}
			}
		case vMustReject:
			if err == nil {
				keys := append([]string(nil), ref.Classes...)
				for k := range keys {
					if keys[k] == "truncated" {
						keys[k] = "truncated-accepted"
					}
				}
				// a whitespace-preceded line right after the request-line changes what
				// bfe sees of the whole header block: that is the root cause then
				if ref.hasNote("first-line-ws-only") {
					keys = []string{"first-line-ws-only"}
				} else if ref.hasNote("first-line-ws") {
					keys = []string{"first-line-ws"}
				}
				disc = &c24Disc{keys: keys, msg: fmt.Sprintf("request %d at offset %d must be rejected (%s) but bfe accepted it: method %q target %q fields %q TE %q CL %d body %s, consumed up to %d",
					i, pos, strings.Join(ref.Classes, ","), b.Method, b.Target, b.Keys, b.TE, b.CL, clip(b.Body, 60), b.End)}
			} else {
				labels = append(labels, "must-reject-rejected")
			}
		default:
			if err != nil {
				if ref.V == vAccept {
					labels = append(labels, "accept-rejected")
				}
				break
			}
			kind, detail := c24Compare(ref, b)
			if kind == "" {
				agreed++
				pos = ref.End
				stop = false
				break
			}
			key := kind
			switch {
			case ref.hasNote("first-line-ws-only"):
				key = "first-line-ws-only"
			case ref.hasNote("first-line-ws"):
				key = "first-line-ws"
			case ref.hasNote("body-trailer-first-line-ws-only"):
				key = "trailer-ws-only-first-line"
			case len(ref.Notes) > 0:
				key = ref.Notes[0] + ":" + kind
			}
			disc = &c24Disc{keys: []string{key}, msg: fmt.Sprintf("request %d at offset %d accepted with a different parse (%s; reference %s notes %v): %s", i, pos, kind, ref.V, ref.Notes, detail)}
		}
		if stop {
			break
		}
	}
	labels = append(labels, fmt.Sprintf("agreed-requests:%d", agreed))
	nt := containsFold(stream, "content-length") || containsFold(stream, "transfer-encoding")
	rec.Case(fmt.Sprintf("%x", stream), nt, labels...)
	if disc == nil {
		return true
	}
	w := map[string]any{"stream": string(stream), "stream_hex": fmt.Sprintf("%x", stream), "segs": segs, "gen": gen, "features": feats,
		"ref_verdict": last.V.String(), "ref_classes": last.Classes, "ref_notes": last.Notes, "ref_start": last.Start, "ref_end": last.End,
		"bfe_err": fmt.Sprint(lastErr), "keys": disc.keys}
	for _, k := range disc.keys {
		rec.Fail(tb, k, w, "%s\nstream: %s", disc.msg, clip(stream, 400))
	}
	return false
}

// ---------------------------------------------------------------------------
// generator

type c24Gen struct {
	rt    *rapid.T
	feats []string
	n     int
}

func (g *c24Gen) feat(f string) {
	for _, x := range g.feats {
		if x == f {
			return
		}
	}
	g.feats = append(g.feats, f)
}

func (g *c24Gen) label(s string) string {
	g.n++
	return fmt.Sprintf("%s#%d", s, g.n)
}

func (g *c24Gen) pick(label string, opts ...string) string {
	return opts[uni(g.rt, g.label(label), len(opts))]
}

func (g *c24Gen) chance(label string, oneIn int) bool {
	return uni(g.rt, g.label(label), oneIn) == oneIn-1
}

func (g *c24Gen) intn(label string, lo, hi int) int {
	return lo + uni(g.rt, g.label(label), hi-lo+1)
}

var c24Methods = []string{"GET", "GET", "POST", "POST", "POST", "PUT", "HEAD", "DELETE", "OPTIONS", "PATCH", "get", "M-SEARCH"}
var c24Targets = []string{"/", "/", "/a/b?x=1&y=2", "/index.html", "http://example.com/p?q", "*", "/%41%2f", "/a;b=c", "//x/y", "/\xe4\xb8\xad"}
var c24Versions = []string{"HTTP/1.1", "HTTP/1.1", "HTTP/1.1", "HTTP/1.1", "HTTP/1.1", "HTTP/1.1", "HTTP/1.1", "HTTP/1.0", "HTTP/1.0", "HTTP/1.2"}
var c24OddVersions = []string{"HTTP/2.0", "HTTP/1.10", "http/1.1", "HTTP/0.9", "HTTP/+1.1", "HTTP/1.1x"}
var c24FillerNames = []string{"Accept", "User-Agent", "X-Forwarded-For", "Cookie", "Connection", "Pragma", "Cache-Control", "Trailer", "Expect", "Content-Type", "x-custom_1", "A", "TE", "Upgrade", "content-type", "X-Content-Length", "Transfer-Encoding2"}
var c24FillerValues = []string{"v", "", "a, b", "close", "keep-alive", "no-cache", "chunked", "gzip", "text/plain; charset=utf-8", "X-T", "100-continue", "a\tb", "caf\xc3\xa9", "5", "a:b", "\"q\""}

// nameForm spells a framing field name, possibly illegally.
func (g *c24Gen) nameForm(canonical string) string {
	switch g.intn("nameform", 0, 19) {
	case 15:
		return strings.ToLower(canonical)
	case 16:
		return strings.ToUpper(canonical)
	case 17:
		b := []byte(strings.ToLower(canonical))
		for i := range b {
			if i%2 == 1 && b[i] >= 'a' && b[i] <= 'z' {
				b[i] -= 32
			}
		}
		return string(b)
	case 18:
		g.feat("name:ws-before-colon")
		return canonical + g.pick("namews", " ", "\t", "  ", " \t ")
	case 19:
		g.feat("name:invalid-byte")
		switch g.intn("badname", 0, 6) {
		case 0:
			return strings.Replace(canonical, "-", "\x00", 1)
		case 1:
			return strings.Replace(canonical, "-", " ", 1)
		case 2:
			return canonical + "\x0b"
		case 3:
			return "\x7f" + canonical
		case 4:
			return canonical + "\xa0"
		case 5:
			return "\r" + canonical
		default:
			return canonical + "(1)"
		}
	}
	return canonical
}

func (g *c24Gen) sep() string {
	return g.pick("sep", " ", " ", " ", " ", " ", " ", "", "  ", "\t", " \t")
}

func (g *c24Gen) tailWS() string {
	return g.pick("tailws", "", "", "", "", "", "", "", "", " ", "\t")
}

// clForm spells a Content-Length value for n, possibly illegally.
func (g *c24Gen) clForm(n int) string {
	d := fmt.Sprint(n)
	switch g.intn("clform", 0, 29) {
	case 19:
		g.feat("cl:plus")
		return "+" + d
	case 20:
		g.feat("cl:minus")
		if n == 0 {
			return "-0"
		}
		return "-" + d
	case 21:
		g.feat("cl:leading-zeros")
		return strings.Repeat("0", g.intn("clz", 1, 20)) + d
	case 22:
		g.feat("cl:list-equal")
		return d + g.pick("cllistsep", ", ", ",", " , ") + d
	case 23:
		g.feat("cl:list-conflict")
		return d + ", " + fmt.Sprint(n+g.intn("cldelta", 1, 9))
	case 24:
		g.feat("cl:empty")
		return ""
	case 25:
		g.feat("cl:nonstd-ws")
		return g.pick("clws", "\x0b", "\x0c", "\xc2\xa0", "\xc2\x85") + d
	case 26:
		g.feat("cl:nonstd-ws")
		return d + g.pick("clws", "\x0b", "\x0c", "\xc2\xa0", "\xc2\x85")
	case 27:
		g.feat("cl:garbage")
		return g.pick("clgarb", "0x"+d, d+".0", d+"e0", d+";", d+" "+d, "\""+d+"\"", d+"_0", "٣", d+"\x00")
	case 28:
		g.feat("cl:overflow")
		return g.pick("clbig", "9223372036854775808", "18446744073709551616", "99999999999999999999999", "18446744073709551621")
	case 29:
		g.feat("cl:trailing-comma")
		return d + ","
	}
	return d
}

var c24TEForms = []struct{ v, feat string }{
	{"chunked", ""}, {"chunked", ""}, {"chunked", ""}, {"chunked", ""},
	{"Chunked", "te:case"}, {"CHUNKED", "te:case"}, {"cHuNkEd", "te:case"},
	{"chunked, identity", "te:identity-after"}, {"identity, chunked", "te:identity-before"}, {"identity", "te:identity-only"}, {"identity,chunked", "te:identity-before"}, {"Identity", "te:identity-only"},
	{"gzip, chunked", "te:gzip-before"}, {"chunked, gzip", "te:gzip-after"}, {"gzip", "te:gzip-only"}, {"deflate,chunked", "te:gzip-before"},
	{"xchunked", "te:unknown"}, {"chunkedx", "te:unknown"}, {"x-chunked", "te:unknown"}, {"chunke", "te:unknown"},
	{"chunked, chunked", "te:chunked-twice"},
	{"chunked;a=b", "te:params"}, {"chunked ; q=1", "te:params"},
	{",chunked", "te:empty-elem"}, {"chunked,", "te:empty-elem"}, {", ,chunked, ,", "te:empty-elem"}, {"", "te:empty"}, {",", "te:empty"},
	{"\x0bchunked", "te:nonstd-ws"}, {"chunked\x0c", "te:nonstd-ws"}, {"\xc2\xa0chunked", "te:nonstd-ws"}, {"chunked\xc2\x85", "te:nonstd-ws"}, {"identity,\x0bchunked", "te:nonstd-ws"},
	{"\"chunked\"", "te:quoted"}, {"chunked\x00", "te:nul"}, {"chu\tnked", "te:unknown"}, {"chunked identity", "te:unknown"},
}

func (g *c24Gen) teForm() string {
	f := c24TEForms[g.intn("teform", 0, len(c24TEForms)-1)]
	if f.feat != "" {
		g.feat(f.feat)
	}
	return f.v
}

func (g *c24Gen) payload() []byte {
	if g.chance("smuggle", 3) {
		g.feat("body:embedded-request")
		return []byte(g.pick("pre", "", "x", "0\r\n\r\n", "q=1") + "GET /smuggled HTTP/1.1\r\nHost: evil\r\n\r\n")
	}
	return genData(g.rt, g.label("payload"), 60)
}

func (g *c24Gen) chunkedEnc(p []byte) []byte {
	var b bytes.Buffer
	rest := p
	for len(rest) > 0 {
		n := g.intn("chunklen", 1, len(rest))
		fmt.Fprintf(&b, "%s\r\n%s\r\n", g.chunkSize(n), rest[:n])
		rest = rest[n:]
	}
	b.WriteString(g.chunkSize(0) + "\r\n")
	if g.chance("trailer", 8) {
		g.feat("body:trailer")
		if g.chance("trailer-ws", 5) {
			g.feat("body:trailer-first-line-ws")
			b.WriteString(g.pick("trailerws", " \r\n", "\t\r\n", " X-U: w\r\n"))
		}
		b.WriteString("X-T: v\r\n")
	}
	b.WriteString("\r\n")
	return b.Bytes()
}

// chunkSize spells a chunk-size line: usually minimal hex, sometimes padded to
// exactly 16 digits (valid), to 17+ digits or with digits that overflow 64 bits
// (low 64 bits = n, so a wrapping parser sees a well-framed body), and
// sometimes followed by a chunk extension.
func (g *c24Gen) chunkSize(n int) string {
	h := fmt.Sprintf("%x", n)
	switch g.intn("sizeform", 0, 23) {
	case 20:
		g.feat("body:size-16-digits")
		h = strings.Repeat("0", 16-len(h)) + h
	case 21:
		g.feat("body:size-17plus-digits")
		h = strings.Repeat("0", []int{17, 18, 24, 40}[g.intn("sizedigits", 0, 3)]-len(h)) + h
	case 22:
		g.feat("body:size-overflow")
		h = g.pick("sizepre", "1", "f", "10", "deadbeef") + strings.Repeat("0", 16-len(h)) + h
	case 23:
		g.feat("body:size-upper")
		h = strings.ToUpper(h)
	}
	if g.chance("chunk-ext", 8) {
		g.feat("body:chunk-ext")
		h += g.pick("chunkext", ";x", ";a=b", ";a=\"q\"", " ;x", ";")
	}
	return h
}

func (g *c24Gen) line(name, value string) string {
	return name + ":" + g.sep() + value + g.tailWS()
}

// request generates one request; lines are joined with per-line terminators.
func (g *c24Gen) request() []byte {
	var out bytes.Buffer
	if g.chance("leading-empty", 25) {
		g.feat("leading-empty-line")
		out.WriteString(g.pick("lead", "\r\n", "\n", "\r\n\r\n"))
	}
	method := g.pick("method", c24Methods...)
	target := g.pick("target", c24Targets...)
	version := g.pick("version", c24Versions...)
	if g.chance("odd-version", 40) {
		version = g.pick("oddversion", c24OddVersions...)
	}
	if version != "HTTP/1.1" {
		g.feat("version:" + version)
	}
	reqLine := method + " " + target + " " + version
	if g.chance("bad-reqline", 40) {
		g.feat("bad-request-line")
		reqLine = g.pick("badline", method+"  "+target+" "+version, method+" "+target+" "+version+" ", method+"\t"+target+" "+version, " "+reqLine, method+" "+target, "G(T / HTTP/1.1", method+" /a b "+version)
	}

	var lines []string // header lines without terminator
	if !g.chance("no-host", 10) {
		lines = append(lines, g.line("Host", g.pick("host", "example.com", "h", "a.b:8080")))
	}
	for i, n := 0, g.intn("nfill", 0, 3); i < n; i++ {
		lines = append(lines, g.line(g.pick("fname", c24FillerNames...), g.pick("fvalue", c24FillerValues...)))
	}

	var framing []string
	var body []byte
	p := g.payload()
	plan := g.pick("plan", "none", "cl", "cl", "cl", "cl-dup", "cl-dup", "te", "te", "te", "te-dup", "te-dup", "te+cl", "te+cl", "te+cl", "cl.te-smuggle")
	g.feat("plan:" + plan)
	switch plan {
	case "none":
	case "cl":
		framing = append(framing, g.line(g.nameForm("Content-Length"), g.clForm(len(p))))
		body = p
	case "cl-dup":
		n1, n2 := len(p), len(p)
		switch g.intn("cldup", 0, 3) {
		case 0:
			g.feat("cl:dup-equal")
		case 1:
			g.feat("cl:dup-conflict")
			n2 = g.intn("cl2", 0, len(p)+5)
		case 2:
			g.feat("cl:dup-conflict")
			n1 = g.intn("cl1", 0, len(p)+5)
		default:
			g.feat("cl:dup-conflict")
			n1 = 0
		}
		framing = append(framing, g.line(g.nameForm("Content-Length"), g.clForm(n1)), g.line(g.nameForm("Content-Length"), g.clForm(n2)))
		body = p
	case "te":
		framing = append(framing, g.line(g.nameForm("Transfer-Encoding"), g.teForm()))
		body = g.chunkedEnc(p)
	case "te-dup":
		framing = append(framing, g.line(g.nameForm("Transfer-Encoding"), g.teForm()), g.line(g.nameForm("Transfer-Encoding"), g.teForm()))
		g.feat("te:two-lines")
		body = g.chunkedEnc(p)
	case "te+cl":
		body = g.chunkedEnc(p)
		n := len(body)
		switch g.intn("tecl", 0, 3) {
		case 0:
			n = 0
		case 1:
			n = len(p)
		case 2:
			n = g.intn("tecl-n", 0, len(body)+10)
		}
		te := g.line(g.nameForm("Transfer-Encoding"), g.teForm())
		cl := g.line(g.nameForm("Content-Length"), g.clForm(n))
		if g.chance("cl-first", 2) {
			framing = append(framing, cl, te)
		} else {
			framing = append(framing, te, cl)
		}
	case "cl.te-smuggle":
		body = []byte("0\r\n\r\nGET /smuggled HTTP/1.1\r\nHost: evil\r\n\r\n")
		te := g.line(g.nameForm("Transfer-Encoding"), g.teForm())
		cl := g.line(g.nameForm("Content-Length"), g.clForm(len(body)))
		if g.chance("cl-first", 2) {
			framing = append(framing, cl, te)
		} else {
			framing = append(framing, te, cl)
		}
	}
	if len(framing) > 0 && g.chance("fold-framing", 15) {
		// "Transfer-Encoding:\r\n chunked" style: value moved to a continuation line
		g.feat("obs-fold:framing")
		i := g.intn("foldi", 0, len(framing)-1)
		if c := strings.IndexByte(framing[i], ':'); c >= 0 {
			framing[i] = framing[i][:c+1] + "\r\n" + g.pick("foldws", " ", "\t", "  ") + strings.TrimLeft(framing[i][c+1:], " \t")
		}
	}
	for _, f := range framing {
		at := g.intn("at", 0, len(lines))
		lines = append(lines[:at], append([]string{f}, lines[at:]...)...)
	}

	// structural extras
	if g.chance("first-ws", 12) {
		var l string
		switch g.intn("firstws", 0, 4) {
		case 0:
			g.feat("first-line-ws-only")
			l = g.pick("wsonly", " ", "\t", "   ", " \t")
		case 1:
			g.feat("first-line-ws:framing")
			l = " " + g.pick("wsframing", "Transfer-Encoding: chunked", "Content-Length: 4", "Content-Length: 0")
		default:
			g.feat("first-line-ws")
			l = g.pick("ws", " ", "\t") + g.line(g.pick("fname", c24FillerNames...), "w")
		}
		lines = append([]string{l}, lines...)
	}
	if len(lines) > 0 && g.chance("obs-fold", 12) {
		g.feat("obs-fold")
		at := g.intn("foldat", 1, len(lines))
		l := g.pick("fold", " cont", "\tcont", " ", "  \t", " chunked", " , chunked", " 5")
		lines = append(lines[:at], append([]string{l}, lines[at:]...)...)
	}
	if g.chance("empty-name", 25) {
		g.feat("empty-field-name")
		at := g.intn("enat", 0, len(lines))
		lines = append(lines[:at], append([]string{g.pick("en", ": v", ":v", ":", ": chunked")}, lines[at:]...)...)
	}
	if g.chance("no-colon", 30) {
		g.feat("no-colon")
		at := g.intn("ncat", 0, len(lines))
		lines = append(lines[:at], append([]string{g.pick("nc", "garbage", "Content-Length 5", "Transfer-Encoding chunked", "\r")}, lines[at:]...)...)
	}
	if g.chance("long-line", 15) {
		g.feat("long-line")
		at := g.intn("llat", 0, len(lines))
		n := g.pick("lln", "3900", "4000", "4080", "4090", "4096", "4100", "8191", "9000")
		var ln int
		fmt.Sscan(n, &ln)
		ln += g.intn("lljit", 0, 12)
		lines = append(lines[:at], append([]string{"X-Long: " + strings.Repeat("a", ln)}, lines[at:]...)...)
	}
	if g.chance("ctl", 20) {
		g.feat("ctl-in-value")
		at := g.intn("ctlat", 0, len(lines))
		lines = append(lines[:at], append([]string{"X-Ctl: a" + g.pick("ctl", "\x00", "\r", "\x0b", "\x7f", "\x1f", "\r\r") + g.pick("ctl2", "b", "")}, lines[at:]...)...)
	}
	bareLF := 0
	if g.chance("bare-lf", 12) {
		g.feat("bare-lf")
		bareLF = g.intn("barelf-mode", 1, 2) // 1 = all lines, 2 = some
	}
	eol := func() string {
		if bareLF == 1 || bareLF == 2 && g.chance("lf-here", 2) {
			return "\n"
		}
		return "\r\n"
	}
	out.WriteString(reqLine)
	out.WriteString(eol())
	for _, l := range lines {
		out.WriteString(l)
		if strings.Contains(l, "\r\n") { // folded framing line keeps its inner CRLF
			out.WriteString("\r\n")
		} else {
			out.WriteString(eol())
		}
	}
	out.WriteString(eol())
	out.Write(body)
	return out.Bytes()
}

func c24Benign(i int) []byte {
	switch i % 3 {
	case 0:
		return []byte("GET /next HTTP/1.1\r\nHost: n\r\n\r\n")
	case 1:
		return []byte("POST /next HTTP/1.1\r\nHost: n\r\nContent-Length: 3\r\n\r\nabc")
	}
	return []byte("POST /next HTTP/1.1\r\nHost: n\r\nTransfer-Encoding: chunked\r\n\r\n3\r\nabc\r\n0\r\n\r\n")
}

var c24Seeds = []string{
	// bfe_http/readrequest_test.go style
	"GET http://www.techcrunch.com/ HTTP/1.1\r\nHost: www.techcrunch.com\r\nUser-Agent: Fake\r\nAccept: text/html,application/xhtml+xml,application/xml;q=0.9,*/*;q=0.8\r\nAccept-Language: en-us,en;q=0.5\r\nAccept-Encoding: gzip,deflate\r\nAccept-Charset: ISO-8859-1,utf-8;q=0.7,*;q=0.7\r\nKeep-Alive: 300\r\nContent-Length: 7\r\nProxy-Connection: keep-alive\r\n\r\nabcdef\n???",
	"GET / HTTP/1.1\r\nHost: foo.com\r\n\r\n",
	"GET //user@host/is/actually/a/path/ HTTP/1.1\r\nHost: test\r\n\r\n",
	"POST / HTTP/1.1\r\nHost: foo.com\r\nTransfer-Encoding: chunked\r\n\r\n3\r\nfoo\r\n3\r\nbar\r\n0\r\nTrailer-Key: Trailer-Value\r\n\r\n",
	"CONNECT www.google.com:443 HTTP/1.1\r\n\r\n",
	"NOTIFY * HTTP/1.1\r\nServer: foo\r\n\r\n",
	"OPTIONS * HTTP/1.1\r\nServer: foo\r\n\r\n",
	"GET / HTTP/1.1\r\nHost: a\r\n\r\nPOST /b HTTP/1.1\r\nHost: b\r\nContent-Length: 5\r\n\r\nhelloGET /c HTTP/1.0\r\n\r\n",
	// hostile constants
	"POST / HTTP/1.1\r\nHost: h\r\nContent-Length: +5\r\n\r\nhelloGET /next HTTP/1.1\r\nHost: n\r\n\r\n",
	"POST / HTTP/1.1\r\nHost: h\r\nContent-Length: -0\r\n\r\nGET /next HTTP/1.1\r\nHost: n\r\n\r\n",
	"POST / HTTP/1.1\r\nHost: h\r\nContent-Length: 5\r\nContent-Length: 6\r\n\r\nhelloGET /next HTTP/1.1\r\nHost: n\r\n\r\n",
	"POST / HTTP/1.1\r\nHost: h\r\nContent-Length: 5\r\nContent-Length: 5\r\n\r\nhelloGET /next HTTP/1.1\r\nHost: n\r\n\r\n",
	"POST / HTTP/1.1\r\nHost: h\r\nContent-Length: 5, 5\r\n\r\nhello",
	"POST / HTTP/1.1\r\nHost: h\r\nContent-Length:\r\nContent-Length: 5\r\n\r\nhelloGET /next HTTP/1.1\r\nHost: n\r\n\r\n",
	"POST / HTTP/1.1\r\nHost: h\r\nContent-Length : 5\r\n\r\nhelloGET /next HTTP/1.1\r\nHost: n\r\n\r\n",
	"POST / HTTP/1.1\r\nHost: h\r\nTransfer-Encoding : chunked\r\nContent-Length: 5\r\n\r\n0\r\n\r\nGET /next HTTP/1.1\r\nHost: n\r\n\r\n",
	"POST / HTTP/1.1\r\nHost: h\r\nContent\x00Length: 5\r\n\r\nhello",
	"POST / HTTP/1.1\r\nHost: h\r\nTransfer-Encoding: chunked, identity\r\nContent-Length: 5\r\n\r\n0\r\n\r\nGET /next HTTP/1.1\r\nHost: n\r\n\r\n",
	"POST / HTTP/1.1\r\nHost: h\r\nTransfer-Encoding: identity, chunked\r\nContent-Length: 5\r\n\r\n0\r\n\r\nGET /next HTTP/1.1\r\nHost: n\r\n\r\n",
	"POST / HTTP/1.1\r\nHost: h\r\nTransfer-Encoding: identity\r\nContent-Length: 5\r\n\r\nhelloGET /next HTTP/1.1\r\nHost: n\r\n\r\n",
	"POST / HTTP/1.1\r\nHost: h\r\nTransfer-Encoding: chunked\r\nTransfer-Encoding: gzip\r\n\r\n0\r\n\r\nGET /next HTTP/1.1\r\nHost: n\r\n\r\n",
	"POST / HTTP/1.1\r\nHost: h\r\nTransfer-Encoding: identity\r\nTransfer-Encoding: chunked\r\n\r\n0\r\n\r\nGET /next HTTP/1.1\r\nHost: n\r\n\r\n",
	"POST / HTTP/1.1\r\nHost: h\r\nTransfer-Encoding: xchunked\r\nContent-Length: 5\r\n\r\nhello",
	"POST / HTTP/1.1\r\nHost: h\r\nTransfer-Encoding: \x0bchunked\r\nContent-Length: 5\r\n\r\n0\r\n\r\nGET /next HTTP/1.1\r\nHost: n\r\n\r\n",
	"POST / HTTP/1.1\r\nHost: h\r\nTransfer-Encoding: gzip, chunked\r\n\r\n0\r\n\r\n",
	"POST / HTTP/1.0\r\nHost: h\r\nTransfer-Encoding: chunked\r\n\r\n3\r\nabc\r\n0\r\n\r\nGET /next HTTP/1.1\r\nHost: n\r\n\r\n",
	"POST / HTTP/1.1\r\n Transfer-Encoding: chunked\r\nHost: h\r\n\r\n0\r\n\r\nGET /next HTTP/1.1\r\nHost: n\r\n\r\n",
	"GET / HTTP/1.1\r\n \r\nHost: h\r\n\r\nGET /next HTTP/1.1\r\nHost: n\r\n\r\n",
	"POST / HTTP/1.1\r\nHost: h\r\nTransfer-Encoding:\r\n chunked\r\n\r\n3\r\nabc\r\n0\r\n\r\nGET /next HTTP/1.1\r\nHost: n\r\n\r\n",
	"GET / HTTP/1.1\r\nHost: h\r\n: v\r\n\r\nGET /next HTTP/1.1\r\nHost: n\r\n\r\n",
	"GET / HTTP/1.1\nHost: h\n\nGET /next HTTP/1.1\r\nHost: n\r\n\r\n",
	"\r\nGET / HTTP/1.1\r\nHost: h\r\n\r\n",
	"GET / HTTP/1.1\r\nHost: h\r\nX-Long: " + strings.Repeat("a", 4090) + "\r\nContent-Length: 3\r\n\r\nabcGET /next HTTP/1.1\r\nHost: n\r\n\r\n",
	"POST / HTTP/1.1\r\nHost: h\r\nContent-Length: 10\r\n\r\nshort",
	"GET / HTTP/1.1\r\nHost: h\r\n",
	"GET / HTTP/1.1",
	"GET /C HTTP/1.0\r\n  ",
	"POST / HTTP/1.1\r\nHost: h\r\nTransfer-Encoding: chunked\r\n\r\n5;x\r\nhello\r\n0;y=z\r\n\r\nGET /next HTTP/1.1\r\nHost: n\r\n\r\n",
	"POST / HTTP/1.1\r\nHost: h\r\nTransfer-Encoding: chunked\r\n\r\n10000000000000005;x\r\nhello\r\n0\r\n\r\nGET /smuggled HTTP/1.1\r\nHost: n\r\n\r\n",
	"POST / HTTP/1.1\r\nHost: h\r\nTransfer-Encoding: chunked\r\n\r\n00000000000000005;x\r\nhello\r\n0\r\n\r\nGET /next HTTP/1.1\r\nHost: n\r\n\r\n",
	"POST / HTTP/1.1\r\nHost: h\r\nTransfer-Encoding: chunked\r\n\r\n0000000000000005\r\nhello\r\n0000000000000000\r\n\r\nGET /next HTTP/1.1\r\nHost: n\r\n\r\n",
	"",
}

func TestC24(t *testing.T) {
	rec := ev.New("C24", c24Rule)
	for _, s := range c24Seeds {
		c24CheckStream(t, rec, []byte(s), nil, "seed", nil)
		c24CheckStream(t, rec, []byte(s), []int{1}, "seed", nil)
		c24CheckStream(t, rec, []byte(s), []int{5, 3, 64}, "seed", nil)
	}
	for _, s := range c24ServerSeeds {
		c24ServerCase(t, rec, []byte(s), []string{"server-seed"})
	}
	rapid.Check(t, func(rt *rapid.T) {
		if uni(rt, "server?", 50) == 49 {
			// connection level: the same framing question asked of bfe's serve loop
			stream, feats := genServerStream(rt)
			rec.Sample(map[string]any{"gen": "server", "features": feats, "stream": clip(stream, 300)})
			c24ServerCase(rt, rec, stream, feats)
			return
		}
		g := &c24Gen{rt: rt}
		n := rapid.IntRange(1, 4).Draw(rt, "nreq")
		var stream []byte
		for i := 0; i < n; i++ {
			if n > 1 && uni(rt, g.label("benign"), 3) == 0 {
				stream = append(stream, c24Benign(uni(rt, g.label("benign-kind"), 3))...)
				continue
			}
			stream = append(stream, g.request()...)
		}
		if uni(rt, "tail-benign", 4) != 0 {
			stream = append(stream, c24Benign(uni(rt, "tail-kind", 3))...)
		}
		gen := "grammar"
		if uni(rt, "edit?", 10) == 9 && len(stream) > 0 {
			gen = "grammar+byte-edit"
			i := rapid.IntRange(0, len(stream)-1).Draw(rt, "edit_at")
			repl := rapid.SampledFrom([]string{"", "\r", "\n", " ", "\t", ":", ",", "0", "\x00", "\r\n", "+", "\x0b"}).Draw(rt, "edit_repl")
			if rapid.Bool().Draw(rt, "edit_insert") {
				stream = append(append(append([]byte(nil), stream[:i]...), repl...), stream[i:]...)
			} else {
				stream = append(append(append([]byte(nil), stream[:i]...), repl...), stream[i+1:]...)
			}
		}
		segs := genSegs(rt)
		rec.Sample(map[string]any{"gen": gen, "features": g.feats, "segs": len(segs), "stream": clip(stream, 300)})
		c24CheckStream(rt, rec, stream, segs, gen, g.feats)
	})
}

func FuzzC24(f *testing.F) {
	rec := ev.New("C24", c24Rule)
	for _, s := range c24Seeds {
		f.Add([]byte(s))
	}
	f.Fuzz(func(t *testing.T, stream []byte) {
		if len(stream) > 1<<16 {
			return
		}
		c24CheckStream(t, rec, stream, nil, "fuzz", nil)
		c24CheckStream(t, rec, stream, []int{3, 1, 17}, "fuzz", nil)
	})
}

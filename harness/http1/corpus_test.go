package http1

import (
	"fmt"
	"os"
	"path/filepath"
	"strconv"
	"testing"
)

// TestWriteCorpus regenerates /verif/corpus/FuzzC23 and /verif/corpus/FuzzC24
// (go fuzz corpus file format) from c23Seeds / c24Seeds. It only runs when
// VERIF_WRITE_CORPUS=1; the committed files are what the driver copies into
// testdata/fuzz/<target>/ before a native fuzz campaign.
func TestWriteCorpus(t *testing.T) {
	if os.Getenv("VERIF_WRITE_CORPUS") != "1" {
		t.Skip("set VERIF_WRITE_CORPUS=1 to regenerate the seed corpus")
	}
	root := os.Getenv("VERIF_ROOT")
	if root == "" {
		root = "/verif"
	}
	for target, seeds := range map[string][]string{"FuzzC23": c23Seeds, "FuzzC24": c24Seeds} {
		dir := filepath.Join(root, "corpus", target)
		if err := os.MkdirAll(dir, 0o755); err != nil {
			t.Fatal(err)
		}
		for i, s := range seeds {
			data := "go test fuzz v1\n[]byte(" + strconv.Quote(s) + ")\n"
			if err := os.WriteFile(filepath.Join(dir, fmt.Sprintf("seed%02d", i)), []byte(data), 0o644); err != nil {
				t.Fatal(err)
			}
		}
	}
}

// Package ref holds small, deliberately naive reference models written from
// the RFCs (not from bfe's code). h1.go: strict RFC 7230 message parser used
// to judge the bytes BFE writes to backends and clients.
package ref

import (
	"bytes"
	"errors"
	"fmt"
	"strconv"
	"strings"
)

type Field struct {
	Name  string
	Value string
}

type Message struct {
	// request
	Method, Target string
	// response
	Status int
	Reason string
	Proto  string
	Fields []Field
	Body   []byte
	// framing facts
	Chunked      bool
	HasCL        bool
	CL           int64
	UntilClose   bool // response delimited by connection close
	Trailers     []Field
	HeaderLen    int // bytes of start line + header section incl. final CRLF
	ConsumedLen  int // total bytes consumed
	BothTEandCL  bool
	NoBodyByRule bool // HEAD response / 1xx / 204 / 304
}

// ErrIncomplete means the buffer ends before the message does (not malformed so far).
var ErrIncomplete = errors.New("incomplete message")

func isTchar(c byte) bool {
	if c >= '0' && c <= '9' || c >= 'a' && c <= 'z' || c >= 'A' && c <= 'Z' {
		return true
	}
	return strings.IndexByte("!#$%&'*+-.^_`|~", c) >= 0
}

func IsToken(s string) bool {
	if s == "" {
		return false
	}
	for i := 0; i < len(s); i++ {
		if !isTchar(s[i]) {
			return false
		}
	}
	return true
}

func isFieldValue(s string) bool {
	for i := 0; i < len(s); i++ {
		c := s[i]
		if c == '\t' || c == ' ' || (c >= 0x21 && c != 0x7f) {
			continue
		}
		return false
	}
	return true
}

func (m *Message) Get(name string) (vals []string) {
	for _, f := range m.Fields {
		if strings.EqualFold(f.Name, name) {
			vals = append(vals, f.Value)
		}
	}
	return
}

func (m *Message) Has(name string) bool { return len(m.Get(name)) > 0 }

// line returns the next CRLF-terminated line (without CRLF). Bare LF or bare CR are malformed.
func line(b []byte) (l []byte, n int, err error) {
	i := bytes.IndexByte(b, '\n')
	if i < 0 {
		if bytes.IndexByte(b, '\r') >= 0 && bytes.IndexByte(b, '\r') != len(b)-1 {
			return nil, 0, fmt.Errorf("bare CR in line %q", clip(b))
		}
		return nil, 0, ErrIncomplete
	}
	if i == 0 || b[i-1] != '\r' {
		return nil, 0, fmt.Errorf("bare LF line terminator in %q", clip(b[:i+1]))
	}
	l = b[:i-1]
	if bytes.IndexByte(l, '\r') >= 0 {
		return nil, 0, fmt.Errorf("bare CR inside line %q", clip(l))
	}
	return l, i + 1, nil
}

func clip(b []byte) string {
	if len(b) > 80 {
		return string(b[:80]) + "..."
	}
	return string(b)
}

func parseFields(b []byte) (fs []Field, n int, err error) {
	for {
		l, k, e := line(b[n:])
		if e != nil {
			return nil, 0, e
		}
		n += k
		if len(l) == 0 {
			return fs, n, nil
		}
		if l[0] == ' ' || l[0] == '\t' {
			return nil, 0, fmt.Errorf("obs-fold / leading whitespace in header line %q", clip(l))
		}
		c := bytes.IndexByte(l, ':')
		if c < 0 {
			return nil, 0, fmt.Errorf("header line without colon %q", clip(l))
		}
		name := string(l[:c])
		if !IsToken(name) {
			return nil, 0, fmt.Errorf("field name %q is not a token", name)
		}
		val := strings.Trim(string(l[c+1:]), " \t")
		if !isFieldValue(val) {
			return nil, 0, fmt.Errorf("field value of %q has invalid bytes: %q", name, val)
		}
		fs = append(fs, Field{name, val})
	}
}

func splitList(vals []string) (out []string) {
	for _, v := range vals {
		for _, p := range strings.Split(v, ",") {
			p = strings.Trim(p, " \t")
			if p != "" {
				out = append(out, p)
			}
		}
	}
	return
}

func (m *Message) framing(isReq bool, reqMethod string) error {
	te := splitList(m.Get("Transfer-Encoding"))
	cls := splitList(m.Get("Content-Length"))
	if len(cls) > 0 {
		for _, c := range cls {
			if c != cls[0] {
				return fmt.Errorf("conflicting Content-Length values %v", cls)
			}
		}
		for i := 0; i < len(cls[0]); i++ {
			if cls[0][i] < '0' || cls[0][i] > '9' {
				return fmt.Errorf("invalid Content-Length %q", cls[0])
			}
		}
		v, err := strconv.ParseInt(cls[0], 10, 64)
		if err != nil {
			return fmt.Errorf("invalid Content-Length %q", cls[0])
		}
		m.HasCL, m.CL = true, v
	}
	if !isReq {
		if reqMethod == "HEAD" || m.Status/100 == 1 || m.Status == 204 || m.Status == 304 {
			m.NoBodyByRule = true
			return nil
		}
	}
	if len(te) > 0 {
		if m.HasCL {
			m.BothTEandCL = true
		}
		last := strings.ToLower(te[len(te)-1])
		for _, c := range te[:len(te)-1] {
			if strings.EqualFold(c, "chunked") {
				return fmt.Errorf("chunked is not the final transfer coding: %v", te)
			}
		}
		if last == "chunked" {
			m.Chunked = true
			return nil
		}
		if isReq {
			return fmt.Errorf("request Transfer-Encoding %v does not end in chunked", te)
		}
		m.UntilClose = true
		return nil
	}
	if m.HasCL {
		return nil
	}
	if !isReq {
		m.UntilClose = true
	}
	return nil
}

func (m *Message) readBody(b []byte, closed bool) (n int, err error) {
	switch {
	case m.NoBodyByRule:
		return 0, nil
	case m.Chunked:
		body, tr, k, e := ParseChunked(b)
		if e != nil {
			return 0, e
		}
		m.Body, m.Trailers = body, tr
		return k, nil
	case m.UntilClose:
		if !closed {
			return 0, ErrIncomplete
		}
		m.Body = b
		return len(b), nil
	case m.HasCL:
		if int64(len(b)) < m.CL {
			return 0, ErrIncomplete
		}
		m.Body = b[:m.CL]
		return int(m.CL), nil
	}
	return 0, nil
}

// ParseChunked decodes one chunked body (RFC 7230 4.1) from b.
func ParseChunked(b []byte) (body []byte, trailers []Field, n int, err error) {
	for {
		l, k, e := line(b[n:])
		if e != nil {
			return nil, nil, 0, e
		}
		n += k
		sz := l
		if i := bytes.IndexByte(l, ';'); i >= 0 {
			sz = l[:i]
			if !isFieldValue(string(l[i:])) {
				return nil, nil, 0, fmt.Errorf("invalid chunk extension %q", clip(l))
			}
		}
		sz = bytes.TrimRight(sz, " \t") // BWS before ';' tolerated (RFC 7230 4.1.1 errata)
		if len(sz) < 1 || len(sz) > 16 {
			return nil, nil, 0, fmt.Errorf("chunk-size %q is not 1..16 hex digits", clip(sz))
		}
		var v uint64
		for _, c := range sz {
			var d byte
			switch {
			case c >= '0' && c <= '9':
				d = c - '0'
			case c >= 'a' && c <= 'f':
				d = c - 'a' + 10
			case c >= 'A' && c <= 'F':
				d = c - 'A' + 10
			default:
				return nil, nil, 0, fmt.Errorf("chunk-size %q has a non-hex byte", clip(sz))
			}
			v = v<<4 | uint64(d)
		}
		if v > 1<<40 {
			return nil, nil, 0, fmt.Errorf("chunk-size %d unreasonably large", v)
		}
		if v == 0 {
			tr, k, e := parseFields(b[n:])
			if e != nil {
				return nil, nil, 0, e
			}
			return body, tr, n + k, nil
		}
		if uint64(len(b)-n) < v+2 {
			return nil, nil, 0, ErrIncomplete
		}
		body = append(body, b[n:n+int(v)]...)
		n += int(v)
		if b[n] != '\r' || b[n+1] != '\n' {
			return nil, nil, 0, fmt.Errorf("chunk data not followed by CRLF: %q", clip(b[n:]))
		}
		n += 2
	}
}

// ParseRequest parses exactly one request from the front of b.
func ParseRequest(b []byte) (*Message, error) {
	l, n, err := line(b)
	if err != nil {
		return nil, err
	}
	parts := strings.Split(string(l), " ")
	if len(parts) != 3 {
		return nil, fmt.Errorf("request line %q does not have exactly 3 SP-separated parts", clip(l))
	}
	m := &Message{Method: parts[0], Target: parts[1], Proto: parts[2]}
	if !IsToken(m.Method) {
		return nil, fmt.Errorf("method %q is not a token", m.Method)
	}
	if m.Target == "" {
		return nil, fmt.Errorf("empty request target")
	}
	for i := 0; i < len(m.Target); i++ {
		if c := m.Target[i]; c <= 0x20 || c == 0x7f {
			return nil, fmt.Errorf("request target %q has a control/space byte", m.Target)
		}
	}
	if m.Proto != "HTTP/1.1" && m.Proto != "HTTP/1.0" {
		return nil, fmt.Errorf("bad protocol %q", m.Proto)
	}
	fs, k, err := parseFields(b[n:])
	if err != nil {
		return nil, err
	}
	m.Fields = fs
	m.HeaderLen = n + k
	if err := m.framing(true, ""); err != nil {
		return nil, err
	}
	bn, err := m.readBody(b[m.HeaderLen:], false)
	if err != nil {
		return nil, err
	}
	m.ConsumedLen = m.HeaderLen + bn
	return m, nil
}

// ParseResponse parses exactly one response (to a request with method reqMethod)
// from the front of b; closed tells whether the peer closed the connection after b.
func ParseResponse(b []byte, reqMethod string, closed bool) (*Message, error) {
	l, n, err := line(b)
	if err != nil {
		return nil, err
	}
	s := string(l)
	if len(s) < 12 || (s[:9] != "HTTP/1.1 " && s[:9] != "HTTP/1.0 ") {
		return nil, fmt.Errorf("bad status line %q", clip(l))
	}
	m := &Message{Proto: s[:8]}
	code := s[9:12]
	for i := 0; i < 3; i++ {
		if code[i] < '0' || code[i] > '9' {
			return nil, fmt.Errorf("bad status code in %q", clip(l))
		}
	}
	m.Status, _ = strconv.Atoi(code)
	if len(s) > 12 {
		if s[12] != ' ' {
			return nil, fmt.Errorf("bad status line %q", clip(l))
		}
		m.Reason = s[13:]
		if !isFieldValue(m.Reason) {
			return nil, fmt.Errorf("bad reason phrase %q", m.Reason)
		}
	}
	fs, k, err := parseFields(b[n:])
	if err != nil {
		return nil, err
	}
	m.Fields = fs
	m.HeaderLen = n + k
	if err := m.framing(false, reqMethod); err != nil {
		return nil, err
	}
	bn, err := m.readBody(b[m.HeaderLen:], closed)
	if err != nil {
		return nil, err
	}
	m.ConsumedLen = m.HeaderLen + bn
	return m, nil
}

// Package ev is the evidence recorder and known-finding filter shared by every
// property check. It contains no bfe-specific logic.
package ev

import (
	"encoding/json"
	"fmt"
	"hash/fnv"
	"os"
	"path/filepath"
	"sort"
	"strconv"
	"sync"
	"time"
)

// TB is the common subset of *testing.T and *rapid.T used here.
type TB interface {
	Fatalf(format string, args ...any)
	Logf(format string, args ...any)
}

type finding struct {
	Property string `json:"property"`
	Key      string `json:"key"`
	Status   string `json:"status"` // "open" or "fixed"
	What     string `json:"what"`
}

type findingsFile struct {
	Findings []finding `json:"findings"`
}

// Rec accumulates what one run of one property check covered.
type Rec struct {
	mu        sync.Mutex
	id        string
	rule      string
	start     time.Time
	evals     int64
	nt        map[uint64]struct{}
	classes   map[string]int64
	samples   []any
	nsampled  int64
	excluded  map[string]int64
	knownHits map[string]int64
	printed   map[string]bool
	open      map[string]string
	extra     map[string]any
	viol      int64
	lastCase  any
}

var (
	regMu sync.Mutex
	reg   = map[string]*Rec{}
)

// New returns (creating if necessary) the recorder of property id.
func New(id, rule string) *Rec {
	regMu.Lock()
	defer regMu.Unlock()
	if r, ok := reg[id]; ok {
		return r
	}
	r := &Rec{id: id, rule: rule, start: time.Now(), nt: map[uint64]struct{}{},
		classes: map[string]int64{}, excluded: map[string]int64{}, knownHits: map[string]int64{},
		printed: map[string]bool{}, open: map[string]string{}, extra: map[string]any{}}
	r.loadFindings()
	reg[id] = r
	return r
}

func verifRoot() string {
	if v := os.Getenv("VERIF_ROOT"); v != "" {
		return v
	}
	return "/verif"
}

func (r *Rec) loadFindings() {
	files := []string{filepath.Join(verifRoot(), "known_findings.json")}
	frags, _ := filepath.Glob(filepath.Join(verifRoot(), "known_findings.d", "*.json"))
	files = append(files, frags...)
	for _, fn := range files {
		b, err := os.ReadFile(fn)
		if err != nil {
			continue
		}
		var ff findingsFile
		if json.Unmarshal(b, &ff) != nil {
			continue
		}
		for _, f := range ff.Findings {
			if f.Property == r.id && f.Status == "open" {
				r.open[f.Key] = f.What
			}
		}
	}
}

// Tier is "quick" or "thorough".
func Tier() string {
	if os.Getenv("VERIF_TIER") == "thorough" {
		return "thorough"
	}
	return "quick"
}

// N picks a size by tier.
func N(quick, thorough int) int {
	if Tier() == "thorough" {
		return thorough
	}
	return quick
}

// Seed returns the run's seed (never 0).
func Seed() uint64 {
	v, _ := strconv.ParseUint(os.Getenv("VERIF_RUN_SEED"), 10, 64)
	if v == 0 {
		v = 0x5eed
	}
	return v
}

func fp(s string) uint64 {
	h := fnv.New64a()
	h.Write([]byte(s))
	return h.Sum64()
}

// Case records one generated case. fingerprint is a canonical encoding of the
// case; it is only remembered (hashed) when the case is non-trivial.
func (r *Rec) Case(fingerprint string, nontrivial bool, classes ...string) {
	r.mu.Lock()
	r.evals++
	if nontrivial {
		r.nt[fp(fingerprint)] = struct{}{}
	}
	for _, c := range classes {
		r.classes[c]++
	}
	r.mu.Unlock()
}

// Class bumps a class counter without counting a case.
func (r *Rec) Class(c string) {
	r.mu.Lock()
	r.classes[c]++
	r.mu.Unlock()
}

// Sample offers a case for the sample list (first 3 offered plus the 10th,
// 100th, 1000th ... so the choice does not depend on an RNG of our own).
func (r *Rec) Sample(v any) {
	r.mu.Lock()
	r.nsampled++
	n := r.nsampled
	keep := n <= 3
	for p := int64(10); p <= n && !keep; p *= 10 {
		if n == p {
			keep = true
		}
	}
	if keep && len(r.samples) < 8 {
		r.samples = append(r.samples, v)
	}
	r.lastCase = v
	r.mu.Unlock()
}

// Excluded counts a case removed from the domain by construction.
func (r *Rec) Excluded(reason string) {
	r.mu.Lock()
	r.excluded[reason]++
	r.mu.Unlock()
}

// Set stores an extra coverage key.
func (r *Rec) Set(k string, v any) {
	r.mu.Lock()
	r.extra[k] = v
	r.mu.Unlock()
}

// Add adds to a numeric extra coverage key.
func (r *Rec) Add(k string, d int64) {
	r.mu.Lock()
	cur, _ := r.extra[k].(int64)
	r.extra[k] = cur + d
	r.mu.Unlock()
}

// Known reports whether key is an open known finding of this property.
func (r *Rec) Known(key string) bool {
	r.mu.Lock()
	defer r.mu.Unlock()
	_, ok := r.open[key]
	return ok
}

// Fail reports a discrepancy with finding key `key`. If the key is listed as
// an open known finding it is counted, announced once and false is returned so
// the caller can go on (the case is excluded by construction). Otherwise the
// case is written as a replay file and tb.Fatalf is called.
func (r *Rec) Fail(tb TB, key string, witness any, format string, args ...any) bool {
	msg := fmt.Sprintf(format, args...)
	r.mu.Lock()
	if _, ok := r.open[key]; ok {
		r.knownHits[key]++
		first := !r.printed[key]
		r.printed[key] = true
		what := r.open[key]
		r.mu.Unlock()
		if first {
			fmt.Printf("KNOWN-FINDING: property=%s %s %s\n", r.id, key, what)
		}
		return false
	}
	r.viol++
	r.mu.Unlock()
	r.writeReplay(key, witness, msg)
	r.Flush()
	tb.Fatalf("VIOLATION-CANDIDATE property=%s key=%s: %s", r.id, key, msg)
	return true
}

func (r *Rec) writeReplay(key string, witness any, msg string) {
	dir := os.Getenv("VERIF_REPLAY_DIR")
	if dir == "" {
		return
	}
	os.MkdirAll(dir, 0o755)
	b, _ := json.MarshalIndent(map[string]any{"property": r.id, "key": key, "message": msg, "witness": witness}, "", " ")
	os.WriteFile(filepath.Join(dir, "last.json"), b, 0o644)
}

// Flush writes the partial evidence file (merged by the driver).
func (r *Rec) Flush() {
	out := os.Getenv("VERIF_EV_OUT")
	if out == "" {
		return
	}
	if want := os.Getenv("VERIF_PROPERTY"); want != "" && want != r.id {
		return
	}
	r.mu.Lock()
	defer r.mu.Unlock()
	fps := make([]string, 0, len(r.nt))
	for k := range r.nt {
		fps = append(fps, strconv.FormatUint(k, 16))
	}
	sort.Strings(fps)
	m := map[string]any{
		"property_id": r.id, "rule": r.rule, "evaluations": r.evals, "fingerprints": fps,
		"classes": r.classes, "samples": r.samples, "excluded": r.excluded,
		"known_finding_hits": r.knownHits, "known_finding_what": r.open, "violations": r.viol,
		"extra": r.extra, "wall_s": time.Since(r.start).Seconds(),
	}
	b, err := json.Marshal(m)
	if err != nil {
		// samples must be JSON-able; fall back to their %v form
		ss := make([]any, len(r.samples))
		for i, s := range r.samples {
			ss[i] = fmt.Sprintf("%+v", s)
		}
		m["samples"] = ss
		b, _ = json.Marshal(m)
	}
	os.MkdirAll(filepath.Dir(out), 0o755)
	tmp := out + ".tmp"
	if os.WriteFile(tmp, b, 0o644) == nil {
		os.Rename(tmp, out)
	}
}

// FlushAll flushes every recorder (call from TestMain).
func FlushAll() {
	regMu.Lock()
	rs := make([]*Rec, 0, len(reg))
	for _, r := range reg {
		rs = append(rs, r)
	}
	regMu.Unlock()
	for _, r := range rs {
		r.Flush()
	}
}

// Main is a TestMain body: run, flush evidence, exit.
func Main(run func() int) {
	code := run()
	FlushAll()
	os.Exit(code)
}

// Try runs f and returns the recovered panic value (nil if none).
func Try(f func()) (p any) {
	defer func() { p = recover() }()
	f()
	return nil
}

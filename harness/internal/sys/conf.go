// Package sys is the in-process BFE rig: a real BfeServer assembled from the
// exported methods StartUp uses, generated configuration files, scripted raw TCP
// backends and raw clients. It contains no oracle logic.
package sys

import (
	"encoding/json"
	"fmt"
	"os"
	"path/filepath"
	"sort"
)

type BackendSpec struct {
	Name   string
	Addr   string
	Port   int
	Weight int
}

type SubCluster struct {
	Name     string
	Weight   int
	Backends []BackendSpec
}

type Cluster struct {
	Name                    string
	Sub                     []SubCluster
	RetryMax, CrossRetry    int
	RetryLevel              int
	TimeoutConnSrvMs        int
	TimeoutResponseHeaderMs int
	MaxIdleConnsPerHost     int
	HashStrategy            int
	HashHeader              string
	SessionSticky           bool
	BalanceMode             string // "" / "WRR" / "WLC"
	Protocol                string // "" = http
	FailNum                 int
	CheckIntervalMs         int
	ResFlushIntervalMs      int
	ReqWriteBufferSize      int
	TimeoutReadClientMs     int
	TimeoutWriteClientMs    int
	TimeoutReadClientAgainMs int
}

type Rule struct {
	Cond    string
	Cluster string
}

type BasicRule struct {
	Hostname []string
	Path     []string
	Cluster  string
}

// DataConf is one version of the hot-reloadable data configuration.
type DataConf struct {
	Version        string
	Hosts          map[string][]string // host tag -> hosts
	HostTags       map[string][]string // product -> host tags
	DefaultProduct string
	Vips           map[string][]string // product -> vips
	Rules          map[string][]Rule   // product -> advanced rules
	BasicRules     map[string][]BasicRule
	Clusters       []Cluster
}

func def(v, d int) int {
	if v == 0 {
		return d
	}
	return v
}

func (c *DataConf) files() map[string]any {
	host := map[string]any{"Version": c.Version, "Hosts": c.Hosts, "HostTags": c.HostTags}
	if c.DefaultProduct != "" {
		host["DefaultProduct"] = c.DefaultProduct
	} else {
		host["DefaultProduct"] = nil
	}
	vips := c.Vips
	if vips == nil {
		vips = map[string][]string{}
	}
	route := map[string]any{"Version": c.Version}
	pr := map[string][]map[string]any{}
	for p, rs := range c.Rules {
		for _, r := range rs {
			pr[p] = append(pr[p], map[string]any{"Cond": r.Cond, "ClusterName": r.Cluster})
		}
	}
	route["ProductRule"] = pr
	if len(c.BasicRules) > 0 {
		br := map[string][]map[string]any{}
		for p, rs := range c.BasicRules {
			for _, r := range rs {
				br[p] = append(br[p], map[string]any{"Hostname": r.Hostname, "Path": r.Path, "ClusterName": r.Cluster})
			}
		}
		route["BasicRule"] = br
	}
	cc := map[string]any{}
	gslb := map[string]map[string]int{}
	ct := map[string]map[string][]map[string]any{}
	for _, cl := range c.Clusters {
		bc := map[string]any{
			"TimeoutConnSrv":        def(cl.TimeoutConnSrvMs, 2000),
			"TimeoutResponseHeader": def(cl.TimeoutResponseHeaderMs, 50000),
			"MaxIdleConnsPerHost":   cl.MaxIdleConnsPerHost,
			"RetryLevel":            cl.RetryLevel,
		}
		if cl.Protocol != "" {
			bc["Protocol"] = cl.Protocol
		}
		gb := map[string]any{
			"CrossRetry": cl.CrossRetry, "RetryMax": cl.RetryMax,
			"HashConf": map[string]any{"HashStrategy": cl.HashStrategy, "HashHeader": defs(cl.HashHeader, "Cookie:UID"), "SessionSticky": cl.SessionSticky},
		}
		if cl.BalanceMode != "" {
			gb["BalanceMode"] = cl.BalanceMode
		}
		cc[cl.Name] = map[string]any{
			"BackendConf": bc,
			"CheckConf": map[string]any{"Schem": "tcp", "FailNum": def(cl.FailNum, 1000000),
				"CheckInterval": def(cl.CheckIntervalMs, 1000)},
			"GslbBasic": gb,
			"ClusterBasic": map[string]any{
				"TimeoutReadClient": def(cl.TimeoutReadClientMs, 30000), "TimeoutWriteClient": def(cl.TimeoutWriteClientMs, 60000),
				"TimeoutReadClientAgain": def(cl.TimeoutReadClientAgainMs, 30000),
				"ReqWriteBufferSize": def(cl.ReqWriteBufferSize, 512), "ReqFlushInterval": 0,
				"ResFlushInterval": resFlush(cl.ResFlushIntervalMs), "CancelOnClientClose": false},
		}
		gslb[cl.Name] = map[string]int{}
		ct[cl.Name] = map[string][]map[string]any{}
		for _, sc := range cl.Sub {
			gslb[cl.Name][sc.Name] = sc.Weight
			if sc.Name == "GSLB_BLACKHOLE" {
				continue
			}
			bs := []map[string]any{}
			for _, b := range sc.Backends {
				bs = append(bs, map[string]any{"Addr": b.Addr, "Name": b.Name, "Port": b.Port, "Weight": b.Weight})
			}
			ct[cl.Name][sc.Name] = bs
		}
	}
	return map[string]any{
		"host_rule.data":     host,
		"vip_rule.data":      map[string]any{"Version": c.Version, "Vips": vips},
		"route_rule.data":    route,
		"cluster_conf.data":  map[string]any{"Version": c.Version, "Config": cc},
		"gslb.data":          map[string]any{"Clusters": gslb, "Hostname": "", "Ts": "0"},
		"cluster_table.data": map[string]any{"Config": ct, "Version": c.Version},
	}
}

// ResFlushZero selects ResFlushInterval 0 (no periodic flush); the zero value of
// Cluster.ResFlushIntervalMs means the shipped default -1 (flush immediately).
const ResFlushZero = -1000

func resFlush(v int) int {
	switch v {
	case 0:
		return -1
	case ResFlushZero:
		return 0
	}
	return v
}

func defs(v, d string) string {
	if v == "" {
		return d
	}
	return v
}

// Write writes the six data files into dir and returns their paths keyed by file name.
func (c *DataConf) Write(dir string) (map[string]string, error) {
	if err := os.MkdirAll(dir, 0o755); err != nil {
		return nil, err
	}
	out := map[string]string{}
	fs := c.files()
	names := make([]string, 0, len(fs))
	for n := range fs {
		names = append(names, n)
	}
	sort.Strings(names)
	for _, n := range names {
		b, err := json.MarshalIndent(fs[n], "", " ")
		if err != nil {
			return nil, err
		}
		p := filepath.Join(dir, n)
		if err := os.WriteFile(p, b, 0o644); err != nil {
			return nil, err
		}
		out[n] = p
	}
	return out, nil
}

// SimpleConf: one product "p" owning host "example.org" (plus extra hosts) routed by default_t() to cluster "c".
func SimpleConf(version string, clusters []Cluster, rules []Rule) *DataConf {
	if rules == nil {
		rules = []Rule{{Cond: "default_t()", Cluster: clusters[0].Name}}
	}
	return &DataConf{
		Version:  version,
		Hosts:    map[string][]string{"t": {"example.org"}},
		HostTags: map[string][]string{"p": {"t"}},
		Rules:    map[string][]Rule{"p": rules},
		Clusters: clusters,
	}
}

func OneBackendCluster(name string, port int) Cluster {
	return Cluster{Name: name, Sub: []SubCluster{{Name: name + ".sub", Weight: 100,
		Backends: []BackendSpec{{Name: fmt.Sprintf("%s.b%d", name, port), Addr: "127.0.0.1", Port: port, Weight: 10}}}}}
}

package sys

import (
	"fmt"
	"io"
	"net"
	"net/url"
	"os"
	"os/exec"
	"path/filepath"
	"strings"
	"sync"
	"time"

	"github.com/baidu/go-lib/log"
	"github.com/baidu/go-lib/web-monitor/web_monitor"
	"github.com/bfenetworks/bfe/bfe_config/bfe_conf"
	"github.com/bfenetworks/bfe/bfe_modules"
	"github.com/bfenetworks/bfe/bfe_server"
)

type Options struct {
	Modules            []string // bfe.conf Modules list (nil = none)
	Layer4LoadBalancer string   // "" or "PROXY"
	Data               *DataConf
	NextProtos         []string // tls rule NextProtos for product "p" (nil: h2, spdy/3.1, http/1.1)
	StreamProduct      bool     // add "stream" next proto
	ClientReadTimeout  int      // seconds (0: 10)
	MaxHeaderBytes     int
	KeepAliveDisabled  bool
	LogLevel           string // default ERROR
	SessionTickets     bool   // enable TLS session tickets (bfe.conf ships with them disabled)
	// BeforeModules runs after RegisterModules/InitModules; use it to add harness filters.
	AfterInit func(srv *bfe_server.BfeServer) error
	// ModuleConf lets a test overwrite module config files: relative path under conf root -> content.
	Files map[string]string
}

type Rig struct {
	Srv       *bfe_server.BfeServer
	Cfg       bfe_conf.BfeConfig
	ConfRoot  string
	HTTPAddr  string
	HTTPSAddr string
	httpLn    net.Listener
	httpsLn   net.Listener
	verMu     sync.Mutex
	ver       int
}

var (
	startMu sync.Mutex
	started bool
)

func workDir() string {
	if w := os.Getenv("VERIF_WORK"); w != "" {
		return w
	}
	d, _ := os.MkdirTemp("", "verif-rig")
	return d
}

// Start assembles one in-process BFE the way bfe_server.StartUp does, on
// ephemeral loopback ports. Only one rig per process (bfe has process-wide module state).
func Start(o Options) (*Rig, error) {
	startMu.Lock()
	defer startMu.Unlock()
	if started {
		return nil, fmt.Errorf("sys.Start: a rig already exists in this process")
	}
	wd := workDir()
	os.MkdirAll(wd, 0o755)
	root := filepath.Join(wd, "conf")
	os.RemoveAll(root)
	if out, err := exec.Command("cp", "-r", "/repo/conf", root).CombinedOutput(); err != nil {
		// /repo may be a scratch copy in alt mode; VERIF_REPO_CONF overrides
		return nil, fmt.Errorf("copy conf: %v %s", err, out)
	}
	logDir := filepath.Join(workDir(), "log")
	os.MkdirAll(logDir, 0o755)
	lvl := o.LogLevel
	if lvl == "" {
		lvl = "ERROR"
	}
	if log.Logger == nil {
		if err := log.Init("bfe", lvl, logDir, false, "midnight", 7); err != nil {
			return nil, err
		}
	}
	// bfe.conf
	conf, err := os.ReadFile(filepath.Join(root, "bfe.conf"))
	if err != nil {
		return nil, err
	}
	var lines []string
	for _, l := range strings.Split(string(conf), "\n") {
		t := strings.TrimSpace(l)
		switch {
		case strings.HasPrefix(t, "Modules"):
			continue
		case strings.HasPrefix(t, "Layer4LoadBalancer"):
			l = fmt.Sprintf("Layer4LoadBalancer = \"%s\"", o.Layer4LoadBalancer)
		case strings.HasPrefix(t, "ClientReadTimeout"):
			l = fmt.Sprintf("ClientReadTimeout = %d", def(o.ClientReadTimeout, 10))
		case strings.HasPrefix(t, "MaxHeaderBytes") && o.MaxHeaderBytes > 0:
			l = fmt.Sprintf("MaxHeaderBytes = %d", o.MaxHeaderBytes)
		case strings.HasPrefix(t, "KeepAliveEnabled") && o.KeepAliveDisabled:
			l = "KeepAliveEnabled = false"
		case strings.HasPrefix(t, "SessionTicketsDisabled") && o.SessionTickets:
			l = "SessionTicketsDisabled = false"
		case strings.HasPrefix(t, "GracefulShutdownTimeout"):
			l = "GracefulShutdownTimeout = 1"
		}
		lines = append(lines, l)
		if t == "[Server]" {
			for _, m := range o.Modules {
				lines = append(lines, "Modules = "+m)
			}
		}
	}
	if err := os.WriteFile(filepath.Join(root, "bfe.conf"), []byte(strings.Join(lines, "\n")), 0o644); err != nil {
		return nil, err
	}
	// tls rule with parameter-less NextProtos (Go 1.23 url.ParseQuery rejects ';')
	np := o.NextProtos
	if np == nil {
		np = []string{"h2", "spdy/3.1", "http/1.1"}
	}
	if o.StreamProduct {
		np = []string{"stream"}
	}
	nps := `"` + strings.Join(np, `","`) + `"`
	tlsRule := fmt.Sprintf(`{"Version":"1","DefaultNextProtos":[%s],"Config":{"p":{"VipConf":[],"SniConf":["example.org"],"CertName":"example.org","NextProtos":[%s],"Grade":"C","ClientAuth":false,"ClientCAName":"example_ca"}}}`, nps, nps)
	if err := os.WriteFile(filepath.Join(root, "tls_conf/tls_rule_conf.data"), []byte(tlsRule), 0o644); err != nil {
		return nil, err
	}
	for rel, content := range o.Files {
		p := filepath.Join(root, rel)
		os.MkdirAll(filepath.Dir(p), 0o755)
		if err := os.WriteFile(p, []byte(content), 0o644); err != nil {
			return nil, err
		}
	}
	if o.Data != nil {
		fs, err := o.Data.Write(filepath.Join(root, "gen0"))
		if err != nil {
			return nil, err
		}
		for _, n := range []string{"host_rule.data", "vip_rule.data", "route_rule.data", "cluster_conf.data"} {
			cp(fs[n], filepath.Join(root, "server_data_conf", n))
		}
		for _, n := range []string{"gslb.data", "cluster_table.data"} {
			cp(fs[n], filepath.Join(root, "cluster_conf", n))
		}
	}
	cfg, err := bfe_conf.BfeConfigLoad(filepath.Join(root, "bfe.conf"), root)
	if err != nil {
		return nil, fmt.Errorf("BfeConfigLoad: %v", err)
	}
	cfg.Server.MonitorPort = 0
	bfe_modules.SetModules()
	srv := bfe_server.NewBfeServer(cfg, root, "verif")
	if err := srv.InitHttp(); err != nil {
		return nil, fmt.Errorf("InitHttp: %v", err)
	}
	if err := srv.InitHttps(); err != nil {
		return nil, fmt.Errorf("InitHttps: %v", err)
	}
	if err := srv.InitDataLoad(); err != nil {
		return nil, fmt.Errorf("InitDataLoad: %v", err)
	}
	if err := srv.InitWebMonitor(0); err != nil {
		return nil, fmt.Errorf("InitWebMonitor: %v", err)
	}
	if err := srv.RegisterModules(cfg.Server.Modules); err != nil {
		return nil, fmt.Errorf("RegisterModules: %v", err)
	}
	if err := srv.InitModules(); err != nil {
		return nil, fmt.Errorf("InitModules: %v", err)
	}
	if o.AfterInit != nil {
		if err := o.AfterInit(srv); err != nil {
			return nil, err
		}
	}
	r := &Rig{Srv: srv, Cfg: cfg, ConfRoot: root}
	hl, err := net.Listen("tcp", "127.0.0.1:0")
	if err != nil {
		return nil, err
	}
	sl, err := net.Listen("tcp", "127.0.0.1:0")
	if err != nil {
		return nil, err
	}
	r.httpLn, r.httpsLn = hl, sl
	r.HTTPAddr, r.HTTPSAddr = hl.Addr().String(), sl.Addr().String()
	srv.HttpListener = bfe_server.NewBfeListener(hl, cfg)
	srv.HttpsListener = bfe_server.NewHttpsListener(bfe_server.NewBfeListener(sl, cfg), srv.TLSConfig)
	go srv.ServeHttp(srv.HttpListener)
	go srv.ServeHttps(srv.HttpsListener)
	started = true
	return r, nil
}

func cp(src, dst string) error {
	b, err := os.ReadFile(src)
	if err != nil {
		return err
	}
	return os.WriteFile(dst, b, 0o644)
}

// ServeOn serves HTTP on an additional harness-owned listener (e.g. one whose
// conns report a generated RemoteAddr).
func (r *Rig) ServeOn(ln net.Listener) {
	go r.Srv.ServeHttp(bfe_server.NewBfeListener(ln, r.Cfg))
}

// Reload writes a new data configuration version and applies it through the real
// reload entry points (server data first, then gslb), as an operator would.
func (r *Rig) Reload(d *DataConf) error {
	fs, err := r.WriteVersion(d)
	if err != nil {
		return err
	}
	if err := r.ReloadServerData(fs); err != nil {
		return err
	}
	return r.ReloadGslb(fs)
}

func (r *Rig) WriteVersion(d *DataConf) (map[string]string, error) {
	r.verMu.Lock()
	r.ver++
	v := r.ver
	r.verMu.Unlock()
	return d.Write(filepath.Join(r.ConfRoot, fmt.Sprintf("gen%d", v)))
}

func (r *Rig) ReloadServerData(fs map[string]string) error {
	// ServerDataConfReload with a path= query expects a directory holding the four files
	q := url.Values{}
	q.Set("path", filepath.Dir(fs["host_rule.data"]))
	return r.Srv.ServerDataConfReload(q)
}

func (r *Rig) ReloadGslb(fs map[string]string) error {
	q := url.Values{}
	q.Set("path", filepath.Dir(fs["gslb.data"]))
	return r.Srv.GslbDataConfReload(q)
}

// Dial opens a raw TCP client connection to the HTTP port.
func (r *Rig) Dial() (net.Conn, error) { return net.DialTimeout("tcp", r.HTTPAddr, 5*time.Second) }

// ReadAllTimeout reads until EOF/error or until d has passed without the
// connection being closed; closed reports whether the peer closed.
func ReadAllTimeout(c net.Conn, d time.Duration) (data []byte, closed bool) {
	c.SetReadDeadline(time.Now().Add(d))
	buf := make([]byte, 32*1024)
	for {
		n, err := c.Read(buf)
		data = append(data, buf[:n]...)
		if err != nil {
			if ne, ok := err.(net.Error); ok && ne.Timeout() {
				return data, false
			}
			return data, true
		}
	}
}

var _ = io.EOF

// ReloadModule calls the reload handler a module registered with the web monitor
// (what `curl monitor:port/reload/<name>?path=...` would run).
func (r *Rig) ReloadModule(name, path string) error {
	h, err := r.Srv.Monitor.WebHandlers.GetHandler(web_monitor.WebHandleReload, name)
	if err != nil {
		return err
	}
	q := url.Values{}
	if path != "" {
		q.Set("path", path)
	}
	switch f := h.(type) {
	case func(url.Values) error:
		return f(q)
	case func(map[string][]string) error:
		return f(q)
	case func() error:
		return f()
	}
	return fmt.Errorf("reload handler of %s has unsupported type %T", name, h)
}

// FakeAddrListener reports a harness-chosen RemoteAddr for each accepted connection.
type FakeAddrListener struct {
	net.Listener
	mu   sync.Mutex
	next *net.TCPAddr
}

func NewFakeAddrListener() (*FakeAddrListener, error) {
	ln, err := net.Listen("tcp", "127.0.0.1:0")
	if err != nil {
		return nil, err
	}
	return &FakeAddrListener{Listener: ln}, nil
}

// SetNext sets the address the next accepted connection will report.
func (l *FakeAddrListener) SetNext(a *net.TCPAddr) {
	l.mu.Lock()
	l.next = a
	l.mu.Unlock()
}

type fakeAddrConn struct {
	net.Conn
	remote *net.TCPAddr
}

func (c *fakeAddrConn) RemoteAddr() net.Addr { return c.remote }

func (l *FakeAddrListener) Accept() (net.Conn, error) {
	c, err := l.Listener.Accept()
	if err != nil {
		return nil, err
	}
	l.mu.Lock()
	a := l.next
	l.mu.Unlock()
	if a == nil {
		return c, nil
	}
	return &fakeAddrConn{Conn: c, remote: a}, nil
}

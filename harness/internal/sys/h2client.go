package sys

import (
	"bytes"
	"crypto/tls"
	"fmt"
	"io"
	"net"
	"time"

	"golang.org/x/net/http2"
	"golang.org/x/net/http2/hpack"
)

// H2Client is a minimal scripted HTTP/2 client built on golang.org/x/net's framer
// and hpack (independent of bfe's in-tree HTTP/2 stack) over std crypto/tls.
type H2Client struct {
	Conn   net.Conn
	Fr     *http2.Framer
	enc    *hpack.Encoder
	encBuf bytes.Buffer
	dec    *hpack.Decoder
	nextID uint32
}

type H2Field struct{ Name, Value string }

type H2Response struct {
	Fields     []H2Field
	Status     string
	Body       []byte
	Trailers   []H2Field
	Reset      bool
	ResetCode  http2.ErrCode
	GoAway     bool
	GoAwayCode http2.ErrCode
	ConnClosed bool
}

// DialTLS connects to addr with ALPN protos.
func DialTLS(addr string, protos []string, minV, maxV uint16) (*tls.Conn, error) {
	d := &net.Dialer{Timeout: 5 * time.Second}
	cfg := &tls.Config{InsecureSkipVerify: true, ServerName: "example.org", NextProtos: protos, MinVersion: minV, MaxVersion: maxV}
	return tls.DialWithDialer(d, "tcp", addr, cfg)
}

func NewH2Client(addr string) (*H2Client, error) {
	c, err := DialTLS(addr, []string{"h2"}, tls.VersionTLS12, tls.VersionTLS12)
	if err != nil {
		return nil, err
	}
	if p := c.ConnectionState().NegotiatedProtocol; p != "h2" {
		c.Close()
		return nil, fmt.Errorf("negotiated %q, want h2", p)
	}
	h := &H2Client{Conn: c, nextID: 1}
	h.Fr = http2.NewFramer(c, c)
	h.enc = hpack.NewEncoder(&h.encBuf)
	h.dec = hpack.NewDecoder(4096, nil)
	if _, err := io.WriteString(c, http2.ClientPreface); err != nil {
		return nil, err
	}
	if err := h.Fr.WriteSettings(); err != nil {
		return nil, err
	}
	return h, nil
}

func (h *H2Client) Close() { h.Conn.Close() }

// Request sends one request (HEADERS [+ DATA]) and waits for the complete response,
// a reset, a GOAWAY or connection close.
func (h *H2Client) Request(fields []H2Field, body []byte, wait time.Duration) (*H2Response, error) {
	id := h.nextID
	h.nextID += 2
	h.encBuf.Reset()
	for _, f := range fields {
		if err := h.enc.WriteField(hpack.HeaderField{Name: f.Name, Value: f.Value}); err != nil {
			return nil, err
		}
	}
	if err := h.Fr.WriteHeaders(http2.HeadersFrameParam{StreamID: id, BlockFragment: h.encBuf.Bytes(), EndStream: len(body) == 0, EndHeaders: true}); err != nil {
		return nil, err
	}
	if len(body) > 0 {
		if err := h.Fr.WriteData(id, true, body); err != nil {
			return nil, err
		}
	}
	return h.ReadResponse(id, wait)
}

func (h *H2Client) ReadResponse(id uint32, wait time.Duration) (*H2Response, error) {
	res := &H2Response{}
	h.Conn.SetReadDeadline(time.Now().Add(wait))
	gotHeaders := false
	for {
		f, err := h.Fr.ReadFrame()
		if err != nil {
			if ne, ok := err.(net.Error); ok && ne.Timeout() {
				return res, fmt.Errorf("timeout waiting for h2 response")
			}
			res.ConnClosed = true
			return res, nil
		}
		switch fr := f.(type) {
		case *http2.SettingsFrame:
			if !fr.IsAck() {
				h.Fr.WriteSettingsAck()
			}
		case *http2.PingFrame:
			if !fr.IsAck() {
				h.Fr.WritePing(true, fr.Data)
			}
		case *http2.GoAwayFrame:
			res.GoAway, res.GoAwayCode = true, fr.ErrCode
			return res, nil
		case *http2.RSTStreamFrame:
			if fr.StreamID == id {
				res.Reset, res.ResetCode = true, fr.ErrCode
				return res, nil
			}
		case *http2.HeadersFrame:
			block := append([]byte(nil), fr.HeaderBlockFragment()...)
			endHeaders := fr.HeadersEnded()
			for !endHeaders {
				nf, err := h.Fr.ReadFrame()
				if err != nil {
					res.ConnClosed = true
					return res, nil
				}
				cf, ok := nf.(*http2.ContinuationFrame)
				if !ok {
					return res, fmt.Errorf("expected CONTINUATION, got %T", nf)
				}
				block = append(block, cf.HeaderBlockFragment()...)
				endHeaders = cf.HeadersEnded()
			}
			hf, err := h.dec.DecodeFull(block)
			if err != nil {
				return res, fmt.Errorf("hpack decode of response: %v", err)
			}
			if fr.StreamID != id {
				continue
			}
			for _, x := range hf {
				if !gotHeaders {
					if x.Name == ":status" {
						res.Status = x.Value
					}
					res.Fields = append(res.Fields, H2Field{x.Name, x.Value})
				} else {
					res.Trailers = append(res.Trailers, H2Field{x.Name, x.Value})
				}
			}
			gotHeaders = true
			if fr.StreamEnded() {
				return res, nil
			}
		case *http2.DataFrame:
			if fr.StreamID == id {
				res.Body = append(res.Body, fr.Data()...)
				if n := len(fr.Data()); n > 0 {
					h.Fr.WriteWindowUpdate(0, uint32(n))
					if !fr.StreamEnded() {
						h.Fr.WriteWindowUpdate(id, uint32(n))
					}
				}
				if fr.StreamEnded() {
					return res, nil
				}
			}
		}
	}
}

// SendAborted writes, in ONE TCP segment, a request whose body is complete (HEADERS, then a
// single DATA frame with END_STREAM) immediately followed by RST_STREAM(CANCEL) for that
// stream (rst) - or by nothing, so that the caller can drop the connection right away.
// Frames of other kinds are not read.
func (h *H2Client) SendAborted(fields []H2Field, body []byte, rst bool) error {
	id := h.nextID
	h.nextID += 2
	h.encBuf.Reset()
	for _, f := range fields {
		if err := h.enc.WriteField(hpack.HeaderField{Name: f.Name, Value: f.Value}); err != nil {
			return err
		}
	}
	var out bytes.Buffer
	fr := http2.NewFramer(&out, nil)
	if err := fr.WriteHeaders(http2.HeadersFrameParam{StreamID: id, BlockFragment: h.encBuf.Bytes(), EndStream: false, EndHeaders: true}); err != nil {
		return err
	}
	if err := fr.WriteData(id, true, body); err != nil {
		return err
	}
	if rst {
		if err := fr.WriteRSTStream(id, http2.ErrCodeCancel); err != nil {
			return err
		}
	}
	_, err := h.Conn.Write(out.Bytes())
	return err
}

// StartRequest writes HEADERS without END_STREAM and returns the stream id; the caller
// continues with h.Fr.WriteData(id, ...) and h.ReadResponse(id, ...).
func (h *H2Client) StartRequest(fields []H2Field) (uint32, error) {
	id := h.nextID
	h.nextID += 2
	h.encBuf.Reset()
	for _, f := range fields {
		if err := h.enc.WriteField(hpack.HeaderField{Name: f.Name, Value: f.Value}); err != nil {
			return 0, err
		}
	}
	err := h.Fr.WriteHeaders(http2.HeadersFrameParam{StreamID: id, BlockFragment: h.encBuf.Bytes(), EndStream: false, EndHeaders: true})
	return id, err
}

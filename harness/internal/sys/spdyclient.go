package sys

import (
	"crypto/tls"
	"fmt"
	"net"
	"time"

	"github.com/bfenetworks/bfe/bfe_http"
	"github.com/bfenetworks/bfe/bfe_spdy"
)

// SpdyClient is a minimal SPDY/3.1 client. There is no SPDY implementation other
// than bfe's own framer available offline, so the client side uses bfe_spdy.Framer
// as a wire codec only (C39 checks that codec separately).
type SpdyClient struct {
	Conn   net.Conn
	Fr     *bfe_spdy.Framer
	nextID uint32
}

type SpdyResponse struct {
	Header     bfe_http.Header
	Body       []byte
	Reset      bool
	ResetCode  uint32
	GoAway     bool
	ConnClosed bool
}

func NewSpdyClient(addr string) (*SpdyClient, error) {
	c, err := DialTLS(addr, []string{"spdy/3.1"}, tls.VersionTLS12, tls.VersionTLS12)
	if err != nil {
		return nil, err
	}
	if p := c.ConnectionState().NegotiatedProtocol; p != "spdy/3.1" {
		c.Close()
		return nil, fmt.Errorf("negotiated %q, want spdy/3.1", p)
	}
	fr, err := bfe_spdy.NewFramer(c, c)
	if err != nil {
		return nil, err
	}
	return &SpdyClient{Conn: c, Fr: fr, nextID: 1}, nil
}

func (s *SpdyClient) Close() { s.Conn.Close() }

// Request sends SYN_STREAM (+DATA) and collects the reply.
func (s *SpdyClient) Request(h bfe_http.Header, body []byte, wait time.Duration) (*SpdyResponse, error) {
	id := s.nextID
	s.nextID += 2
	syn := &bfe_spdy.SynStreamFrame{StreamId: bfe_spdy.StreamId(id), Headers: h}
	if len(body) == 0 {
		syn.CFHeader.Flags = bfe_spdy.ControlFlagFin
	}
	if err := s.Fr.WriteFrame(syn); err != nil {
		return nil, err
	}
	if len(body) > 0 {
		if err := s.Fr.WriteFrame(&bfe_spdy.DataFrame{StreamId: bfe_spdy.StreamId(id), Flags: bfe_spdy.DataFlagFin, Data: body}); err != nil {
			return nil, err
		}
	}
	res := &SpdyResponse{}
	s.Conn.SetReadDeadline(time.Now().Add(wait))
	for {
		f, err := s.Fr.ReadFrame()
		if err != nil {
			if ne, ok := err.(net.Error); ok && ne.Timeout() {
				return res, fmt.Errorf("timeout waiting for spdy response")
			}
			res.ConnClosed = true
			return res, nil
		}
		switch fr := f.(type) {
		case *bfe_spdy.SynReplyFrame:
			if uint32(fr.StreamId) == id {
				res.Header = fr.Headers
				if fr.CFHeader.Flags&bfe_spdy.ControlFlagFin != 0 {
					return res, nil
				}
			}
		case *bfe_spdy.DataFrame:
			if uint32(fr.StreamId) == id {
				res.Body = append(res.Body, fr.Data...)
				if fr.Flags&bfe_spdy.DataFlagFin != 0 {
					return res, nil
				}
			}
		case *bfe_spdy.RstStreamFrame:
			if uint32(fr.StreamId) == id {
				res.Reset, res.ResetCode = true, uint32(fr.Status)
				return res, nil
			}
		case *bfe_spdy.GoAwayFrame:
			res.GoAway = true
			return res, nil
		case *bfe_spdy.PingFrame:
			s.Fr.WriteFrame(fr)
		}
	}
}

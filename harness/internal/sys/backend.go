package sys

import (
	"net"
	"sync"
	"time"

	"verif/harness/internal/ref"
)

// Backend is a harness-owned raw TCP backend. It records every byte it receives
// per connection and lets a handler decide what to answer.
type Backend struct {
	Name string
	Ln   net.Listener
	Port int

	mu      sync.Mutex
	conns   []*BackendConn
	Handler func(bc *BackendConn) // runs per accepted connection
	Refuse  bool                  // accept-and-close immediately
	closed  bool
}

type BackendConn struct {
	B     *Backend
	Conn  net.Conn
	Index int
	mu    sync.Mutex
	in    []byte
	eof   bool
}

func NewBackend(name string, h func(bc *BackendConn)) (*Backend, error) {
	ln, err := net.Listen("tcp", "127.0.0.1:0")
	if err != nil {
		return nil, err
	}
	b := &Backend{Name: name, Ln: ln, Port: ln.Addr().(*net.TCPAddr).Port, Handler: h}
	go b.loop()
	return b, nil
}

func (b *Backend) loop() {
	for {
		c, err := b.Ln.Accept()
		if err != nil {
			return
		}
		b.mu.Lock()
		bc := &BackendConn{B: b, Conn: c, Index: len(b.conns)}
		b.conns = append(b.conns, bc)
		h := b.Handler
		b.mu.Unlock()
		go func() {
			defer c.Close()
			if h != nil {
				h(bc)
			}
		}()
	}
}

func (b *Backend) Close() {
	b.mu.Lock()
	b.closed = true
	cs := append([]*BackendConn(nil), b.conns...)
	b.mu.Unlock()
	b.Ln.Close()
	for _, c := range cs {
		c.Conn.Close()
	}
}

// Conns returns a snapshot of the accepted connections.
func (b *Backend) Conns() []*BackendConn {
	b.mu.Lock()
	defer b.mu.Unlock()
	return append([]*BackendConn(nil), b.conns...)
}

// Reset forgets recorded connections (they stay open).
func (b *Backend) Reset() {
	b.mu.Lock()
	b.conns = nil
	b.mu.Unlock()
}

// Bytes returns everything received so far on this connection.
func (bc *BackendConn) Bytes() []byte {
	bc.mu.Lock()
	defer bc.mu.Unlock()
	return append([]byte(nil), bc.in...)
}

func (bc *BackendConn) EOF() bool {
	bc.mu.Lock()
	defer bc.mu.Unlock()
	return bc.eof
}

// Fill reads once from the socket into the log; returns false on EOF/error/timeout.
func (bc *BackendConn) Fill(d time.Duration) bool { return bc.fill(d) }

// fill reads once from the socket into the log; returns false on EOF/error/timeout.
func (bc *BackendConn) fill(d time.Duration) bool {
	buf := make([]byte, 64*1024)
	bc.Conn.SetReadDeadline(time.Now().Add(d))
	n, err := bc.Conn.Read(buf)
	bc.mu.Lock()
	bc.in = append(bc.in, buf[:n]...)
	if err != nil {
		if ne, ok := err.(net.Error); !ok || !ne.Timeout() {
			bc.eof = true
		}
	}
	bc.mu.Unlock()
	return err == nil
}

// ReadRequest reads from the socket until the reference parser can delimit one
// request starting at offset off of the connection log. It returns the parsed
// request (nil if the bytes are malformed or the peer stopped sending) and the
// parse error. Bytes are logged regardless.
func (bc *BackendConn) ReadRequest(off int, d time.Duration) (*ref.Message, error) {
	deadline := time.Now().Add(d)
	for {
		b := bc.Bytes()
		if len(b) > off {
			m, err := ref.ParseRequest(b[off:])
			if err == nil {
				return m, nil
			}
			if err != ref.ErrIncomplete {
				return nil, err
			}
		}
		left := time.Until(deadline)
		if left <= 0 || bc.EOF() {
			return nil, ref.ErrIncomplete
		}
		bc.fill(left)
	}
}

// Drain keeps reading until EOF or d elapsed without data.
func (bc *BackendConn) Drain(d time.Duration) {
	for bc.fill(d) {
	}
}

//go:build verif

package bfe_http2

// Thin exports for the /verif harness, area h2b (C35/C36/C37). Add-only, no logic:
// accessors for serve-loop-owned fields and forwards to unexported functions.

// VerifH2bConn / VerifH2bStream name the unexported connection and stream types.
type VerifH2bConn = serverConn
type VerifH2bStream = stream

// VerifH2bHookConns installs fn as the package's own test hook testHookGetServerConn
// (called by ServeConn right before serve()) and arms the package's own testHookCh so
// that code can be run on the serve goroutine (the only goroutine allowed to touch the
// fields read below). This is what bfe_http2's own server_test.go does.
func VerifH2bHookConns(fn func(*VerifH2bConn)) {
	testHookGetServerConn = func(sc *serverConn) {
		sc.testHookCh = make(chan func(int))
		fn(sc)
	}
}

// VerifH2bOnServeLoop runs fn on sc's serve goroutine. It returns false when the serve
// loop has already ended.
func VerifH2bOnServeLoop(sc *VerifH2bConn, fn func()) bool {
	done := make(chan struct{})
	select {
	case sc.testHookCh <- func(int) { fn(); close(done) }:
		<-done
		return true
	case <-sc.doneServing:
		return false
	}
}

// VerifH2bDone is closed when sc's serve loop has ended.
func VerifH2bDone(sc *VerifH2bConn) <-chan struct{} { return sc.doneServing }

// The following accessors must only be called from inside VerifH2bOnServeLoop.

// VerifH2bQueued returns the control-frame counter and the real length of the
// non-stream write queue.
func VerifH2bQueued(sc *VerifH2bConn) (counter int, zeroQueueLen int) {
	return sc.queuedControlFrames, len(sc.writeSched.zero.s)
}

// VerifH2bMaxQueued returns the configured control-frame limit.
func VerifH2bMaxQueued(sc *VerifH2bConn) int { return sc.srv.maxQueuedControlFrames() }

// VerifH2bStreams returns the connection's stream map (open streams only).
func VerifH2bStreams(sc *VerifH2bConn) map[uint32]*VerifH2bStream { return sc.streams }

func VerifH2bStreamParent(st *VerifH2bStream) *VerifH2bStream { return st.parent }
func VerifH2bStreamID(st *VerifH2bStream) uint32              { return st.id }
func VerifH2bStreamWeight(st *VerifH2bStream) uint8           { return st.weight }

// VerifH2bNewStream builds a stream the way bfe_http2's own priority_test.go does.
func VerifH2bNewStream(id uint32) *VerifH2bStream { return &stream{id: id, state: stateOpen} }

// VerifH2bAdjustPriority forwards to adjustStreamPriority.
func VerifH2bAdjustPriority(streams map[uint32]*VerifH2bStream, id uint32, p PriorityParam) {
	adjustStreamPriority(streams, id, p)
}

//go:build verif

package hpack

// Thin accessors for the /verif harness (add-only, no logic).

// VerifDynTab returns the decoder's dynamic table: entries (oldest first),
// the size counter, the current maximum and the allowed maximum.
func (d *Decoder) VerifDynTab() (ents []HeaderField, size, maxSize, allowed uint32) {
	return d.dynTab.ents, d.dynTab.size, d.dynTab.maxSize, d.dynTab.allowedMaxSize
}

// VerifDynTab returns the encoder's dynamic table: entries (oldest first),
// the size counter and the current maximum.
func (e *Encoder) VerifDynTab() (ents []HeaderField, size, maxSize uint32) {
	return e.dynTab.ents, e.dynTab.size, e.dynTab.maxSize
}

//go:build verif

package bfe_tls

// Thin exports for the /verif harness (add-only, no logic).

func VerifRemovePadding(payload []byte) ([]byte, byte) { return removePadding(payload) }

//go:build verif

package bfe_tls

// Thin exports for the /verif harness (add-only, no logic).

func VerifRemovePadding(payload []byte) ([]byte, byte) { return removePadding(payload) }

// VerifCBCDecrypt feeds one protected record to the record layer's read half
// (halfConn.decrypt) keyed for the CBC suite suiteID at the given protocol version, as
// the handshake would have set it up. It returns the verdict and the plaintext.
func VerifCBCDecrypt(version, suiteID uint16, key, iv, macKey []byte, seq [8]byte, record []byte) (ok bool, plaintext []byte) {
	for _, s := range cipherSuites {
		if s.id != suiteID {
			continue
		}
		hc := &halfConn{version: version, cipher: s.cipher(key, iv, true), mac: s.mac(version, macKey), seq: seq}
		b := &block{data: append([]byte(nil), record...)}
		ok, prefixLen, _ := hc.decrypt(b)
		if !ok {
			return false, nil
		}
		return true, b.data[prefixLen:]
	}
	panic("verif: unknown cipher suite")
}

//go:build verif

package bfe_tls

// Thin exports for the /verif harness package tlsx (add-only, no logic):
// a plain exported mirror of the unexported handshake message structs and of
// sessionState, field-by-field copies in both directions, and forwards to
// marshal / unmarshal / equal / encryptTicket / decryptTicket.

// VerifHS mirrors the fields of every handshake message type (and of
// sessionState); Kind selects the type, unused fields stay zero.
type VerifHS struct {
	Kind string

	// clientHello / serverHello
	Vers                uint16
	Random              []byte
	SessionId           []byte
	CipherSuites        []uint16
	CompressionMethods  []uint8
	NextProtoNeg        bool
	ServerName          string
	OcspStapling        bool
	SupportedCurves     []uint16
	SupportedPoints     []uint8
	TicketSupported     bool
	SessionTicket       []byte
	SigAndHashes        [][2]uint8
	SecureRenegotiation bool
	AlpnProtocols       []string
	Padding             bool
	ExtensionIds        []uint16
	CipherSuite         uint16
	CompressionMethod   uint8
	NextProtos          []string
	AlpnProtocol        string

	Certificates [][]byte // certificate, sessionState
	Key          []byte   // serverKeyExchange
	StatusType   uint8    // certificateStatus
	Response     []byte   // certificateStatus
	Ciphertext   []byte   // clientKeyExchange
	VerifyData   []byte   // finished
	Proto        string   // nextProto

	HasSignatureAndHash    bool // certificateRequest, certificateVerify
	CertificateTypes       []byte
	CertificateAuthorities [][]byte
	SigAndHash             [2]uint8 // certificateVerify
	Signature              []byte
	Ticket                 []byte // newSessionTicket
	MasterSecret           []byte // sessionState
}

var VerifKinds = []string{"clientHello", "serverHello", "certificate", "serverKeyExchange",
	"certificateStatus", "serverHelloDone", "clientKeyExchange", "finished", "nextProto",
	"certificateRequest", "certificateVerify", "newSessionTicket", "sessionState"}

func verifSH(in [][2]uint8) []signatureAndHash {
	if in == nil {
		return nil
	}
	out := make([]signatureAndHash, len(in))
	for i, v := range in {
		out[i] = signatureAndHash{hash: v[0], signature: v[1]}
	}
	return out
}

func verifSHBack(in []signatureAndHash) [][2]uint8 {
	if in == nil {
		return nil
	}
	out := make([][2]uint8, len(in))
	for i, v := range in {
		out[i] = [2]uint8{v.hash, v.signature}
	}
	return out
}

func verifNew(kind string, hasSigAndHash bool) handshakeMessage {
	switch kind {
	case "clientHello":
		return new(clientHelloMsg)
	case "serverHello":
		return new(serverHelloMsg)
	case "certificate":
		return new(certificateMsg)
	case "serverKeyExchange":
		return new(serverKeyExchangeMsg)
	case "certificateStatus":
		return new(certificateStatusMsg)
	case "serverHelloDone":
		return new(serverHelloDoneMsg)
	case "clientKeyExchange":
		return new(clientKeyExchangeMsg)
	case "finished":
		return new(finishedMsg)
	case "nextProto":
		return new(nextProtoMsg)
	case "certificateRequest":
		return &certificateRequestMsg{hasSignatureAndHash: hasSigAndHash}
	case "certificateVerify":
		return &certificateVerifyMsg{hasSignatureAndHash: hasSigAndHash}
	case "newSessionTicket":
		return new(newSessionTicketMsg)
	case "sessionState":
		return new(sessionState)
	}
	return nil
}

func verifToMsg(v *VerifHS) handshakeMessage {
	switch v.Kind {
	case "clientHello":
		curves := make([]CurveID, len(v.SupportedCurves))
		for i, c := range v.SupportedCurves {
			curves[i] = CurveID(c)
		}
		if v.SupportedCurves == nil {
			curves = nil
		}
		return &clientHelloMsg{vers: v.Vers, random: v.Random, sessionId: v.SessionId, cipherSuites: v.CipherSuites,
			compressionMethods: v.CompressionMethods, nextProtoNeg: v.NextProtoNeg, serverName: v.ServerName,
			ocspStapling: v.OcspStapling, supportedCurves: curves, supportedPoints: v.SupportedPoints,
			ticketSupported: v.TicketSupported, sessionTicket: v.SessionTicket, signatureAndHashes: verifSH(v.SigAndHashes),
			secureRenegotiation: v.SecureRenegotiation, alpnProtocols: v.AlpnProtocols}
	case "serverHello":
		return &serverHelloMsg{vers: v.Vers, random: v.Random, sessionId: v.SessionId, cipherSuite: v.CipherSuite,
			compressionMethod: v.CompressionMethod, nextProtoNeg: v.NextProtoNeg, nextProtos: v.NextProtos,
			ocspStapling: v.OcspStapling, ticketSupported: v.TicketSupported, secureRenegotiation: v.SecureRenegotiation,
			alpnProtocol: v.AlpnProtocol}
	case "certificate":
		return &certificateMsg{certificates: v.Certificates}
	case "serverKeyExchange":
		return &serverKeyExchangeMsg{key: v.Key}
	case "certificateStatus":
		return &certificateStatusMsg{statusType: v.StatusType, response: v.Response}
	case "serverHelloDone":
		return &serverHelloDoneMsg{}
	case "clientKeyExchange":
		return &clientKeyExchangeMsg{ciphertext: v.Ciphertext}
	case "finished":
		return &finishedMsg{verifyData: v.VerifyData}
	case "nextProto":
		return &nextProtoMsg{proto: v.Proto}
	case "certificateRequest":
		return &certificateRequestMsg{hasSignatureAndHash: v.HasSignatureAndHash, certificateTypes: v.CertificateTypes,
			signatureAndHashes: verifSH(v.SigAndHashes), certificateAuthorities: v.CertificateAuthorities}
	case "certificateVerify":
		return &certificateVerifyMsg{hasSignatureAndHash: v.HasSignatureAndHash,
			signatureAndHash: signatureAndHash{hash: v.SigAndHash[0], signature: v.SigAndHash[1]}, signature: v.Signature}
	case "newSessionTicket":
		return &newSessionTicketMsg{ticket: v.Ticket}
	case "sessionState":
		return &sessionState{vers: v.Vers, cipherSuite: v.CipherSuite, masterSecret: v.MasterSecret, certificates: v.Certificates}
	}
	return nil
}

func verifFromMsg(kind string, msg handshakeMessage) *VerifHS {
	v := &VerifHS{Kind: kind}
	switch m := msg.(type) {
	case *clientHelloMsg:
		v.Vers, v.Random, v.SessionId, v.CipherSuites, v.CompressionMethods = m.vers, m.random, m.sessionId, m.cipherSuites, m.compressionMethods
		v.NextProtoNeg, v.ServerName, v.OcspStapling, v.SupportedPoints = m.nextProtoNeg, m.serverName, m.ocspStapling, m.supportedPoints
		if m.supportedCurves != nil {
			v.SupportedCurves = make([]uint16, len(m.supportedCurves))
			for i, c := range m.supportedCurves {
				v.SupportedCurves[i] = uint16(c)
			}
		}
		v.TicketSupported, v.SessionTicket, v.SigAndHashes = m.ticketSupported, m.sessionTicket, verifSHBack(m.signatureAndHashes)
		v.SecureRenegotiation, v.AlpnProtocols, v.Padding, v.ExtensionIds = m.secureRenegotiation, m.alpnProtocols, m.padding, m.extensionIds
	case *serverHelloMsg:
		v.Vers, v.Random, v.SessionId, v.CipherSuite, v.CompressionMethod = m.vers, m.random, m.sessionId, m.cipherSuite, m.compressionMethod
		v.NextProtoNeg, v.NextProtos, v.OcspStapling, v.TicketSupported = m.nextProtoNeg, m.nextProtos, m.ocspStapling, m.ticketSupported
		v.SecureRenegotiation, v.AlpnProtocol = m.secureRenegotiation, m.alpnProtocol
	case *certificateMsg:
		v.Certificates = m.certificates
	case *serverKeyExchangeMsg:
		v.Key = m.key
	case *certificateStatusMsg:
		v.StatusType, v.Response = m.statusType, m.response
	case *serverHelloDoneMsg:
	case *clientKeyExchangeMsg:
		v.Ciphertext = m.ciphertext
	case *finishedMsg:
		v.VerifyData = m.verifyData
	case *nextProtoMsg:
		v.Proto = m.proto
	case *certificateRequestMsg:
		v.HasSignatureAndHash, v.CertificateTypes, v.SigAndHashes, v.CertificateAuthorities = m.hasSignatureAndHash, m.certificateTypes, verifSHBack(m.signatureAndHashes), m.certificateAuthorities
	case *certificateVerifyMsg:
		v.HasSignatureAndHash, v.SigAndHash, v.Signature = m.hasSignatureAndHash, [2]uint8{m.signatureAndHash.hash, m.signatureAndHash.signature}, m.signature
	case *newSessionTicketMsg:
		v.Ticket = m.ticket
	case *sessionState:
		v.Vers, v.CipherSuite, v.MasterSecret, v.Certificates = m.vers, m.cipherSuite, m.masterSecret, m.certificates
	}
	return v
}

// VerifMarshal forwards to <msg>.marshal().
func VerifMarshal(v *VerifHS) []byte { return verifToMsg(v).marshal() }

// VerifUnmarshal forwards to <msg>.unmarshal(data) on a fresh message.
func VerifUnmarshal(kind string, hasSigAndHash bool, data []byte) (*VerifHS, bool) {
	m := verifNew(kind, hasSigAndHash)
	ok := m.unmarshal(data)
	return verifFromMsg(kind, m), ok
}

// VerifRoundTrip marshals v, unmarshals the bytes into a fresh message and
// reports unmarshal's result and bfe's own equal() verdict.
func VerifRoundTrip(v *VerifHS) (wire []byte, out *VerifHS, ok bool, bfeEqual bool) {
	m := verifToMsg(v)
	wire = m.marshal()
	m2 := verifNew(v.Kind, v.HasSignatureAndHash)
	ok = m2.unmarshal(append([]byte(nil), wire...))
	bfeEqual = m.(interface{ equal(interface{}) bool }).equal(m2)
	return wire, verifFromMsg(v.Kind, m2), ok, bfeEqual
}

// VerifDecryptTicket forwards to (*Conn).decryptTicket under cfg.
func VerifDecryptTicket(cfg *Config, encrypted []byte) (*VerifHS, bool) {
	c := &Conn{config: cfg}
	st, ok := c.decryptTicket(encrypted)
	if st == nil {
		return nil, ok
	}
	return verifFromMsg("sessionState", st), ok
}

// VerifEncryptTicket forwards to (*Conn).encryptTicket under cfg.
func VerifEncryptTicket(cfg *Config, v *VerifHS) ([]byte, error) {
	c := &Conn{config: cfg}
	return c.encryptTicket(verifToMsg(v).(*sessionState))
}

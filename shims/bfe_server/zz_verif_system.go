//go:build verif

package bfe_server

import "github.com/bfenetworks/bfe/bfe_balance"

// VerifBalTable returns the balance table the reverse proxy selects backends from
// (add-only accessor for the /verif harness, no logic).
func (s *BfeServer) VerifBalTable() *bfe_balance.BalTable { return s.balTable }

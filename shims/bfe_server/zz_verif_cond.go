//go:build verif

package bfe_server

import "github.com/bfenetworks/bfe/bfe_basic"

// VerifCondSetClientAddr forwards to the unexported setClientAddr (the function
// reverseproxy.go uses to fill Request.ClientAddr).
func VerifCondSetClientAddr(req *bfe_basic.Request) { setClientAddr(req) }

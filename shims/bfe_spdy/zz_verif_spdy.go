//go:build verif

package bfe_spdy

import (
	"net"

	http "github.com/bfenetworks/bfe/bfe_http"
)

// Thin exports for the /verif harness (add-only, no logic).

// VerifServerConn wraps the unexported serverConn.
type VerifServerConn struct{ sc *serverConn }

// VerifHandleConn forwards to (*Server).handleConn (as NewProtoHandler does for a *tls.Conn).
func VerifHandleConn(srv *Server, hs *http.Server, c net.Conn, h http.Handler) *VerifServerConn {
	sc := srv.handleConn(hs, c, h)
	if sc == nil {
		return nil
	}
	return &VerifServerConn{sc: sc}
}

// Serve forwards to serverConn.serve.
func (v *VerifServerConn) Serve() { v.sc.serve() }

// VerifHeaderDictionary returns the SPDY/3 zlib dictionary constant.
func VerifHeaderDictionary() []byte { return []byte(headerDictionary) }

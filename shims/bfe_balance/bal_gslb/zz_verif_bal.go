//go:build verif

package bal_gslb

import (
	"github.com/bfenetworks/bfe/bfe_balance/bal_slb"
)

// Thin accessor for the /verif harness (add-only, no logic).

// VerifSubClusterAt returns name and backend list of the i-th sub-cluster
// (0 <= i < bal.SubClusterNum()).
func (bal *BalanceGslb) VerifSubClusterAt(i int) (string, *bal_slb.BalanceRR) {
	return bal.subClusters[i].Name, bal.subClusters[i].backends
}

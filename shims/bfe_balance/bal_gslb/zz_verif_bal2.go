//go:build verif

package bal_gslb

import (
	"github.com/bfenetworks/bfe/bfe_balance/bal_slb"
)

// Thin read-only accessor for the /verif harness package bal2 (add-only, no logic).

// VerifBal2Sub describes one sub-cluster of a BalanceGslb.
type VerifBal2Sub struct {
	Name   string
	Weight int
	RR     *bal_slb.BalanceRR
}

// VerifBal2SubClusters returns a snapshot of the sub-cluster list, taken under
// the balancer's own mutex.
func (bal *BalanceGslb) VerifBal2SubClusters() []VerifBal2Sub {
	bal.lock.Lock()
	defer bal.lock.Unlock()
	out := make([]VerifBal2Sub, 0, len(bal.subClusters))
	for _, s := range bal.subClusters {
		out = append(out, VerifBal2Sub{Name: s.Name, Weight: s.weight, RR: s.backends})
	}
	return out
}

//go:build verif

package bal_slb

import (
	"github.com/bfenetworks/bfe/bfe_balance/backend"
)

// Thin accessors for the /verif harness (add-only, no logic).
// The harness needs the *BfeBackend handles (which production code obtains from
// Balance results / the health checker) to call the exported SetAvail /
// IncConnNum / DecConnNum on chosen members before the first selection.

// VerifBackendAt returns the i-th backend handle (0 <= i < brr.Len()).
func (brr *BalanceRR) VerifBackendAt(i int) *backend.BfeBackend { return brr.backends[i].backend }

// VerifCreditAt returns (weight, current) of the i-th entry; used only in witnesses.
func (brr *BalanceRR) VerifCreditAt(i int) (int, int) {
	return brr.backends[i].weight, brr.backends[i].current
}

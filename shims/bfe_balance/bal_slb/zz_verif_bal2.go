//go:build verif

package bal_slb

import (
	"github.com/bfenetworks/bfe/bfe_balance/backend"
)

// Thin read-only accessors for the /verif harness package bal2 (add-only, no logic).
// Production code obtains the *BfeBackend handles from Balance results; the
// harness needs all of them (also the never-selected ones) to flip availability
// and to observe release after a reload.

// VerifBal2Backends returns a snapshot of the backend handles, taken under the
// balancer's own mutex (safe to call concurrently with Balance/Update).
func (brr *BalanceRR) VerifBal2Backends() []*backend.BfeBackend {
	brr.Lock()
	defer brr.Unlock()
	out := make([]*backend.BfeBackend, 0, len(brr.backends))
	for _, b := range brr.backends {
		out = append(out, b.backend)
	}
	return out
}

// VerifBal2Weights returns a snapshot of (weight, current) per entry; witnesses only.
func (brr *BalanceRR) VerifBal2Weights() [][2]int {
	brr.Lock()
	defer brr.Unlock()
	out := make([][2]int, 0, len(brr.backends))
	for _, b := range brr.backends {
		out = append(out, [2]int{b.weight, b.current})
	}
	return out
}

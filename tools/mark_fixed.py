#!/usr/bin/env python3
# usage: tools/mark_fixed.py <commit> <Cxx> <key> [<key>...]   -- moves open findings to the fixed list
import json, glob, sys
commit, prop, keys = sys.argv[1], sys.argv[2], sys.argv[3:]
main = json.load(open('/verif/known_findings.json'))
for frag in glob.glob('/verif/known_findings.d/*.json') + ['/verif/known_findings.json']:
    d = json.load(open(frag))
    keep = []
    for f in d.get('findings', []):
        if f['property'] == prop and f['key'] in keys:
            main['fixed'].append("fixed: property=%s %s [%s] %s" % (prop, commit, f['key'], f['what']))
            print('fixed', prop, f['key'])
        else:
            keep.append(f)
    if frag == '/verif/known_findings.json':
        main['findings'] = keep
    else:
        d['findings'] = keep
        json.dump(d, open(frag, 'w'), indent=1)
json.dump(main, open('/verif/known_findings.json', 'w'), indent=1)

#!/bin/bash
# usage: tools/seedbatch.sh C03 C12 ...  -- runs seedtest for patch1/patch2 of each id, 4 at a time
cd /verif
for id in "$@"; do for p in patch1 patch2; do
  f=/tmp/${SEEDPFX:-seed}-$id-out/$p.diff; [ -f "$f" ] || continue
  echo "tools/seedtest.sh $id $f > /tmp/st${SEEDTAG:-}-$id-$p.log 2>&1"
done; done | xargs -P 4 -I{} bash -c "{}"

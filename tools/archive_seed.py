#!/usr/bin/env python3
# usage: tools/archive_seed.py <Cxx> <n> <status: caught|missed|rejected> "<needs>" "<ran/result>"
import sys, os, shutil, json, glob
pid, n, status, needs, ran = sys.argv[1:6]
import os as _os
pfx = _os.environ.get("SEEDPFX", "seed")
tag = _os.environ.get("SEEDROUND", "")
src = f"/tmp/{pfx}-{pid}-out"
dst = f"/verif/seeded/{pid}-{tag}{n}"
os.makedirs(dst, exist_ok=True)
shutil.copyfile(f"{src}/patch{n}.diff", f"{dst}/patch.diff")
for f in glob.glob(f"{src}/demo{n}*"):
    shutil.copyfile(f, os.path.join(dst, os.path.basename(f)))
if os.path.exists(f"{src}/README.md"):
    shutil.copyfile(f"{src}/README.md", f"{dst}/README.seeder.md")
json.dump({"property": pid, "patch": "patch.diff", "needs_to_manifest": needs, "status": status, "what_i_ran": ran,
           "base_commit": os.popen("git -C /repo rev-parse --short HEAD").read().strip()},
          open(f"{dst}/meta.json", "w"), indent=1)
print("archived", dst, status)

#!/bin/bash
# usage: tools/seedtest.sh <Cxx> <patch.diff> [extra check ids...]
# Applies a seeded change to a scratch worktree of /repo HEAD, runs the quick check(s)
# against it (VERIF_REPO), prints the verdict, and removes the worktree.
set -u
id=$1; patch=$(readlink -f "$2"); shift 2
name="st-$id-$$"
wt=/tmp/$name
git -C /repo worktree add --detach "$wt" HEAD -q || exit 2
if ! git -C "$wt" apply "$patch"; then echo "PATCH DOES NOT APPLY"; git -C /repo worktree remove --force "$wt"; exit 2; fi
( cd "$wt" && GOFLAGS=-mod=mod GOPROXY=off GOSUMDB=off GOTOOLCHAIN=local go build ./... ) || { echo "MUTANT DOES NOT BUILD"; git -C /repo worktree remove --force "$wt"; exit 2; }
cd /verif
for c in $id "$@"; do
  out=$(VERIF_REPO=$wt VERIF_SEED=${VERIF_SEED:-1} ./run check $c 2>&1); rc=$?
  echo "== $c rc=$rc $(echo "$out" | grep -E '^(OK|VIOLATION|KNOWN)' | head -3 | tr '\n' ' ')"
  if [ $rc -eq 1 ]; then echo "$out" | grep -E "VIOLATION-CANDIDATE" | head -2 | cut -c1-400; fi
  if [ $rc -eq 2 ]; then echo "$out" | tail -15; fi
done
git -C /repo worktree remove --force "$wt"; rm -rf /verif/.build/alt-$name

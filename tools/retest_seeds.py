#!/usr/bin/env python3
# Re-runs every archived seeded change against the current checks (quick tier, VERIF_SEED=1) and
# records the outcome in its meta.json ("retest": {...}); status is updated to caught/missed unless the
# change was rejected or the patch no longer applies to /repo HEAD (then the earlier status is kept).
# usage: tools/retest_seeds.py [-j N] [name-prefix ...]
import sys, os, re, json, glob, subprocess, concurrent.futures as cf
args = sys.argv[1:]
jobs = 4
if args[:1] == ['-j']:
    jobs = int(args[1]); args = args[2:]
head = os.popen("git -C /repo rev-parse --short HEAD").read().strip()
dirs = [d for d in sorted(glob.glob('/verif/seeded/*')) if os.path.exists(d + '/patch.diff') and (not args or any(os.path.basename(d).startswith(a) for a in args))]
def one(d):
    m = json.load(open(d + '/meta.json'))
    pid = m['property']
    if m.get('status') == 'rejected':
        return d, 'rejected (kept)'
    p = subprocess.run(['tools/seedtest.sh', pid, d + '/patch.diff'], cwd='/verif', stdout=subprocess.PIPE, stderr=subprocess.STDOUT, text=True)
    out = p.stdout
    if 'PATCH DOES NOT APPLY' in out:
        m['retest'] = {'repo_head': head, 'result': 'patch no longer applies to /repo HEAD (later fix commits touched the same lines); earlier verdict kept'}
        res = 'n/a'
    elif 'MUTANT DOES NOT BUILD' in out:
        m['retest'] = {'repo_head': head, 'result': 'patched tree does not build at /repo HEAD; earlier verdict kept'}
        res = 'n/a'
    else:
        line = next((l for l in out.splitlines() if l.startswith('== ' + pid)), '')
        key = re.search(r"key=([^ ]+?):? ", out)
        caught = 'rc=1' in line
        m['retest'] = {'repo_head': head, 'result': line[:160] + ((' key=' + key.group(1)) if key and caught else '')}
        if 'rc=2' in line:
            res = 'infra'
        else:
            new = 'caught' if caught else 'missed'
            if m.get('status') != new:
                m.setdefault('history', []).append({'status': m.get('status'), 'what_i_ran': m.get('what_i_ran')})
                m['status'] = new
            if caught and key and not m.get('caught_by'):
                m['caught_by'] = '%s quick, key %s' % (pid, key.group(1))
            res = new
    json.dump(m, open(d + '/meta.json', 'w'), indent=1)
    return d, res
with cf.ThreadPoolExecutor(jobs) as ex:
    for d, res in ex.map(one, dirs):
        print(os.path.basename(d), res, flush=True)

#!/usr/bin/env python3
# Bulk-archives round-2 seeds: /tmp/seed2-Cxx-out/patchN.diff + /tmp/st2-Cxx-patchN.log -> /verif/seeded/Cxx-r2-N/
# usage: tools/archive_round2.py [Cxx ...]   (default: every seed with a log)
import sys, os, re, glob, json, shutil
R = os.environ.get("ROUND", "2")  # ROUND=3 archives /tmp/seed3-*-out with /tmp/st3-*.log as seeded/Cxx-r3-N
ids = sys.argv[1:]
base = os.popen("git -C /repo rev-parse --short HEAD").read().strip()
for log in sorted(glob.glob("/tmp/st%s-C*-patch*.log" % R)):
    m = re.match(r"/tmp/st%s-(C\d+)-patch(\d)\.log" % R, log)
    if not m: continue
    pid, n = m.groups()
    if ids and pid not in ids: continue
    src = f"/tmp/seed{R}-{pid}-out"
    if not os.path.exists(f"{src}/patch{n}.diff"): continue
    txt = open(log).read()
    lines = [l for l in txt.splitlines() if l.startswith("== ")]
    if not lines: continue
    own = [l for l in lines if l.startswith(f"== {pid} ")]
    caught = any("rc=1" in l for l in lines)
    key = re.search(r"key=([^ ]+?):? ", txt)
    dst = f"/verif/seeded/{pid}-r{R}-{n}"
    prev = {}
    if os.path.exists(f"{dst}/meta.json"):
        prev = json.load(open(f"{dst}/meta.json"))
    os.makedirs(dst, exist_ok=True)
    shutil.copyfile(f"{src}/patch{n}.diff", f"{dst}/patch.diff")
    for f in glob.glob(f"{src}/demo{n}*"):
        shutil.copyfile(f, os.path.join(dst, os.path.basename(f)))
    needs = ""
    if os.path.exists(f"{src}/README.md"):
        shutil.copyfile(f"{src}/README.md", f"{dst}/README.seeder.md")
        readme = open(f"{src}/README.md").read()
        secs = re.split(r"\n(?=#+ )", readme)
        sec = next((s for s in secs if re.search(r"patch\s*%s" % n, s.split("\n")[0], re.I)), "")
        if not sec:
            sec = next((s for s in secs if f"patch{n}" in s), readme)
        para = [p for p in re.split(r"\n\s*\n", sec) if re.search(r"need|manifest|trigger", p, re.I)]
        needs = re.sub(r"\s+", " ", (para[0] if para else sec))[:700]
    status = "caught" if caught else "missed"
    hist = prev.get("history", [])
    ran = "; ".join(l[:200] for l in lines) + (f" key={key.group(1)}" if key and caught else "")
    if prev.get("status") and prev.get("what_i_ran") != ran:
        hist.append({"status": prev["status"], "what_i_ran": prev.get("what_i_ran")})
    meta = {"property": pid, "round": int(R), "patch": "patch.diff", "needs_to_manifest": needs, "status": status,
            "what_i_ran": "tools/seedtest.sh %s patch.diff (scratch worktree of /repo HEAD + patch, go build ./..., quick check with VERIF_REPO): %s" % (pid, ran),
            "base_commit": base}
    if caught and key: meta["caught_by"] = f"{pid} quick, key {key.group(1)}"
    if hist: meta["history"] = hist
    json.dump(meta, open(f"{dst}/meta.json", "w"), indent=1)
    print(pid, n, status)

#!/usr/bin/env python3
# Runs bfe's own suite (guard off) and compares with the stable_pass list of /root/.vp/BASELINE.json
import json, subprocess, sys, os
base = json.load(open('/root/.vp/BASELINE.json'))
stable = set(base['stable_pass'])
env = dict(os.environ, GOFLAGS='-mod=mod', GOPROXY='off', GOSUMDB='off')
p = subprocess.run(['go', 'test', '-json', '-vet=off', '-count=1', '-timeout', '25m', './...'], cwd='/repo', env=env,
                   stdout=subprocess.PIPE, stderr=subprocess.DEVNULL, text=True)
passed = set()
for l in p.stdout.splitlines():
    try:
        e = json.loads(l)
    except Exception:
        continue
    if e.get('Action') == 'pass' and e.get('Test'):
        passed.add(e['Package'] + '::' + e['Test'])
missing = sorted(stable - passed)
print('stable_pass: %d, passed now: %d, stable tests not passing now: %d' % (len(stable), len(passed & stable), len(missing)))
for m in missing:
    print('  NOT PASSING:', m)
sys.exit(1 if missing else 0)

#!/usr/bin/env python3
# prints a markdown table of /verif/seeded/*/meta.json
import json, glob, os
rows = []
for d in sorted(glob.glob('/verif/seeded/*')):
    try:
        m = json.load(open(os.path.join(d, 'meta.json')))
    except Exception:
        continue
    rows.append((os.path.basename(d), m.get('status'), m.get('caught_by', ''), m.get('needs_to_manifest', ''), m.get('what_i_ran', '')))
c = sum(1 for r in rows if r[1] == 'caught'); mi = sum(1 for r in rows if r[1] == 'missed'); rj = sum(1 for r in rows if r[1] == 'rejected')
print(f"{len(rows)} seeded changes: {c} caught, {mi} missed, {rj} rejected\n")
print("| seeded change | status | caught by / note |")
print("|---|---|---|")
for r in rows:
    note = r[2] or r[4]
    print(f"| {r[0]} | {r[1]} | {note[:160].replace('|','/')} |")
